#!/usr/bin/env python3
"""Checker self-test (DESIGN 6).  For every mutant under selftest/mutants (a one-site edit of /repo that compiles
and keeps the repo's suite green) the named checks must report a VIOLATION whose key contains the expected
fragment; for every edit under selftest/benign (behaviour-preserving) all checks must stay silent.
Works on scratch copies under a fresh temp dir outside /repo and /verif; each is removed when its verdict is read.

usage: run.py [--suite] [--only NAME] [--ids a,b] [--jobs N] [--all-checks] [--seeded [--own-only]] [--benign-dir D]
  --suite       also (re)run `cargo test` on each scratch copy and record whether the suite stays green
  --all-checks  run all 20 checks on every mutant (default: only the expected ones; benign edits always get all)
"""
import json, os, shutil, subprocess, sys, tempfile, concurrent.futures as cf

HERE = os.path.dirname(os.path.abspath(__file__))
VERIF = os.path.dirname(HERE)
REPO = "/repo"
ALL = ["C%02d" % i for i in range(1, 21)]


def load(kind):
    out = []
    d = os.path.join(HERE, kind)
    for fn in sorted(os.listdir(d)):
        if fn.endswith(".json"):
            with open(os.path.join(d, fn)) as fh:
                m = json.load(fh)
            m["name"] = fn[:-5]
            m["kind"] = kind
            if m.get("patch") and not os.path.isabs(m["patch"]):
                m["patch"] = os.path.join(d, m["patch"])     # a refactored-then-broken tree, as a diff against HEAD
            out.append(m)
    return out


def load_seeded():
    out = []
    d = os.path.join(VERIF, "seeded")
    if not os.path.isdir(d):
        return out
    for name in sorted(os.listdir(d)):
        mp = os.path.join(d, name, "meta.json")
        if os.path.exists(mp):
            meta = json.load(open(mp))
            out.append({"name": "seeded/" + name, "kind": "seeded", "patch": os.path.join(d, name, "patch.diff"), "expect": [meta["property"]], "key": "", "meta_path": mp})
    return out


def apply_edits(root, edits):
    for e in edits:
        path = os.path.join(root, e["file"])
        raw = open(path, "rb").read()
        crlf = b"\r\n" in raw
        o, n = e["old"].encode(), e["new"].encode()
        if crlf:
            o, n = o.replace(b"\n", b"\r\n"), n.replace(b"\n", b"\r\n")
        c = raw.count(o)
        if c != e.get("count", 1):
            raise SystemExit("%s: pattern occurs %d times in %s: %r" % (root, c, e["file"], e["old"][:60]))
        raw = raw.replace(o, n) if e.get("count", 1) != 1 or True else raw
        open(path, "wb").write(raw)


def one(m, suite=False, all_checks=False):
    tmp = tempfile.mkdtemp(prefix="tdmut-")
    root = os.path.join(tmp, "repo")
    try:
        os.makedirs(root)
        for x in ("Cargo.toml", "Cargo.lock", "src", "benches", "README.md"):
            s = os.path.join(REPO, x)
            if os.path.isdir(s):
                shutil.copytree(s, os.path.join(root, x))
            elif os.path.exists(s):
                shutil.copy2(s, os.path.join(root, x))
        if m["kind"] == "seeded" or m.get("patch"):
            subprocess.run(["git", "init", "-q"], cwd=root)
            r = subprocess.run(["git", "apply", "--whitespace=nowarn", m["patch"]], cwd=root, stdout=subprocess.PIPE, stderr=subprocess.STDOUT, text=True)
            if r.returncode != 0:
                return {"name": m["name"], "kind": m["kind"], "fired": {}, "error": "patch does not apply: " + r.stdout[-300:]}
        else:
            apply_edits(root, m["edits"])
        res = {"name": m["name"], "kind": m["kind"]}
        if suite:
            env = dict(os.environ, CARGO_NET_OFFLINE="true", CARGO_TARGET_DIR=os.path.join(tmp, "target"))
            r = subprocess.run(["cargo", "test", "--offline", "--lib"], cwd=root, env=env, stdout=subprocess.PIPE, stderr=subprocess.STDOUT, text=True)
            res["suite_green"] = r.returncode == 0
            res["suite_tail"] = r.stdout[-300:] if r.returncode else ""
        checks = ALL if (all_checks or m["kind"] in ("benign", "seeded")) else m["expect"]
        if m["kind"] == "seeded" and "--own-only" in sys.argv:
            checks = m["expect"][:1]          # quick regression pass: is every seed still reported by its own property's check?
        env = dict(os.environ, VERIF_REPO=root, VERIF_EVIDENCE_DIR=os.path.join(tmp, "evidence"))
        fired = {}
        for c in checks:
            r = subprocess.run([os.path.join(VERIF, "check"), c], env=env, stdout=subprocess.PIPE, stderr=subprocess.STDOUT, text=True)
            keys = []
            for ln in r.stdout.splitlines():
                if ln.startswith("VIOLATION"):
                    rp = ln.split("replay=")[1].strip()
                    try:
                        keys.append(json.load(open(rp))["key"])
                    except Exception:
                        keys.append("?")
            fired[c] = {"exit": r.returncode, "keys": keys, "inconclusive": [ln.split("INCONCLUSIVE", 1)[1].strip()[:160] for ln in r.stdout.splitlines() if "] INCONCLUSIVE " in ln]}
            if r.returncode not in (0, 1):
                fired[c]["tail"] = r.stdout[-600:]
        res["fired"] = fired
        return res
    finally:
        shutil.rmtree(tmp, ignore_errors=True)
        # drop this scratch tree's cached facts
        import hashlib
        tag = "scratch" + hashlib.sha256(os.path.abspath(root).encode()).hexdigest()[:10]
        fd = os.path.join(VERIF, ".work", "facts")
        if os.path.isdir(fd):
            for fn in os.listdir(fd):
                if fn.startswith(tag + "-"):
                    try:
                        os.remove(os.path.join(fd, fn))
                    except OSError:
                        pass


def main():
    args = sys.argv[1:]
    suite = "--suite" in args
    allc = "--all-checks" in args
    only = args[args.index("--only") + 1] if "--only" in args else None
    jobs = int(args[args.index("--jobs") + 1]) if "--jobs" in args else 8
    items = load("mutants") + load("benign")
    bp = os.path.join(HERE, "benign_patches")
    if os.path.isdir(bp):
        items += [{"name": "benign_patches/" + fn, "kind": "benign", "patch": os.path.join(bp, fn), "expect": []} for fn in sorted(os.listdir(bp)) if fn.endswith(".diff")]
    if "--seeded" in args:
        items = load_seeded()
    if "--benign-dir" in args:
        bd = os.path.abspath(args[args.index("--benign-dir") + 1])
        items = [{"name": os.path.basename(bd) + "/" + fn, "kind": "benign", "patch": os.path.join(bd, fn), "expect": []} for fn in sorted(os.listdir(bd)) if fn.startswith("refactor_") and fn.endswith(".diff")]
    if only:
        items = [m for m in items if only in m["name"]]
    if "--ids" in args:
        ids = set(args[args.index("--ids") + 1].split(","))
        items = [m for m in items if m["name"].split("/")[-1] in ids]
    bad = 0
    with cf.ThreadPoolExecutor(jobs) as ex:
        for res, m in zip(ex.map(lambda m: one(m, suite, allc), items), items):
            fired = res["fired"]
            if res.get("error"):
                print("ERROR   %-34s %s" % (m["name"], res["error"]))
                bad += 1
                continue
            if m["kind"] == "seeded":
                hit = sorted(c for c, v in fired.items() if v["exit"] == 1)
                own = m["expect"][0] in hit
                meta = json.load(open(m["meta_path"]))
                if "--own-only" in sys.argv:
                    prev = dict(meta.get("checks_that_fire", {}))
                    prev.pop(m["expect"][0], None)
                    prev.update({c: fired[c]["keys"] for c in hit})
                    meta["checks_that_fire"] = prev
                else:
                    meta["checks_that_fire"] = {c: fired[c]["keys"] for c in hit}
                meta["caught_by_own_property_check"] = own
                json.dump(meta, open(m["meta_path"], "w"), indent=1)
                print("%s %-34s own=%s fired=%s" % ("CAUGHT " if own else ("OTHER  " if hit else "MISSED "), m["name"], m["expect"][0], ",".join(hit)))
                if not own:
                    bad += 1
                continue
            if m["kind"] == "mutants":
                want = m.get("key", "")
                hit = [c for c in m["expect"] if fired.get(c, {}).get("exit") == 1 and any(want in k for k in fired[c]["keys"])]
                ok = len(hit) == len(m["expect"])
                extra = [c for c, v in fired.items() if v["exit"] == 1 and c not in m["expect"]]
                status = "CAUGHT " if ok else "MISSED "
                if not ok:
                    bad += 1
                print("%s %-34s expect=%s hit=%s%s%s" % (status, m["name"], ",".join(m["expect"]), ",".join(hit), (" also=" + ",".join(extra)) if extra else "", ("  suite_green=%s" % res.get("suite_green")) if suite else ""))
                if not ok:
                    for c in m["expect"]:
                        print("      %s exit=%s keys=%s %s" % (c, fired[c]["exit"], fired[c]["keys"][:4], fired[c].get("tail", "")[-300:]))
            else:
                noisy = {c: v for c, v in fired.items() if v["exit"] != 0}
                ok = not noisy
                if not ok:
                    bad += 1
                print("%s %-34s %s%s" % ("SILENT " if ok else "ALARM  ", m["name"], {c: v["keys"][:3] or v.get("tail", "")[-200:] for c, v in noisy.items()} if noisy else "", ("  suite_green=%s" % res.get("suite_green")) if suite else ""))
                if "--show-inconclusive" in sys.argv:
                    inc = sorted({x for v in fired.values() for x in v.get("inconclusive", [])})
                    for x in inc:
                        print("        undecided: " + x)
    # scratch facts are keyed by tree hash; prune those not belonging to /repo
    fd = os.path.join(VERIF, ".work", "facts")
    if os.path.isdir(fd):
        for fn in os.listdir(fd):
            if fn.startswith("repo-") and False:
                pass
    print("selftest: %d items, %d failures" % (len(items), bad))
    return 1 if bad else 0


if __name__ == "__main__":
    sys.exit(main())
