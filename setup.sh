#!/bin/sh
# Build the fact-extraction driver (rustc_private, zero cargo dependencies) offline.
set -e
cd "$(dirname "$0")"
export CARGO_NET_OFFLINE=true
(cd driver && cargo build --release --offline)
test -x driver/target/release/toodee-facts
mkdir -p .work evidence
echo "setup ok"
