#!/usr/bin/env python3
"""seed_eval.py <patch.diff> <demo.rs> [--release]
Confirms a seeded change in a scratch copy of /repo's HEAD (outside /repo and /verif, removed afterwards):
  1. demo passes on the unmodified tree, 2. patch applies, 3. crate compiles and the existing suite stays green,
  4. demo fails with the patch, 5. runs all 20 checks against the patched copy and lists the violations.
Prints a JSON summary on the last line."""
import json, os, shutil, subprocess, sys, tempfile
VERIF = os.path.dirname(os.path.dirname(os.path.abspath(__file__)))
patch, demo = os.path.abspath(sys.argv[1]), os.path.abspath(sys.argv[2])
release = "--release" in sys.argv
tmp = tempfile.mkdtemp(prefix="seedeval-")
root = os.path.join(tmp, "repo")
out = {"patch": patch}
try:
    os.makedirs(root)
    subprocess.run("git -C /repo archive HEAD | tar -x -C %s" % root, shell=True, check=True)
    shutil.copy("/repo/Cargo.lock", root)
    os.makedirs(os.path.join(root, "tests"), exist_ok=True)
    shutil.copy(demo, os.path.join(root, "tests", "demo.rs"))
    env = dict(os.environ, CARGO_NET_OFFLINE="true", CARGO_TARGET_DIR=os.path.join(tmp, "target"))
    rel = ["--release"] if release else []
    def run(cmd):
        r = subprocess.run(cmd, cwd=root, env=env, stdout=subprocess.PIPE, stderr=subprocess.STDOUT, text=True)
        return r.returncode, r.stdout
    rc, o = run(["cargo", "test", "--offline", "--test", "demo"] + rel)
    out["demo_passes_without"] = rc == 0
    if rc != 0:
        out["demo_without_tail"] = o[-800:]
    subprocess.run(["git", "init", "-q"], cwd=root)
    rc, o = run(["git", "apply", "--whitespace=nowarn", patch])
    out["patch_applies"] = rc == 0
    if rc != 0:
        out["apply_err"] = o[-500:]
    else:
        rc, o = run(["cargo", "test", "--offline", "--lib"])
        out["suite_green_with"] = rc == 0 and "134 passed" in o
        rc2, o2 = run(["cargo", "test", "--offline", "--doc"])
        out["doctests_green_with"] = rc2 == 0
        if not out["suite_green_with"]:
            out["suite_tail"] = o[-600:]
        rc, o = run(["cargo", "test", "--offline", "--test", "demo"] + rel)
        out["demo_fails_with"] = rc != 0
        if rc == 0 and not release:
            # some demonstrations need overflow checks off
            rc, o = run(["cargo", "test", "--offline", "--release", "--test", "demo"])
            if rc != 0:
                out["demo_fails_with"] = True
                out["needs_release"] = True
                subprocess.run(["git", "apply", "-R", "--whitespace=nowarn", patch], cwd=root)
                rc3, o3 = run(["cargo", "test", "--offline", "--release", "--test", "demo"])
                out["demo_passes_without_release"] = rc3 == 0
                subprocess.run(["git", "apply", "--whitespace=nowarn", patch], cwd=root)
        os.remove(os.path.join(root, "tests", "demo.rs"))
        env2 = dict(os.environ, VERIF_REPO=root, VERIF_EVIDENCE_DIR=os.path.join(tmp, "evidence"))
        fired = {}
        for i in range(1, 21):
            c = "C%02d" % i
            r = subprocess.run([os.path.join(VERIF, "check"), c], env=env2, stdout=subprocess.PIPE, stderr=subprocess.STDOUT, text=True)
            keys = []
            for ln in r.stdout.splitlines():
                if ln.startswith("VIOLATION"):
                    try:
                        keys.append(json.load(open(ln.split("replay=")[1].strip()))["key"])
                    except Exception:
                        keys.append("?")
            if r.returncode != 0:
                fired[c] = keys or ["exit %d: %s" % (r.returncode, r.stdout[-300:])]
        out["fired"] = fired
finally:
    shutil.rmtree(tmp, ignore_errors=True)
    import hashlib
    tag = "scratch" + hashlib.sha256(os.path.abspath(root).encode()).hexdigest()[:10]
    fd = os.path.join(VERIF, ".work", "facts")
    if os.path.isdir(fd):
        for fn in os.listdir(fd):
            if fn.startswith(tag + "-"):
                os.remove(os.path.join(fd, fn))
print(json.dumps(out))
