#!/usr/bin/env python3
"""seed_import.py <round> <worktree-prefix> <first-index> <desc.json> [ids...]
Confirms sub-agent changes (<prefix>Cxx/patch_i.diff + demo_i.rs) with tools/seed_eval.py and files the confirmed ones
as /verif/seeded/Cxx-<first-index+i-1>/ (patch.diff, demo.rs, meta.json with the first-contact result)."""
import json, os, shutil, subprocess, sys, concurrent.futures as cf
HERE = os.path.dirname(os.path.dirname(os.path.abspath(__file__)))
rnd, prefix, first, descf = int(sys.argv[1]), sys.argv[2], int(sys.argv[3]), sys.argv[4]
only = sys.argv[5:]
desc = json.load(open(descf))
ORIGIN = {10: "independent sub-agent given only the property text and a scratch worktree (no access to /verif), asked for ONE small realistic change (helper reused by a wrong caller, one side of a pair, fast path wrong for an unusual shape, guard moved after the effect, wrapping / truncating arithmetic, override on one implementor) that is not among the most obvious ones, within a 9 minute budget (session 4 mini-round)",
          9: "independent sub-agent given only the property text and a scratch worktree (no access to /verif), told which kinds of change had been tried in earlier rounds (simple slips, shadowing inherent methods, clone_from, needs_drop / cfg guards, rchunks folds, eq shortcuts, deserialize_in_place ..) and asked for two changes of yet another kind: a helper with a new caller it is wrong for, one side of a pair changed, arithmetic through another integer type, Option / Result plumbing that swallows a panic, truncating iterator adaptors, mem::swap / take on the wrong place, overrides for one implementor only, Drop order, added std trait impls",
          8: "independent sub-agent given only the property text and a scratch worktree (no access to /verif), told that simple slips have been tried many times and asked for two changes of a NOVEL kind: cross-call state, element-type / capacity / aliasing dependence, changed trait impl tables or generic bounds, interactions of two correct-looking pieces",
          7: "independent sub-agent given only the property text and a scratch worktree (no access to /verif), asked for three changes in the HARD ARITHMETIC at the heart of the property (counts, offsets, loop bounds, running variables, direction choices) that leave every assertion, bounds check and dimension choice intact",
          6: "independent sub-agent given only the property text and a scratch worktree (no access to /verif), asked for three changes of three different kinds: (1) two cooperating sites that each look fine alone, (2) a new override / specialisation / fast path that is subtly wrong, (3) a small slip that needs an unusual input or a multi-step history to manifest",
          5: "independent sub-agent given only the property text and a scratch worktree (no access to /verif), asked for three small slips (1-12 changed lines) placed in the LESS obvious dependencies of the property (helpers three calls away, default trait methods, twin impls, size_hint, Drop, derives, constants)",
          4: "independent sub-agent given only the property text and a scratch worktree (no access to /verif), asked for three SMALL maintenance slips (1-8 changed lines: operator / constant / neighbouring variable / sibling call / moved statement / +-1 / early return / moved assertion)",
          3: "independent sub-agent given only the property text and a scratch worktree (no access to /verif), asked for a REFACTORING WITH A HIDDEN BUG (helper extraction, loop rewrite, fast path, delegation ... that breaks the property while the suite stays green)"}
jobs = []
BASE = {}
for i in range(1, 21):
    pid = "C%02d" % i
    if only and pid not in only:
        continue
    for k in (1, 2, 3):
        p, dm = "%s%s/patch_%d.diff" % (prefix, pid, k), "%s%s/demo_%d.rs" % (prefix, pid, k)
        base = first or 1 + max([int(x.split("-")[1]) for x in os.listdir(os.path.join(HERE, "seeded")) if x.startswith(pid + "-")] + [0])
        if not first and k > 1:
            base = BASE[pid]
        BASE[pid] = base
        sid = "%s-%d" % (pid, base + k - 1)
        if os.path.exists(p) and os.path.exists(dm) and not os.path.exists(os.path.join(HERE, "seeded", sid, "meta.json")):
            jobs.append((pid, sid, p, dm))
def run(j):
    pid, sid, p, dm = j
    r = subprocess.run([sys.executable, os.path.join(HERE, "tools", "seed_eval.py"), p, dm], stdout=subprocess.PIPE, stderr=subprocess.STDOUT, text=True)
    try:
        return j, json.loads(r.stdout.strip().splitlines()[-1])
    except Exception:
        return j, {"error": r.stdout[-500:]}
with cf.ThreadPoolExecutor(5) as ex:
    for (pid, sid, p, dm), out in ex.map(run, jobs):
        ok = out.get("demo_passes_without") and out.get("patch_applies") and out.get("suite_green_with") and out.get("doctests_green_with") and out.get("demo_fails_with")
        fired = out.get("fired", {})
        print("%s confirmed=%s own=%s fired=%s %s" % (sid, bool(ok), pid in fired, sorted(fired), "" if ok else json.dumps({k: v for k, v in out.items() if k != "fired"})[:400]))
        if not ok:
            continue
        d = os.path.join(HERE, "seeded", sid)
        os.makedirs(d, exist_ok=True)
        shutil.copy(p, os.path.join(d, "patch.diff"))
        shutil.copy(dm, os.path.join(d, "demo.rs"))
        meta = {"id": sid, "property": pid, "round": rnd, "origin": ORIGIN.get(rnd, ""), "needs_to_manifest": desc.get(sid, "(see patch.diff)"),
                "demo": "demo.rs (integration test; place as tests/demo.rs)",
                "confirmed": {"how": "tools/seed_eval.py in a scratch copy of /repo HEAD outside /repo and /verif: demo passes without the patch, patch applies, cargo test --lib (134) and --doc (70) stay green with it, demo fails with it",
                              "demo_passes_without": True, "patch_applies": True, "suite_green_with": True, "doctests_green_with": True, "demo_fails_with": True, "needs_release": out.get("needs_release")},
                "first_contact": {"own_check_fired": pid in fired, "fired": sorted(fired)},
                "checks_that_fire": fired, "caught_by_own_property_check": pid in fired}
        json.dump(meta, open(os.path.join(d, "meta.json"), "w"), indent=1)
