#!/usr/bin/env python3
"""Rewrites the seeded-change table in DESIGN.md (between the SEEDED-TABLE markers) from /verif/seeded/*/meta.json."""
import glob, json, os, re
HERE = os.path.dirname(os.path.dirname(os.path.abspath(__file__)))
rows = []
n = own = 0
for d in sorted(glob.glob(os.path.join(HERE, "seeded", "*", "meta.json")), key=lambda p: (os.path.basename(os.path.dirname(p)).split("-")[0], int(os.path.basename(os.path.dirname(p)).split("-")[1]))):
    m = json.load(open(d))
    fired = m.get("checks_that_fire", {})
    p = m["property"]
    rules = sorted({k.split("/")[0] for k in fired.get(p, [])})
    n += 1
    own += p in fired
    fc = m.get("first_contact")
    first = "" if fc is None else ("yes" if fc.get("own_check_fired") else ("other" if fc.get("fired") else "no"))
    desc = m["needs_to_manifest"]
    if m.get("round", 0) >= 6:
        desc = re.sub(r"^(Kind|KIND|Change|CHANGE|change)\s*\d+\s*(\([^)]*\))?\s*[-.:]?\s*", "", desc)
        desc = re.sub(r"^(Kind|KIND|Change)\s*\d+[^.]*?\)\s*[.:]?\s*", "", desc)
        desc = re.sub(r"\|", "/", desc)[:130]
    else:
        desc = desc.split(":")[0][:120]
    rows.append("| %s | %s | %s | %s | %s | %s |" % (m["id"], desc, p if p in fired else "**missed**", ", ".join(rules), ", ".join(sorted(c for c in fired if c != p)), first))
table = "| seed | what it changes | own check | rule(s) | also fires | caught at first contact (rounds 2-8) |\n|---|---|---|---|---|---|\n" + "\n".join(rows) + "\n\n%d seeds, %d reported by their own property's check on the current machinery.\n" % (n, own)
p = os.path.join(HERE, "DESIGN.md")
s = open(p).read()
s2 = re.sub(r"<!-- SEEDED-TABLE-BEGIN -->.*<!-- SEEDED-TABLE-END -->", "<!-- SEEDED-TABLE-BEGIN -->\n" + table + "<!-- SEEDED-TABLE-END -->", s, flags=re.S)
open(p, "w").write(s2)
print("table rows:", n, "own:", own)
