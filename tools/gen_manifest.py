#!/usr/bin/env python3
"""Regenerates /verif/MANIFEST.json from analysis/props.py (so that level texts stay in sync with the rules)."""
import json, os, sys
HERE = os.path.dirname(os.path.dirname(os.path.abspath(__file__)))
sys.path.insert(0, HERE)
from analysis import props

TECH = {
 "C01": "MIR typestate dataflow (len,rows,cols) at unwind/leak/return points + {v==0} predicate abstraction + visibility/signature scan",
 "C02": "dominator-based guard analysis (unit, strictness, domination of uses) + unchecked-arithmetic rule + ROW/COL unit inference",
 "C03": "{v==0} predicate abstraction with computed helper summaries + unit inference over MIR",
 "C04": "visibility / trait-impl table scan + permutation-primitive call rule + take-typestate",
 "C05": "hidden-window typestate for raw moves + who-may-call rule for duplicating primitives + raw-pointer comparison lint",
 "C06": "guard dominance + predicate abstraction + unwind-point typestate on insert_row/insert_col",
 "C07": "guard dominance + delegation check + leak/unwind typestate on remove_row/remove_col/DrainCol::drop",
 "C08": "moved-out typestate (mem::take) + checked-arithmetic rule on the row cursors",
 "C09": "moved-out typestate + checked-arithmetic rule on the column cursors + guard dominance for col()",
 "C10": "direction rule over resolved inner-iterator calls of FlattenExact",
 "C11": "MIR unwind-edge typestate dataflow with restorer-drop summaries and drop-flag tracking",
 "C12": "leak typestate at return of drain-producing functions + tail-drain value-graph rule",
 "C13": "guard dominance incl. ordered-swap and nth().unwrap() idioms + unit inference + permutation-primitive rule",
 "C14": "guard dominance + unguarded-arithmetic rule + unit inference on copy.rs",
 "C15": "guard dominance + unit inference + permutation-primitive rule on translate.rs",
 "C16": "delegation check over resolved callees + sort skeleton rules (stability, argument order, all-rows, dominance of writes)",
 "C17": "delegation check over resolved callees + unit inference at call arguments + sort skeleton rules",
 "C18": "writer/reader table agreement over MIR string constants and resolved getters + key-type rule",
 "C19": "panic-freedom of the reader: panicking-callee scan + constructor-precondition classifier discharged by dominating Err guards + {v==0} abstraction at the constructor call",
 "C20": "{v==0} predicate abstraction at every construction site + unit check of field initialisers",
}
NOTE = "Trusted: rustc nightly's MIR (mir-opt-level=0) as the meaning of the source; std contracts of the modelled callees; the role/unit table read off the API docs; pen-and-paper lemmas listed in the evidence. Decides necessary structural clauses only; declined clauses are listed in evidence coverage.declined."
checks = []
for pid in sorted(props.PROPS):
    sp = props.PROPS[pid]
    checks.append({
        "property_id": pid,
        "quick_cmd": "./check %s --tier quick" % pid,
        "thorough_cmd": "./check %s --tier thorough" % pid,
        "evidence_file": "/verif/evidence/%s.json" % pid,
        "replay_cmd_template": "./check %s --replay {path}" % pid,
        "engine": "toodee-facts + analysis",
        "level_claimed": {"category": "other", "text": sp["explanation"] + ((" NOT decided: " + "; ".join(sp["declined"]) + ".") if sp["declined"] else ""), "design_ref": "DESIGN.md section 4 (%s), rules in section 3" % pid},
        "level_note": NOTE,
        "technique": "static analysis: " + TECH[pid],
    })
man = {
    "version": 1,
    "setup_cmd": "./setup.sh",
    "hooks": {"guard": "toodee_verif", "enable": "none needed: static analysis reads the source; no instrumentation of toodee exists", "baseline_off_cmd": "cd /repo && cargo test --workspace --no-fail-fast --offline", "source_commits": [], "add_only": True},
    "engines": [
        {"name": "toodee-facts", "path": "/verif/driver", "serves_properties": sorted(props.PROPS), "kind_free_text": "rustc_private driver (RUSTC_WORKSPACE_WRAPPER under cargo +nightly check): dumps MIR, ADT/impl/item tables of /repo's current tree as JSON"},
        {"name": "analysis", "path": "/verif/analysis", "serves_properties": sorted(props.PROPS), "kind_free_text": "Python (stdlib) static analyses over the facts: CFG/dominators, def-use expressions, predicate abstraction, typestate dataflow, unit inference, value graphs"},
    ],
    "checks": checks,
    "notes": "Technique family: static analysis only. Quick = lib target with default features; thorough = 7 configurations (no features, each single feature, debug-assertions/overflow-checks off) plus up to three positive controls per property (must-fire edits from selftest/mutants and seeded/, applied to a scratch copy of the current tree outside /repo and /verif; if an applicable control is not reported the check exits 2 as engine-broken). known_findings.json lists repaired defects (fixed: ...) and any known findings (none).",
    "not_applicable": [],
}
json.dump(man, open(os.path.join(HERE, "MANIFEST.json"), "w"), indent=1)
print("MANIFEST.json written: %d checks" % len(checks))
