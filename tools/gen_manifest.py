#!/usr/bin/env python3
"""Regenerates /verif/MANIFEST.json from analysis/props.py (so that level texts stay in sync with the rules)."""
import json, os, sys
HERE = os.path.dirname(os.path.dirname(os.path.abspath(__file__)))
sys.path.insert(0, HERE)
from analysis import props

TECH = {
 "C01": "MIR typestate dataflow over (Vec length, num_rows, num_cols) at every unwind / leak / return point of the shape writers; {v==0} predicate abstraction; symbolic raw-access bounds with induction-variable loop summaries; visibility / signature scan backed by compile_fail witnesses; structural clauses of the in-place algorithms selected through call-graph reachability",
 "C02": "path-wise abstract evaluation of the loop-free accessor bodies over canonical polynomials and slice intervals, matched against layout lemmas whose hypotheses must be dominating branch facts; dominator-based guard analysis (unit, strictness, domination of uses and returns); unchecked-arithmetic rule; ROW/COL unit inference",
 "C03": "layout-lemma matching of the window range and of every view literal (slice, extent, stride) by abstract evaluation over polynomials; {v==0} predicate abstraction with computed helper summaries; guard dominance incl. return domination; unit inference",
 "C04": "layout-lemma matching with the view's own stride plus write-footprint confinement for every method of TooDeeViewMut that touches the backing slice; value-graph conformance of RowsMut / ColMut to the ideal strided cursor; visibility / impl-table scan with compile_fail witnesses; permutation-primitive rule; call-graph reachability selection",
 "C05": "hidden-window typestate for raw moves (incl. move-then-hide and helper / closure call-site states); symbolic raw-access bounds, move order and adjacency; drain rules over the CFG (single-step, order, exhaustion before compaction, restorer coverage); who-may-call rule for duplicating primitives; raw-pointer comparison lint",
 "C06": "guard dominance; {v==0} predicate abstraction; unwind-point typestate and symbolic raw-access bounds on insert_row / insert_col; rotate / append pairing; delegation check of push_*; unchecked-arithmetic rule on the capacity calls",
 "C07": "guard dominance; delegation check of pop_*; leak / unwind typestate on remove_row / remove_col; drain literal as a region polynomial; restorer coverage and exhaustion clauses of the destructor; cursor conformance of the embedded Col",
 "C08": "path-wise abstract evaluation of every Rows / RowsMut iterator method (value graph over polynomials and slice intervals, helpers inlined) against the ideal strided cursor, with concrete small-state witnesses for reports; semantic size_hint / len under the cursor invariant; classification of further overrides (direction family, chunking idioms); moved-out typestate; overflow-detection rule",
 "C09": "as C08 for Col / ColMut, plus the unchecked-arithmetic rule on indexing, guard dominance and layout lemmas for col() / col_mut() / get_col_params",
 "C10": "denotational abstract evaluation of FlattenExact's next / next_back / nth / nth_back / size_hint / len / count over interval models of the inner iterators with bounded fact saturation; direction rule for every override; IntoIterator -> cells() and fold / rfold chain shape; row-cursor conformance (C08)",
 "C11": "MIR unwind-edge typestate dataflow with restorer-drop summaries, drop-flag tracking and helper / closure propagation; hidden-window typestate; comparator-before-write reachability clause of the sorts",
 "C12": "leak typestate at the return of every drain-producing function (as if the destructor never runs); tail-drain value-graph rule; hidden-window typestate of the drain's own iterator; compile_fail witnesses for borrow exclusivity",
 "C13": "guard dominance incl. ordered-swap, sorted-pair and nth().unwrap() idioms and return domination; abstract row-cursor model (L-NTH) for the provided swap / swap_rows / row_pair_mut; layout lemmas and exact two-row footprints for the overrides; unit inference; permutation-primitive rule; fill shape; call-graph reachability selection",
 "C14": "size-guard dominance of every write; placement identities of copy_within as canonical polynomials; row-set clause; guard dominance (incl. over-strict endpoints) and unguarded-arithmetic rule; unit inference; {v==0} rule for chunk sizes; call-graph reachability selection",
 "C15": "guard dominance and {zero, non-zero} exit analysis (R-NOSHIFT); induction-variable lockstep of the cycle-leader loop; flip shapes (paired cursor ends / mirrored index forms); unit inference; permutation-primitive rule; layout lemmas of the row getters; call-graph reachability selection",
 "C16": "delegation check over resolved callees; sort skeleton rules (stability by reachability, comparator argument order, key line, all-rows application, dominance of writes by the side sort); guard dominance; unit inference; call-graph reachability selection",
 "C17": "as C16 for columns, plus the address forms / footprints of every swap_rows implementation and the column cursor conformance",
 "C18": "writer / reader table agreement over MIR string constants, resolved getters and derive provenance; key-type rule; panicking-callee scan of the reader; cells() conformance (C10)",
 "C19": "panic-freedom of the reader: panicking-callee scan of every deserialisation-side body + constructor-precondition classifier discharged by dominating Err guards + {v==0} abstraction at the constructor call and at the accept sink",
 "C20": "{v==0} predicate abstraction at every construction site; constructor-precondition classifier (K_ZERO / K_OVF / K_LEN) with return domination; unit check of field initialisers and constructor arguments; conversion shapes (whole-Vec moves, rows in order); structural decision of hand-written Clone / PartialEq / Hash",
}
NOTE = "Trusted: rustc nightly's MIR (mir-opt-level=0) as the meaning of the source; std contracts of the modelled callees; the role/unit table read off the API docs; pen-and-paper lemmas listed in the evidence. Decides necessary structural clauses only; declined clauses are listed in evidence coverage.declined."
checks = []
for pid in sorted(props.PROPS):
    sp = props.PROPS[pid]
    checks.append({
        "property_id": pid,
        "quick_cmd": "./check %s --tier quick" % pid,
        "thorough_cmd": "./check %s --tier thorough" % pid,
        "evidence_file": "/verif/evidence/%s.json" % pid,
        "replay_cmd_template": "./check %s --replay {path}" % pid,
        "engine": "toodee-facts + analysis",
        "level_claimed": {"category": "other", "text": sp["explanation"] + ((" NOT decided: " + "; ".join(sp["declined"]) + ".") if sp["declined"] else ""), "design_ref": "DESIGN.md section 4 (%s), rules in section 3" % pid},
        "level_note": NOTE,
        "technique": "static analysis: " + TECH[pid],
    })
man = {
    "version": 1,
    "setup_cmd": "./setup.sh",
    "hooks": {"guard": "toodee_verif", "enable": "none needed: static analysis reads the source; no instrumentation of toodee exists", "baseline_off_cmd": "cd /repo && cargo test --workspace --no-fail-fast --offline", "source_commits": [], "add_only": True},
    "engines": [
        {"name": "toodee-facts", "path": "/verif/driver", "serves_properties": sorted(props.PROPS), "kind_free_text": "rustc_private driver (RUSTC_WORKSPACE_WRAPPER under cargo +nightly check): dumps MIR, ADT/impl/item tables of /repo's current tree as JSON"},
        {"name": "analysis", "path": "/verif/analysis", "serves_properties": sorted(props.PROPS), "kind_free_text": "Python (stdlib) static analyses over the facts: CFG/dominators, def-use expressions, predicate abstraction, typestate dataflow, unit inference, value graphs"},
    ],
    "checks": checks,
    "notes": "Technique family: static analysis only. Quick = lib target with default features; thorough = 7 configurations (no features, each single feature, debug-assertions/overflow-checks off) plus up to three positive controls per property (must-fire edits from selftest/mutants and seeded/, applied to a scratch copy of the current tree outside /repo and /verif; if an applicable control is not reported the check exits 2 as engine-broken). known_findings.json lists repaired defects (fixed: ...) and any known findings (none).",
    "not_applicable": [],
}
json.dump(man, open(os.path.join(HERE, "MANIFEST.json"), "w"), indent=1)
print("MANIFEST.json written: %d checks" % len(checks))
