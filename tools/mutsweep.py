#!/usr/bin/env python3
"""mutsweep.py [--files a.rs,b.rs] [--jobs N] [--out FILE] [--limit K] [--ops op1,op2]
Systematic single-site mutation sweep of /repo/src (non-test files): for every mutant that still compiles and keeps the
repository's own suite green (134 lib tests + doctests), run all 20 checks and record which fire.  A checker-development
aid (DESIGN 6): it measures the checks against the *survivors of the existing tests* - exactly the changes "that compile and
pass the existing tests" - instead of against hand-picked edits.  Works in per-worker scratch copies under a temp dir outside
/repo and /verif (removed at the end); never touches /repo.  Output: one JSON line per mutant."""
import json, os, re, shutil, subprocess, sys, tempfile, threading, queue, hashlib

NO_DOC = "--with-doc" not in sys.argv      # the pinned suite is the 134 lib tests; doctests are optional (slow)
VERIF = os.path.dirname(os.path.dirname(os.path.abspath(__file__)))
REPO = "/repo"
FILES = ["copy.rs", "flattenexact.rs", "iter.rs", "ops.rs", "serde.rs", "sort.rs", "toodee.rs", "translate.rs", "view.rs"]

# (name, regex, replacement) - applied to one match at a time, on code (not comment) text
OPS = [
    ("lt_le", r"(?<![<>=!\-])<(?![<>=])(?= )", "<="), ("le_lt", r"<=", "<"), ("gt_ge", r"(?<![<>=\-])>(?![<>=])(?= )", ">="), ("ge_gt", r">=", ">"),
    ("eq_ne", r"==", "!="), ("ne_eq", r"!=", "=="),
    ("add_sub", r"(?<![+\-=]) \+ ", " - "), ("sub_add", r"(?<![+\-=]) - ", " + "), ("mul_add", r" \* ", " + "),
    ("and_or", r"&&", "||"), ("or_and", r"\|\|", "&&"),
    ("c0_1", r"\b0\b(?!\.)", "1"), ("c1_0", r"(?<![\w.])1\b(?!\.)", "0"), ("c1_2", r"(?<![\w.])1\b(?!\.)", "2"),
    ("cols_rows", r"\bnum_cols\b", "num_rows"), ("rows_cols", r"\bnum_rows\b", "num_cols"),
    ("stride_cols", r"\bstride\b", "num_cols"), ("cols_skip", r"\bself\.cols\b", "self.skip_cols"), ("skip_cols", r"\bself\.skip_cols\b", "self.cols"),
    ("r1_r2", r"\br1\b", "r2"), ("r2_r1", r"\br2\b", "r1"), ("c1_c2", r"\bc1\b", "c2"), ("c2_c1", r"\bc2\b", "c1"),
    ("start_end", r"\bstart\b", "end"), ("end_start", r"\bend\b", "start"), ("t0_t1", r"\.0\b", ".1"), ("t1_t0", r"\.1\b", ".0"),
    ("next_back", r"\.next\(\)", ".next_back()"), ("back_next", r"\.next_back\(\)", ".next()"), ("nth_back", r"\.nth\(", ".nth_back("), ("back_nth", r"\.nth_back\(", ".nth("),
    ("rotl_r", r"rotate_left", "rotate_right"), ("rotr_l", r"rotate_right", "rotate_left"),
    ("sort_unst", r"\.sort_by\(", ".sort_unstable_by("), ("unst_sort", r"\.sort_unstable_by\(", ".sort_by("),
    ("src_dest", r"\bsrc\b", "dest"), ("dest_src", r"\bdest\b", "src"),
    ("index_len", r"\bindex\b", "len"), ("split_mut", r"split_at_mut\(([^()]*)\)", r"split_at_mut(\1 + 1)"),
    ("not_drop", r"!", ""),
    # second family: direction flips, off-by-one deletions, compound assignments, reversed / inclusive ranges, literals
    ("lt_gt", r"(?<![<>=!\-])<(?![<>=])(?= )", ">"), ("gt_lt", r"(?<![<>=\-])>(?![<>=])(?= )", "<"), ("le_ge", r"<=", ">="), ("ge_le", r">=", "<="),
    ("p1_del", r" \+ 1\b", ""), ("m1_del", r" - 1\b", ""), ("p1_m1", r" \+ 1\b", " - 1"), ("m1_p1", r" - 1\b", " + 1"),
    ("pe_me", r" \+= ", " -= "), ("me_pe", r" -= ", " += "),
    ("rev_del", r"\.rev\(\)", ""), ("rng_incl", r"(?<=[\w)])\.\.(?=[\w(])", "..="),
    ("true_false", r"\btrue\b", "false"), ("false_true", r"\bfalse\b", "true"),
    ("min_max", r"\bmin\(", "max("), ("max_min", r"\bmax\(", "min("),
    ("some_none", r"\bSome\(([^()]*)\)(?=\s*$|\s*[,}])", "None"),
    ("cols_stride", r"\bself\.num_cols\b", "self.stride"),
    ("swap2", r"\((\w+(?:\.\d)?), (\w+(?:\.\d)?)\)(?=;| \{|\))", r"(\2, \1)"),
    ("unwrap_or0", r"\.overflowing_mul\(", ".overflowing_add("),
    ("len_cap", r"\.len\(\)", ".capacity()"),
    # third family: a whole `if` block without else deleted; two adjacent statements exchanged
    ("del_if", r"^([ \t]+)if [^\n{]*\{\n(?:\1[ \t]+[^\n]*\n){1,6}\1\}[ \t]*\n(?!\1else)", ""),
    ("swap_stmt", r"^([ \t]+)((?!let |//|return|break|continue|\}|\{)[^\n]*;)[ \t]*\n\1((?!let |//|return|break|continue|\}|\{)[^\n]*;)[ \t]*$", r"\1\3\n\1\2"),
    ("swap_let", r"^([ \t]+)(let [^\n]*;)[ \t]*\n\1((?!let |//|\}|\{)[^\n]*;)[ \t]*$", r"\1\3\n\1\2"),
    ("del_stmt", r"^(\s+)(?!let |//|return|break|continue|pub |fn |use |impl |#|\}|\{)([^\n]*;)\s*$", r"\1{ }"),
]


def code_spans(text):
    """mask comments and string literals: returns a list of booleans (True = code) per character"""
    ok = [True] * len(text)
    i, n = 0, len(text)
    while i < n:
        if text.startswith("//", i):
            j = text.find("\n", i)
            j = n if j < 0 else j
            for k in range(i, j):
                ok[k] = False
            i = j
        elif text.startswith("/*", i):
            j = text.find("*/", i)
            j = n if j < 0 else j + 2
            for k in range(i, j):
                ok[k] = False
            i = j
        elif text[i] == '"':
            j = i + 1
            while j < n and text[j] != '"':
                j += 2 if text[j] == "\\" else 1
            for k in range(i, min(j + 1, n)):
                ok[k] = False
            i = j + 1
        else:
            i += 1
    return ok


def mutants(files, ops=None):
    out = []
    for fn in files:
        raw = open(os.path.join(REPO, "src", fn), "rb").read().decode()
        crlf = "\r\n" in raw
        text = raw.replace("\r\n", "\n")
        ok = code_spans(text)
        # mask every `#[cfg(test)] mod .. { .. }` block (brace matching on code characters)
        for mt in re.finditer(r"#\[cfg\(test\)\]\s*mod\s+\w+\s*\{", text):
            depth, k = 1, mt.end()
            while k < len(text) and depth:
                if ok[k]:
                    depth += (text[k] == "{") - (text[k] == "}")
                k += 1
            for z in range(mt.start(), k):
                ok[z] = False
        cut = len(text)
        for name, rx, rep in OPS:
            if ops and name not in ops:
                continue
            flags = re.M if name in ("del_stmt", "del_if", "swap_stmt", "swap_let") else 0
            for m in re.finditer(rx, text, flags):
                if m.start() >= cut or not ok[m.start()]:
                    continue
                line = text.count("\n", 0, m.start()) + 1
                ltxt = text.split("\n")[line - 1]
                if re.match(r"\s*(#\[|use |pub use |mod |//)", ltxt) or "debug_assert" in ltxt and name == "del_stmt":
                    continue
                new = text[:m.start()] + m.expand(rep) + text[m.end():]
                if new == text:
                    continue
                mid = "%s:%d:%s:%s" % (fn, line, name, hashlib.sha1(("%d" % m.start()).encode()).hexdigest()[:6])
                out.append({"id": mid, "file": fn, "line": line, "op": name, "before": ltxt.strip()[:140],
                            "after": new.split("\n")[line - 1].strip()[:140], "text": new.replace("\n", "\r\n") if crlf else new})
    return out


def worker(wid, q, res, tmp, lock, outfh):
    root = os.path.join(tmp, "w%d" % wid, "repo")
    os.makedirs(root)
    subprocess.run("git -C %s archive HEAD | tar -x -C %s" % (REPO, root), shell=True, check=True)
    shutil.copy(os.path.join(REPO, "Cargo.lock"), root)
    env = dict(os.environ, CARGO_NET_OFFLINE="true", CARGO_TARGET_DIR=os.path.join(tmp, "w%d" % wid, "target"))

    def run(cmd, timeout=600, e=env):
        try:
            # own process group: a mutant that loops forever must die with its cargo parent when the timeout strikes
            pr = subprocess.Popen(cmd, cwd=root, env=e, stdout=subprocess.PIPE, stderr=subprocess.STDOUT, text=True, start_new_session=True)
            try:
                out_, _ = pr.communicate(timeout=timeout)
            except subprocess.TimeoutExpired:
                import signal
                try:
                    os.killpg(pr.pid, signal.SIGKILL)
                except Exception:
                    pass
                pr.wait()
                raise
            r = subprocess.CompletedProcess(cmd, pr.returncode, out_, None)
            return r.returncode, r.stdout
        except subprocess.TimeoutExpired:
            return 124, "timeout"
    run(["cargo", "test", "--offline", "--lib", "--no-run"])
    while True:
        try:
            m = q.get_nowait()
        except queue.Empty:
            return
        path = os.path.join(root, "src", m["file"])
        orig = open(path, "rb").read()
        rec = {k: m[k] for k in ("id", "file", "line", "op", "before", "after")}
        try:
            open(path, "wb").write(m["text"].encode())
            rc, o = run(["cargo", "test", "--offline", "--lib"], timeout=300)
            if rc != 0:
                rec["status"] = "killed" if "test result" in o or "error" in o or rc == 124 else "killed?"
                if "error[" in o or "error:" in o and "test result" not in o:
                    rec["status"] = "compile-error"
            elif "134 passed" not in o:
                rec["status"] = "killed"
            else:
                rc2, o2 = (0, "") if NO_DOC else run(["cargo", "test", "--offline", "--doc"], timeout=600)
                if rc2 != 0:
                    rec["status"] = "killed-doc"
                else:
                    rec["status"] = "survived"
                    env2 = dict(os.environ, VERIF_REPO=root, VERIF_EVIDENCE_DIR=os.path.join(tmp, "w%d" % wid, "evidence"))
                    fired = {}
                    for i in range(1, 21):
                        c = "C%02d" % i
                        r = subprocess.run([os.path.join(VERIF, "check"), c], env=env2, stdout=subprocess.PIPE, stderr=subprocess.STDOUT, text=True)
                        if r.returncode != 0:
                            keys = []
                            for ln in r.stdout.splitlines():
                                if ln.startswith("VIOLATION"):
                                    try:
                                        keys.append(json.load(open(ln.split("replay=")[1].strip()))["key"])
                                    except Exception:
                                        keys.append("?")
                            fired[c] = keys[:3] or ["exit %d" % r.returncode]
                    rec["fired"] = fired
        finally:
            open(path, "wb").write(orig)
        with lock:
            outfh.write(json.dumps(rec) + "\n")
            outfh.flush()
            res.append(rec)


def main():
    a = sys.argv[1:]
    files = a[a.index("--files") + 1].split(",") if "--files" in a else FILES
    jobs = int(a[a.index("--jobs") + 1]) if "--jobs" in a else 8
    out = a[a.index("--out") + 1] if "--out" in a else "/tmp/mutsweep.jsonl"
    limit = int(a[a.index("--limit") + 1]) if "--limit" in a else None
    ops = set(a[a.index("--ops") + 1].split(",")) if "--ops" in a else None
    ms = mutants(files, ops)
    done = set()
    if os.path.exists(out):
        for l in open(out):
            try:
                done.add(json.loads(l)["id"])
            except Exception:
                pass
    ms = [m for m in ms if m["id"] not in done]
    if "--only-ids" in a:
        want = set(l.strip() for l in open(a[a.index("--only-ids") + 1]) if l.strip())
        ms = [m for m in ms if m["id"] in want]
    if limit:
        import random
        random.Random(1).shuffle(ms)
        ms = ms[:limit]
    print("%d mutants to run (%d already done)" % (len(ms), len(done)))
    if "--list" in a:
        return
    q = queue.Queue()
    for m in ms:
        q.put(m)
    tmp = tempfile.mkdtemp(prefix="mutsweep-")
    res, lock = [], threading.Lock()
    try:
        with open(out, "a") as fh:
            ts = [threading.Thread(target=worker, args=(i, q, res, tmp, lock, fh)) for i in range(jobs)]
            for t in ts:
                t.start()
            for t in ts:
                t.join()
    finally:
        shutil.rmtree(tmp, ignore_errors=True)
        fd = os.path.join(VERIF, ".work", "facts")
        if os.path.isdir(fd):
            for fn in os.listdir(fd):
                if fn.startswith("scratch"):
                    try:
                        os.remove(os.path.join(fd, fn))
                    except OSError:
                        pass
    surv = [r for r in res if r["status"] == "survived"]
    print("run %d: survived %d, of which reported by some check %d" % (len(res), len(surv), sum(1 for r in surv if r.get("fired"))))


if __name__ == "__main__":
    main()
