#!/usr/bin/env python3
"""Byte-preserving replacement in a /repo source file (most of them use CRLF): edit_repo.py FILE <<< JSON [[old,new],...]
`old`/`new` are written with \n; they are converted to the file's own line ending."""
import json, sys
path = sys.argv[1]
pairs = json.load(sys.stdin)
raw = open(path, "rb").read()
crlf = b"\r\n" in raw
for old, new in pairs:
    o, n = old.encode(), new.encode()
    if crlf:
        o, n = o.replace(b"\n", b"\r\n"), n.replace(b"\n", b"\r\n")
    c = raw.count(o)
    if c != 1:
        sys.exit("pattern occurs %d times in %s: %r" % (c, path, old[:80]))
    raw = raw.replace(o, n)
open(path, "wb").write(raw)
