"""Call-graph reachability over the extracted bodies (resolved callees; trait calls on `Self` / type parameters fan out to
every implementation and the provided method of that crate trait; a call that mentions one of the crate's cursor types fans out
to that type's iterator impls, because std adaptors (`rev`, `zip`, `for_each` ..) step the cursor from inside std).

Used by props.py for *dependency-driven selection*: a conformance finding (the function computes something wrong for valid
inputs: R-LAYOUT, R-NTH, R-CURSOR, R-TAKE, R-FLATSEQ, R-NONZERO, R-UNITS) in a function that the operations named by a property
reach in the CURRENT tree is reported under that property as well - `flip_rows` rewritten on top of `swap_rows` makes the address
forms of every `swap_rows` implementation part of C15, and only then."""
import re

CURSOR_TYPES = ("Rows", "RowsMut", "Col", "ColMut", "FlattenExact", "DrainCol")
_cache = {}


def _root_ident(f, b):
    """closures and nested fns are attributed to the function they are written in"""
    seen = 0
    while b is not None and b.kind == "Closure" and seen < 8:
        b = f.by_id.get(b.d.get("root"))
        seen += 1
    return b


def graph(f):
    key = f.path
    if key in _cache:
        return _cache[key]
    crate = f.raw.get("crate") or "toodee"
    by_name = {}
    for b in f.fn_bodies:
        if b.kind != "Closure":
            by_name.setdefault(b.name, []).append(b)
    cursor_methods = {t: [b for b in f.fn_bodies if b.kind != "Closure" and b.self_head == t and b.impl_trait] for t in CURSOR_TYPES}
    edges = {}
    for b in f.fn_bodies:
        src = _root_ident(f, b)
        if src is None:
            continue
        out = edges.setdefault(src.id, set())
        if b.kind == "Closure" and b.id != src.id:
            pass
        for bi, t, fn in b.calls(include_cleanup=True):
            if not fn:
                continue
            cb = f.crate_fn_for_call(fn)
            if cb is not None:
                r = _root_ident(f, cb)
                if r is not None:
                    out.add(r.id)
            if fn.get("trait") and fn.get("krate") == crate and not fn.get("resolved"):
                tr = fn["trait"].split("::")[-1]
                for c in by_name.get(fn["name"], []):
                    th = c.trait_head or ""
                    if th.split("<")[0] == tr:
                        out.add(c.id)
            text = " ".join([fn.get("self_ty") or "", fn.get("path") or ""] + list(fn.get("args") or []))
            for tname in CURSOR_TYPES:
                if re.search(r"\b(iter|flattenexact|toodee)::%s<" % tname, text):
                    for c in cursor_methods[tname]:
                        out.add(c.id)
        # function items passed as values (map(Self::take), for_each(<[T]>::reverse))
        for bi, si, st in b.stmts():
            pass
    _cache[key] = edges
    return edges


def reach(f, anchor_re):
    """idents of all bodies reachable from the functions whose ident matches `anchor_re` (anchors included)"""
    key = (f.path, anchor_re)
    if key in _cache:
        return _cache[key]
    g = graph(f)
    are = re.compile(anchor_re)
    work = [b.id for b in f.fn_bodies if b.kind != "Closure" and are.search(b.ident)]
    seen = set()
    while work:
        x = work.pop()
        if x in seen:
            continue
        seen.add(x)
        work.extend(g.get(x, ()))
    idents = set()
    for bid in seen:
        b = f.by_id.get(bid)
        if b is not None:
            idents.add(b.ident)
    _cache[key] = idents
    return idents
