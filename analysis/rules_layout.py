"""R-LAYOUT (DESIGN 3.4): path-wise abstract evaluation of loop-free accessor bodies (one level of crate-local
inlining) and matching of every unchecked access against the layout lemmas, with the lemma's hypotheses
among the path facts."""
import re, copy, os
from .core import Result, AnchorMissing
from .facts import norm_ty
from .vgraph import (Poly, ZERO, ONE, Slice, Elem, RefTo, Tup, Adt, Cond, Gamma, Unknown, EMPTY, Inconclusive, strip_ref, decide, saturate)


class Obj:
    """an array-like object: named fields"""
    def __init__(s, kind, fields): s.kind, s.fields = kind, fields
    def __repr__(s): return "<%s>" % s.kind
LAYOUT = {"toodee::TooDee": ["data", "num_rows", "num_cols"],
          "view::TooDeeView": ["data", "num_cols", "num_rows", "stride"],
          "view::TooDeeViewMut": ["data", "num_cols", "num_rows", "stride"],
          "iter::Col": ["v", "skip"], "iter::ColMut": ["v", "skip"]}
def kind_of(ty):
    m = re.search(r"((?:toodee|view|iter)::[A-Za-z]+)<", ty)
    return m.group(1) if m else None
def mkobj(kind, tag=""):
    L, R, C, S = (Poly.atom(x + tag) for x in "LRCS")
    if kind == "toodee::TooDee": return Obj(kind, [Slice(ZERO, L), R, C]), dict(L=L, R=R, C=C, S=C)
    if kind in ("view::TooDeeView", "view::TooDeeViewMut"): return Obj(kind, [Slice(ZERO, L), C, R, S]), dict(L=L, R=R, C=C, S=S)
    if kind in ("iter::Col", "iter::ColMut"): return Obj(kind, [Slice(ZERO, L), Poly.atom("K")]), dict(L=L, K=Poly.atom("K"))
    raise Inconclusive("object kind " + str(kind))

class SelfObj:
    """a generic receiver (Self: TooDeeOpsMut<T>) of a provided trait method"""
    def __repr__(s): return "<self>"
class RowCur:
    """row cursor obtained from the receiver, positioned before row `pos` (L-NTH)"""
    def __init__(s, pos, back=None): s.pos = pos; s.back = back if back is not None else ZERO     # `back` rows consumed from the end
    def __repr__(s): return "rowcur@%r" % (s.pos,) + ("" if s.back == ZERO else "-%r" % (s.back,))
class RowRef:
    def __init__(s, row): s.row = row
    def __repr__(s): return "row[%r]" % (s.row,)
class CellRef:
    def __init__(s, row, col): s.row, s.col = row, col
    def __repr__(s): return "cell(%r,%r)" % (s.row, s.col)


class ChunkCur:
    """chunks(n) / chunks_mut(n) over a slice: the next chunk is number `pos`"""
    def __init__(s, sl, n, pos): s.sl, s.n, s.pos = sl, n, pos
    def __repr__(s): return "chunks(%r by %r @%r)" % (s.sl, s.n, s.pos)


class St:
    def __init__(s): s.env = {}; s.conds = []; s.acc = []; s.notes = []
    def fork(s):
        n = St(); n.env = dict(s.env); n.conds = list(s.conds); n.acc = list(s.acc); n.notes = list(s.notes)
        # deep-copy mutable containers
        n.env = {k: copy.deepcopy(v) if isinstance(v, (Tup, Adt)) else v for k, v in s.env.items()}
        return n

class Ev:
    def __init__(s, allb, body, args, depth=0):
        s.all, s.b, s.args, s.depth = allb, body, args, depth
        s.out = []      # (state, outcome) outcome = ('ret', value) | ('panic',)
    def ptype(s, p):
        ty = s.b["locals"][p["local"]]
        for e in p["proj"]:
            if e["k"] == "deref": ty = strip_ref(ty) or ty
            elif e["k"] == "field": ty = e["ty"]
        return ty
    def read(s, P, p):
        v = P.env.get(p["local"])
        for e in p["proj"]:
            if e["k"] == "deref":
                if isinstance(v, RefTo): v = P.env.get(v.root)
                    # refs to locals only
                continue
            if e["k"] == "field":
                if isinstance(v, Obj): v = v.fields[e["i"]]
                elif isinstance(v, (Tup, Adt)): v = v.f[e["i"]]
                elif isinstance(v, Unknown) or v is None: v = Unknown("f")
                else: raise Inconclusive("field %d of %r" % (e["i"], v))
            elif e["k"] == "downcast": continue
            else: raise Inconclusive("proj " + e["k"])
        return v
    def write(s, P, p, val):
        if not p["proj"]: P.env[p["local"]] = val; return
        # write through: only tuple fields of locals / fields of objects reached via refs
        base = P.env.get(p["local"]); cur = base; chain = []
        for e in p["proj"][:-1]:
            if e["k"] == "deref":
                if isinstance(cur, RefTo): cur = P.env.get(cur.root)
                continue
            if e["k"] == "field": cur = cur.fields[e["i"]] if isinstance(cur, Obj) else cur.f[e["i"]]
        last = p["proj"][-1]
        if last["k"] == "field":
            if isinstance(cur, RefTo): cur = P.env.get(cur.root)
            if cur is None:
                cur = Tup([Unknown("u") for _ in range(6)]); P.env[p["local"]] = cur
            if isinstance(cur, Obj): cur.fields[last["i"]] = val
            else: cur.f[last["i"]] = val
        elif last["k"] == "deref":
            if isinstance(cur, RefTo): P.env[cur.root] = val
        else: raise Inconclusive("write proj")
    def operand(s, P, o):
        if o["k"] in ("copy", "move"): return s.read(P, o["p"])
        v, ty = o["val"], o["ty"]
        if "promoted" in v and ("; 0]" in ty or "; 0_usize]" in ty): return EMPTY
        m = re.match(r"^(?:const )?(\d+)_usize$", v)
        if m: return Poly.const(int(m.group(1)))
        if v in ("const true", "true"): return Cond("==", ZERO)
        if v in ("const false", "false"): return Cond("!=", ZERO)
        return Unknown("const")
    def rvalue(s, P, r):
        k = r["k"]
        if k == "use": return s.operand(P, r["o"])
        if k in ("ref", "rawptr"):
            p = r["p"]
            if len(p["proj"]) == 1 and p["proj"][0]["k"] == "deref" and isinstance(P.env.get(p["local"]), RefTo):
                return P.env.get(p["local"])          # reborrow of a reference to a local
            v = s.read(P, p)
            if not p["proj"] and not isinstance(v, (Slice, Elem, RowRef, CellRef, SelfObj)): return RefTo(p["local"], [])   # &local / &mut local
            return v        # reborrows and field borrows: the value itself (objects are shared by identity)
        if k == "binop":
            a, b = s.operand(P, r["l"]), s.operand(P, r["r"]); op = r["op"]
            if isinstance(a, Poly) and isinstance(b, Poly):
                base = op.replace("WithOverflow", "").replace("Unchecked", "")
                if base in ("Add", "Sub", "Mul"):
                    # R-ARITH: arithmetic on an unguarded caller value
                    res = {"Add": a + b, "Sub": a - b, "Mul": a * b}[base]
                    if base in ("Add", "Mul"):
                        P.notes.append(("arith", base, a, b, r.get("span")))
                    return Tup([res, Cond("atom", atom="lang_ovf")]) if op.endswith("WithOverflow") else res
                if op in ("Eq", "Ne", "Lt", "Le", "Gt", "Ge"):
                    return Cond({"Eq": "==", "Ne": "!=", "Lt": "<", "Le": "<=", "Gt": ">", "Ge": ">="}[op], a - b)
            if op in ("Eq", "Ne") : return Cond("atom", atom="cmp?")
            if op in ("Lt", "Le", "Gt", "Ge") and (isinstance(a, Unknown) or isinstance(b, Unknown)):
                return Cond("atom", atom="cmp?")       # compared with a value that is not modelled (`wide <= usize::MAX as u128`): either way
            if op in ("BitAnd", "BitOr") and isinstance(a, Cond) and isinstance(b, Cond): return ("boolop", op, a, b)
            raise Inconclusive("binop %s %r %r" % (op, a, b))
        if k == "unop":
            a = s.operand(P, r["o"])
            if r["op"] == "Not" and isinstance(a, Cond): return a.neg()
            if r["op"] == "PtrMetadata" and isinstance(a, Slice): return a.len()
            raise Inconclusive("unop")
        if k == "cast": return s.operand(P, r["o"])
        if k == "agg":
            f = [s.operand(P, x) for x in r["fields"]]
            if r["agg"] == "tuple": return Tup(f)
            if r["agg"] == "adt":
                if r["adt"] in LAYOUT: return Obj(r["adt"], f)
                return Adt(r["adt"], r["variant"], f)
            raise Inconclusive("agg")
        if k == "discr": return ("discr", s.read(P, r["p"]))
        raise Inconclusive("rvalue " + k)
    def sub(s, sl, rng):
        if isinstance(rng, Poly): return Elem(sl.lo + rng)
        if isinstance(rng, Adt):
            if rng.variant == "RangeFrom": return Slice(sl.lo + rng.f[0], sl.hi)
            if rng.variant == "RangeTo": return Slice(sl.lo, sl.lo + rng.f[0])
            if rng.variant == "Range": return Slice(sl.lo + rng.f[0], sl.lo + rng.f[1])
        raise Inconclusive("range %r" % (rng,))
    PANICS = ("core::panicking::", "core::option::unwrap_failed", "core::option::expect_failed", "core::result::unwrap_failed")
    def call(s, P, t):
        """returns list of (state, value) continuations, or [] if diverges"""
        fn = t["func"].get("fn")
        if not fn: raise Inconclusive("indirect call")
        path, name = fn["path"], fn["name"]
        if path.startswith(s.PANICS) or t["target"] is None:
            s.out.append((P, ("panic",))); return []
        args = [s.operand(P, a) for a in t["args"]]
        a0 = args[0] if args else None
        ref0 = a0 if isinstance(a0, RefTo) else None
        if isinstance(a0, RefTo) and not isinstance(P.env.get(a0.root), (type(None),)) and name not in ("swap", "take"):
            a0 = P.env.get(a0.root)
        # ---- L-NTH model: a row cursor obtained from the object itself (generic receiver)
        if isinstance(a0, SelfObj):
            if name in ("rows_mut", "rows"): return [(P, RowCur(ZERO))]
            if name == "num_rows": return [(P, Poly.atom("R"))]
            if name == "num_cols": return [(P, Poly.atom("C"))]
        if isinstance(a0, RowCur) and name in ("nth", "next") and (fn.get("trait") or "").endswith("Iterator"):
            k = args[1] if name == "nth" else ZERO
            if not isinstance(k, Poly): raise Inconclusive("nth(%r)" % (k,))
            row = a0.pos + k
            newc = RowCur(row + ONE, a0.back)
            if ref0 is not None: P.env[ref0.root] = newc
            P.acc.append(("nth", row, t["span"]["lo"]))
            return [(P, Adt("Option", "Some", [RowRef(row)]))]          # None => unwrap panics: that is the bounds check
        if isinstance(a0, RowCur) and name in ("nth_back", "next_back") and (fn.get("trait") or "").endswith("Iterator"):
            # from the other end: the k-th row from the back of what is left is row R - 1 - back - k
            k = args[1] if name == "nth_back" else ZERO
            if not isinstance(k, Poly): raise Inconclusive("nth_back(%r)" % (k,))
            row = Poly.atom("R") - ONE - a0.back - k
            newc = RowCur(a0.pos, a0.back + k + ONE)
            if ref0 is not None: P.env[ref0.root] = newc
            P.acc.append(("nth", row, t["span"]["lo"]))
            return [(P, Adt("Option", "Some", [RowRef(row)]))]
        if isinstance(a0, ChunkCur) and name in ("nth", "next") and (fn.get("trait") or "").endswith("Iterator"):
            k = args[1] if name == "nth" else ZERO
            if not isinstance(k, Poly): raise Inconclusive("chunks nth(%r)" % (k,))
            i = a0.pos + k
            newc = ChunkCur(a0.sl, a0.n, i + ONE)
            lo = a0.sl.lo + i * a0.n
            outs = []
            # full chunk, short last chunk, or nothing left
            for conds_, val in (([Cond("<=", (i + ONE) * a0.n - a0.sl.len())], Adt("Option", "Some", [Slice(lo, lo + a0.n)])),
                                ([Cond(">", (i + ONE) * a0.n - a0.sl.len()), Cond("<", i * a0.n - a0.sl.len())], Adt("Option", "Some", [Slice(lo, a0.sl.hi)])),
                                ([Cond(">=", i * a0.n - a0.sl.len())], Adt("Option", "None", []))):
                if any(decide(P.conds, c) is False for c in conds_): continue
                Q = P.fork()
                Q.conds += [c for c in conds_ if decide(P.conds, c) is None]
                if ref0 is not None: Q.env[ref0.root] = newc
                outs.append((Q, val))
            return outs
        if isinstance(a0, Unknown) and a0.tag == "iter":
            # an element iterator the engine does not step through: its footprint was recorded when it was created
            if name in ("next", "next_back", "nth", "nth_back", "last"): return [(P, Adt("Option", "None", []))]
            return [(P, Unknown("iter") if name not in ("for_each", "count") else Tup([]))]
        if isinstance(a0, RowRef):
            if name == "swap_with_slice" and isinstance(args[1], RowRef):
                P.acc.append(("swaprows", a0.row, args[1].row, t["span"]["lo"])); return [(P, Tup([]))]
            if name in ("get_unchecked_mut", "get_unchecked") and isinstance(args[1], Poly):
                P.acc.append(("rowitem", a0.row, args[1], t["span"]["lo"])); return [(P, CellRef(a0.row, args[1]))]
        if path in ("core::ptr::swap",) and isinstance(args[0], CellRef) and isinstance(args[1], CellRef):
            P.acc.append(("swapcells", (args[0].row, args[0].col), (args[1].row, args[1].col), t["span"]["lo"])); return [(P, Tup([]))]
        if name in ("deref", "deref_mut", "as_slice", "as_mut_slice", "as_ref", "as_mut", "borrow") and isinstance(a0, Slice): return [(P, a0)]
        if path.startswith("alloc::vec::Vec::<T, A>::len") and isinstance(a0, Slice): return [(P, a0.len())]
        if path.startswith("alloc::vec::Vec::<T, A>::capacity") and isinstance(a0, Slice):
            # the capacity is some number not below the length - and says nothing about which cells are initialised
            P.conds.append(Cond(">=", Poly.atom("capacity") - a0.len()))
            return [(P, Poly.atom("capacity"))]
        if name == "new" and "RangeInclusive" in path and len(args) == 2 and all(isinstance(x, Poly) for x in args):
            return [(P, Adt("core::ops::Range", "Range", [args[0], args[1] + ONE]))]        # a..=b is a..b+1
        if path.startswith("core::slice::<impl [T]>::") or (isinstance(a0, Slice) and name in ("get_unchecked", "get_unchecked_mut", "index", "index_mut", "len")):
            sl = a0
            if not isinstance(sl, Slice): raise Inconclusive("%s on %r" % (name, sl))
            if name == "is_empty": return [(P, Cond("==", sl.len()))]
            if name == "len": return [(P, sl.len())]
            if name in ("split_at", "split_at_mut"):
                P.acc.append(("checked", "split_at", sl, args[1], t["span"]["lo"]))
                return [(P, Tup([Slice(sl.lo, sl.lo + args[1]), Slice(sl.lo + args[1], sl.hi)]))]
            if name in ("get_unchecked", "get_unchecked_mut"):
                r = s.sub(sl, args[1]); P.acc.append(("unchecked", name, sl, r, t["span"]["lo"])); return [(P, r)]
            if name in ("index", "index_mut"):
                r = s.sub(sl, args[1]); P.acc.append(("checked", name, sl, r, t["span"]["lo"])); return [(P, r)]
            if name in ("as_mut_ptr", "as_ptr"): return [(P, Adt("ptr", "ptr", [sl]))]
            if name in ("chunks", "chunks_mut") and len(args) == 2 and isinstance(args[1], Poly): return [(P, ChunkCur(sl, args[1], ZERO))]
            if name == "iter_mut":
                # hands out a mutable reference to every element of the slice: the whole slice is the write footprint
                P.acc.append(("mutate", name, sl, sl, t["span"]["lo"])); return [(P, Unknown("iter"))]
            if name == "iter": return [(P, Unknown("iter"))]
            # safe mutation of whole (sub)slices: the write footprint, judged for confinement on strided receivers
            if name == "swap_with_slice" and len(args) == 2 and isinstance(args[1], Slice):
                P.acc.append(("mutate", name, sl, sl, t["span"]["lo"])); P.acc.append(("mutate", name, args[1], args[1], t["span"]["lo"]))
                P.acc.append(("samelen", name, sl, args[1], t["span"]["lo"]))
                return [(P, Tup([]))]
            if name in ("fill", "fill_with", "reverse", "rotate_left", "rotate_right", "copy_from_slice", "clone_from_slice", "sort", "sort_unstable", "sort_by", "sort_unstable_by"):
                P.acc.append(("mutate", name, sl, sl, t["span"]["lo"])); return [(P, Tup([]))]
            if name == "swap" and len(args) == 3 and isinstance(args[1], Poly) and isinstance(args[2], Poly):
                P.acc.append(("checked", name, sl, Elem(sl.lo + args[1]), t["span"]["lo"]))
                P.acc.append(("mutate", name, sl, Slice(sl.lo + args[1], sl.lo + args[1] + ONE), t["span"]["lo"]))
                P.acc.append(("mutate", name, sl, Slice(sl.lo + args[2], sl.lo + args[2] + ONE), t["span"]["lo"]))
                return [(P, Tup([]))]
        if name in ("swap_nonoverlapping", "copy_nonoverlapping", "copy") and path.startswith("core::ptr") and len(args) == 3 and isinstance(args[2], Poly):
            for a in args[:2]:
                if isinstance(a, Adt) and a.name == "ptr" and isinstance(a.f[0], Slice):
                    P.acc.append(("mutate", name, a.f[0], Slice(a.f[0].lo, a.f[0].lo + args[2]), t["span"]["lo"]))
            return [(P, Tup([]))]
        if path in ("core::ops::Index::index", "core::ops::IndexMut::index_mut") and isinstance(a0, Slice):
            r = s.sub(a0, args[1]); P.acc.append(("checked", name, a0, r, t["span"]["lo"])); return [(P, r)]
        if name in ("min", "max", "abs_diff") and len(args) == 2 and isinstance(args[0], Poly) and isinstance(args[1], Poly) \
                and (path.startswith("core::cmp::Ord::") or path.startswith("core::num::<impl usize>::") or path.startswith("core::cmp::")):
            a, b2 = args
            outs = []
            for cond, small, big in ((Cond("<=", a - b2), a, b2), (Cond(">", a - b2), b2, a)):
                d = decide(P.conds, cond)
                if d is False: continue
                Q = P.fork()
                if d is None: Q.conds.append(cond)
                outs.append((Q, {"min": small, "max": big, "abs_diff": big - small}[name]))
            return outs
        if path == "core::mem::swap":
            x, y = args
            if isinstance(x, RefTo) and isinstance(y, RefTo):
                P.env[x.root], P.env[y.root] = P.env[y.root], P.env[x.root]; return [(P, Tup([]))]
            if str((fn.get("args") or [""])[0]).lstrip().startswith("&"):
                # `mem::swap::<&mut [T]>(&mut first, &mut second)` exchanges two REFERENCES held in locals: no cell moves
                return [(P, Tup([]))]
        if path == "core::num::<impl usize>::checked_sub" and isinstance(args[0], Poly) and isinstance(args[1], Poly):
            return [(P, Gamma(Cond(">=", args[0] - args[1]), Adt("Option", "Some", [args[0] - args[1]]), Adt("Option", "None", [])))]
        if path in ("core::num::<impl usize>::checked_mul", "core::num::<impl usize>::checked_add"):
            res = args[0] * args[1] if name == "checked_mul" else args[0] + args[1]
            return [(P, Gamma(Cond("natom", atom="ovf(%r)" % (res,)), Adt("Option", "Some", [res]), Adt("Option", "None", [])))]
        if path == "core::num::<impl usize>::overflowing_mul":
            res = args[0] * args[1]; return [(P, Tup([res, Cond("atom", atom="ovf(%r)" % (res,))]))]
        if path in ("core::option::Option::<T>::unwrap", "core::option::Option::<T>::expect"):
            v = a0
            if isinstance(v, Gamma):
                outs = []
                d = decide(P.conds, v.cond)
                if d is not False:
                    Q = P.fork();
                    if d is None: Q.conds.append(v.cond)
                    outs.append((Q, v.a.f[0]))
                if d is not True:
                    Q = P.fork(); Q.conds.append(v.cond.neg()); s.out.append((Q, ("panic",)))
                return outs
            if isinstance(v, Adt) and v.variant == "Some": return [(P, v.f[0])]
            if isinstance(v, Adt) and v.variant == "None":
                s.out.append((P, ("panic",))); return []
            raise Inconclusive("unwrap of %r" % (v,))
        if name in ("ptr_swap", "swap", "swap_nonoverlapping") and path.startswith("core::ptr"): return [(P, Tup([]))]
        if path.startswith("core::ptr::") or path.startswith("core::fmt") : return [(P, Unknown("ptr"))]
        # getters on objects
        if isinstance(a0, Obj) and name in LAYOUT.get(a0.kind, []) + ["data_mut"] and len(args) == 1:
            nm = "data" if name == "data_mut" else name
            return [(P, a0.fields[LAYOUT[a0.kind].index(nm)])]
        dest_ty = s.b["locals"][t["dest"]["local"]] if not t["dest"]["proj"] else ""
        if dest_ty == "bool" and fn["krate"] != "toodee":
            s._opaque = getattr(s, "_opaque", 0) + 1
            return [(P, Cond("atom", atom="call:%s#%d" % (name, t["span"]["lo"])))]
        # crate-local: inline
        if fn["krate"] == "toodee":
            cand = s.all.get(path)
            if cand is None and isinstance(a0, Obj):
                # trait method on a concrete object: find the impl body by (impl_self kind, name), else the provided method
                for b in s.all.values():
                    if b.get("name") == name and kind_of(b.get("impl_self", "") or "") == a0.kind: cand = b; break
                if cand is None:
                    for b in s.all.values():
                        if b.get("name") == name and b.get("trait_provided"): cand = b; break
            if cand is None: raise Inconclusive("no body for " + path)
            if s.depth > 3: raise Inconclusive("inline depth")
            sub = Ev(s.all, cand, args, s.depth + 1)
            res = sub.run(P)
            outs = []
            for (Q, oc) in res:
                if oc[0] == "panic": s.out.append((Q, oc))
                else: outs.append((Q, oc[1]))
            return outs
        raise Inconclusive("call " + path)
    def run(s, P0=None):
        b = s.b
        P = St() if P0 is None else P0.fork()
        saved = P.env
        P.env = {}
        for i, a in enumerate(s.args): P.env[i + 1] = a
        s._saved = saved
        s.step(P, 0, 0)
        # restore caller env on the way out
        res = []
        for (Q, oc) in s.out:
            Q2 = Q; Q2.env = dict(saved) if saved is not None else {}
            res.append((Q2, oc))
        return res
    def step(s, P, bb, n):
        if n > 300: raise Inconclusive("loop")
        bl = s.b["blocks"][bb]
        for si_, st in enumerate(bl["stmts"]):
            if st["k"] != "assign": continue
            rv = st["rv"]; rv["span"] = st["span"]["lo"]
            if getattr(s, "sub_strict", False) and rv["k"] == "binop" and rv["op"].startswith("Sub") and not getattr(P, "_substep", None) == (bb, si_):
                # L-NTH mode: `a - b` on usize panics (or wraps to a row number no array has) when b > a: such a path ends in the
                # unwrap's panic, it never addresses a row
                a_, b_ = s.operand(P, rv["l"]), s.operand(P, rv["r"])
                if isinstance(a_, Poly) and isinstance(b_, Poly):
                    c_ = Cond(">=", a_ - b_)
                    dec = decide(P.conds, c_)
                    if dec is None:
                        dec = decide(saturate(P.conds), c_)
                    if dec is None:
                        # substitute the path's equalities `x - y == 0` between two atoms and look at the sign of what is left
                        q_ = a_ - b_
                        for ce in P.conds:
                            if ce.op == "==" and ce.poly is not None and len(ce.poly.t) == 2 and () not in ce.poly.t:
                                (m1, v1), (m2, v2) = sorted(ce.poly.t.items())
                                if len(m1) == 1 and len(m2) == 1 and v1 == -v2 and abs(v1) == 1:
                                    q_ = subst_atom(q_, m1[0], Poly.atom(m2[0]))
                        if q_.is_const():
                            dec = q_.cval() >= 0
                    if dec is False:
                        s.out.append((P, ("panic", "sub")))
                        return
                    if dec is None:
                        Qn = P.fork(); Qn.conds.append(c_.neg()); s.out.append((Qn, ("panic", "sub")))
                        P.conds.append(c_)
            s.write(P, st["p"], s.rvalue(P, rv))
        t = bl["term"]; k = t["k"]
        if k == "goto": return s.step(P, t["target"], n + 1)
        if k == "return": s.out.append((P, ("ret", P.env.get(0)))); return
        if k in ("assert", "drop"): return s.step(P, t["target"], n + 1)
        if k == "call":
            for (Q, v) in s.call(P, t):
                s.write(Q, t["dest"], v); s.step(Q, t["target"], n + 1)
            return
        if k == "switch":
            d = s.operand(P, t["discr"])
            tmap = dict((int(a), b) for a, b in t["targets"])
            if isinstance(d, tuple) and d[0] == "discr":
                v = d[1]
                if isinstance(v, Adt): return s.step(P, tmap.get({"None": 0, "Some": 1, "Less": -1 % 256, "Equal": 0, "Greater": 1}.get(v.variant, 0), t["otherwise"]), n + 1)
                if isinstance(v, Gamma):
                    # an Option computed under a condition (checked_sub / checked_mul): decide it here, on both feasible sides
                    for c, val in ((v.cond, v.a), (v.cond.neg(), v.b)):
                        dec = decide(P.conds, c)
                        if dec is False: continue
                        Q = P.fork()
                        if dec is None: Q.conds.append(c)
                        def repl(x):
                            if x is v or (isinstance(x, Gamma) and repr(x) == repr(v)): return val
                            if isinstance(x, Tup): return Tup([repl(y) for y in x.f])
                            return x
                        for loc in list(Q.env):
                            Q.env[loc] = repl(Q.env[loc])
                        s.step(Q, tmap.get({"None": 0, "Some": 1}.get(val.variant, 0), t["otherwise"]), n + 1)
                    return
                raise Inconclusive("discr of %r" % (v,))
            if isinstance(d, Cond):
                for truth, c in ((True, d), (False, d.neg())):
                    dec = decide(P.conds, c)
                    if dec is False: continue
                    Q = P.fork()
                    if dec is None: Q.conds.append(c)
                    tgt = (t["otherwise"] if 0 in tmap else tmap.get(1)) if truth else tmap.get(0, t["otherwise"])
                    s.step(Q, tgt, n + 1)
                return
            if isinstance(d, Poly):
                # integer match: one arm per listed value, everything else on `otherwise`
                rest = P
                for vconst, tgt in sorted(tmap.items()):
                    eq = Cond("==", d - Poly.const(vconst))
                    dec = decide(rest.conds, eq)
                    if dec is not False:
                        Q = rest.fork()
                        if dec is None: Q.conds.append(eq)
                        s.step(Q, tgt, n + 1)
                    if dec is True:
                        rest = None
                        break
                    if dec is None:
                        rest = rest.fork(); rest.conds.append(eq.neg())
                if rest is not None: s.step(rest, t["otherwise"], n + 1)
                return
            raise Inconclusive("switch on %r" % (d,))
        if k in ("unreachable", "resume"): return
        raise Inconclusive("term " + k)

# ---------------- lemma matching ----------------
def split_stride(p, S):
    """p = S*q + rest with rest free of S (S a single atom); returns (q, rest)"""
    sa = list(S.t)[0][0]
    q, rest = {}, {}
    for mono, c in p.t.items():
        if sa in mono:
            m = list(mono); m.remove(sa); q[tuple(m)] = q.get(tuple(m), 0) + c
        else: rest[mono] = c
    return Poly(q), Poly(rest)
def lt(conds, a, b): return decide(conds, Cond("<", a - b)) is True
def le(conds, a, b): return decide(conds, Cond("<=", a - b)) is True

def judge(conds, sym, root, res):
    """root: backing slice the access is relative to; res: Elem or Slice (absolute offsets). Returns lemma name or None"""
    L, R, C, S = sym["L"], sym["R"], sym["C"], sym["S"]
    if isinstance(res, Elem):
        q, rest = split_stride(res.off, S)
        if lt(conds, q, R) and lt(conds, rest, C): return "L-POS(r=%r,c=%r)" % (q, rest)
        return None
    lo, hi = res.lo, res.hi
    if lo == ZERO and hi == ZERO: return "L-EMPTY"
    if lo == ZERO and le(conds, hi, L): return "L-PREFIX"
    q, rest = split_stride(lo, S)
    if rest == ZERO and (hi - lo) == C and lt(conds, q, R): return "L-ROW(r=%r)" % (q,)
    if q == ZERO and lt(conds, lo, C):
        if hi == lo + (R - ONE) * S + ONE: return "L-COLV(c=%r)" % (lo,)
        if S == C and hi == L - C + lo + ONE: return "L-COLO(c=%r)" % (lo,)
    if rest == ZERO and hi == L and lt(conds, q, R): return "L-ROWTAIL(r=%r)" % (q,)     # data[r*S..]
    # window: lo = S*sr + sc ; hi - lo = (er - sr - 1)*S + (ec - sc)
    ext = hi - lo
    eq, erest = split_stride(ext, S)
    er, ec = eq + q + ONE, erest + rest
    if lt(conds, q, er) and le(conds, er, R) and lt(conds, rest, ec) and le(conds, ec, C):
        return "L-WINDOW(sr=%r,sc=%r,er=%r,ec=%r)" % (q, rest, er, ec)
    return None

def analyse(allb, b):
    kind = kind_of(b.get("impl_self") or "")
    first_ty = b["locals"][1] if b["arg_count"] >= 1 else ""
    args = []; sym = None; names = {}
    for d in b["debug"]:
        v = d["v"]
        if "local" in v and not v["proj"] and 1 <= v["local"] <= b["arg_count"]: names[v["local"]] = d["name"]
    for i in range(1, b["arg_count"] + 1):
        ty = b["locals"][i]; nm = names.get(i, "a%d" % i)
        k = kind_of(ty)
        if k in LAYOUT and sym is None:
            o, sym = mkobj(k); args.append(o)
        elif ty == "usize": args.append(Poly.atom(nm))
        elif ty == "(usize, usize)": args.append(Tup([Poly.atom(nm + ".0"), Poly.atom(nm + ".1")]))
        elif "[T" in ty and ty.startswith("&"): args.append(Slice(ZERO, Poly.atom("L")));
        else: args.append(Unknown(nm))
    if sym is None:
        if any(isinstance(a, Slice) for a in args): sym = dict(L=Poly.atom("L"), R=Poly.atom("?R"), C=Poly.atom("?C"), S=Poly.atom("?S"))
        else: raise Inconclusive("no array-like argument")
    ev = Ev(allb, b, args); res = ev.run()
    return sym, res

TARGETS = ["index", "index_mut", "col", "col_mut", "get_unchecked", "get_unchecked_mut", "get_unchecked_row", "get_unchecked_row_mut",
           "swap", "swap_rows", "view", "view_mut", "from_toodee", "new", "rows", "rows_mut"]
ARRAY_KINDS = ("TooDee", "TooDeeView", "TooDeeViewMut")


def setup_layout(f):
    LAYOUT.clear()
    for a in f.adts:
        nm = a["id"].split("::")[-1]
        if nm in ARRAY_KINDS + ("Col", "ColMut", "Rows", "RowsMut"):
            LAYOUT[a["id"]] = [x["name"] for x in a["fields"]]
    need = {"TooDee": {"data", "num_rows", "num_cols"}, "TooDeeView": {"data", "num_cols", "num_rows", "stride"}, "TooDeeViewMut": {"data", "num_cols", "num_rows", "stride"}}
    for k, v in LAYOUT.items():
        nm = k.split("::")[-1]
        if nm in need and set(v) != need[nm]:
            raise AnchorMissing("fields of %s are %s" % (nm, v))
    if len([k for k in LAYOUT if k.split("::")[-1] in ARRAY_KINDS]) != 3:
        raise AnchorMissing("array types")


def mkobj(kind, tag=""):          # noqa: F811  (replaces the prototype's fixed-order version)
    L, R, C, S = (Poly.atom(x + tag) for x in "LRCS")
    nm = kind.split("::")[-1]
    names = LAYOUT[kind]
    if nm == "TooDee":
        vals = {"data": Slice(ZERO, L), "num_rows": R, "num_cols": C}
        return Obj(kind, [vals[n] for n in names]), dict(L=L, R=R, C=C, S=C)
    if nm in ("TooDeeView", "TooDeeViewMut"):
        vals = {"data": Slice(ZERO, L), "num_rows": R, "num_cols": C, "stride": S}
        return Obj(kind, [vals[n] for n in names]), dict(L=L, R=R, C=C, S=S)
    if nm in ("Col", "ColMut"):
        vals = {"v": Slice(ZERO, L), "skip": Poly.atom("K")}
        return Obj(kind, [vals[n] for n in names]), dict(L=L, K=Poly.atom("K"))
    raise Inconclusive("object kind " + str(kind))


def kind_of(ty):                  # noqa: F811
    t = norm_ty(ty or "")
    for k in LAYOUT:
        if re.search(r"(^|[ (&])%s<" % re.escape(k), t):
            return k
    return None


def invariant_facts(sym):
    """facts every receiver satisfies: R == 0 <=> C == 0 is used to discard infeasible paths; S >= C"""
    return []


def infeasible(conds, sym):
    """path facts contradict the receiver's invariant (R == 0 together with c < C which needs C > 0, ...)"""
    R_, C_ = sym.get("R"), sym.get("C")
    if R_ is None or C_ is None:
        return False
    def zero(dim):
        # dim == 0, dim <= 0 or dim < 1 (dimensions are unsigned)
        return decide(conds, Cond("==", dim)) is True or decide(conds, Cond("<=", dim)) is True or decide(conds, Cond("<", dim - ONE)) is True
    rz = zero(R_)
    cz = zero(C_)
    rnz = decide(conds, Cond(">", R_)) is True or decide(conds, Cond("!=", R_)) is True
    cnz = decide(conds, Cond(">", C_)) is True or decide(conds, Cond("!=", C_)) is True
    # x < C  implies C > 0
    for k in conds:
        if k.poly is None:
            continue
        for dim, name in ((C_, "c"), (R_, "r")):
            # k: p - dim < 0 with p having only non-negative atoms -> dim > 0
            if k.op == "<":
                rest = k.poly + dim
                if all(v > 0 for v in rest.t.values()) or not rest.t:
                    if name == "c":
                        cnz = True
                    else:
                        rnz = True
    return (rz and cnz) or (cz and rnz)


def add_invariant(conds, sym):
    """derive the other dimension's non-zeroness from the zero rule"""
    out = list(conds)
    R_, C_ = sym.get("R"), sym.get("C")
    if R_ is None or C_ is None:
        return out

    def nz(dim):
        if decide(out, Cond(">", dim)) is True or decide(out, Cond("!=", dim)) is True:
            return True
        for k in out:
            if k.poly is not None and k.op == "<":
                rest = k.poly + dim
                if (all(v > 0 for v in rest.t.values()) or not rest.t):
                    return True
        return False
    if nz(C_) and not nz(R_):
        out.append(Cond(">", R_))
    if nz(R_) and not nz(C_):
        out.append(Cond(">", C_))
    if nz(R_):
        out.append(Cond(">=", R_ - ONE))
    if nz(C_):
        out.append(Cond(">=", C_ - ONE))
    S_ = sym.get("S")
    if S_ is not None and S_ != C_:
        out.append(Cond(">=", S_ - C_))
    return out


def judge2(conds, sym, res):
    conds = add_invariant(conds, sym)
    j = judge(conds, sym, None, res)
    if j:
        return j
    j = judge(saturate(conds), sym, None, res)
    if j:
        return j + " [with transitivity]"
    # L-COLV on views: col range c .. c + (R-1)*S + 1 (built by a helper); L-COLO owned
    return None


def literal_ok(kind, fields, names, sym, conds):
    """cursor / view literals: returns (ok, what)"""
    nm = kind.split("::")[-1]
    vals = dict(zip(names, fields))
    C_, S_, L_ = sym.get("C"), sym.get("S"), sym.get("L")
    if nm in ("Rows", "RowsMut"):
        v = vals.get("v")
        ok_v = isinstance(v, Slice) and v.lo == ZERO and v.hi == L_
        ok_c = vals.get("cols") == C_
        sk = vals.get("skip_cols")
        ok_s = isinstance(sk, Poly) and sk == S_ - C_
        return ok_v and ok_c and ok_s, "%s { v: %r, cols: %r, skip_cols: %r } (want whole slice, C, S-C = %r)" % (nm, v, vals.get("cols"), sk, S_ - C_)
    if nm in ("Col", "ColMut"):
        sk = vals.get("skip")
        ok_s = isinstance(sk, Poly) and sk == S_ - ONE
        return ok_s, "%s { skip: %r } (want S-1 = %r)" % (nm, sk, S_ - ONE)
    return True, ""


def _zero_atoms(conds):
    Z = set()
    atoms = set(a for c in conds if c.poly is not None for mono in c.poly.t for a in mono)
    for a in atoms:
        if decide(conds, Cond("==", Poly.atom(a))) is True:
            Z.add(a)
    return Z


def _drop_zero(p, Z):
    return Poly({k: v for k, v in p.t.items() if not any(a in Z for a in k)})


def subst_atom(p, atom, repl):
    """p with every occurrence of `atom` replaced by the polynomial `repl`"""
    out = Poly()
    for mono, coef in p.t.items():
        term = Poly.const(coef)
        for a in mono:
            term = term * (repl if a == atom else Poly.atom(a))
        out = out + term
    return out


def _places_of(x):
    if isinstance(x, dict):
        if "local" in x and "proj" in x:
            yield x
        for v in x.values():
            yield from _places_of(v)
    elif isinstance(x, list):
        for v in x:
            yield from _places_of(v)


def r_layout(f):
    R = Result("R-LAYOUT")
    setup_layout(f)
    allb = {b.id: b.d for b in f.bodies}
    nfun = nacc = ninc = 0
    for b in f.fn_bodies:
        kind = kind_of(b.impl_self or "")
        if kind is None or kind.split("::")[-1] not in ARRAY_KINDS or b.kind != "AssocFn":
            continue
        extra_fn = False
        if b.name not in TARGETS:
            # any further method of a view type that reads the backing slice itself (an override of a provided method, a new
            # accessor): judged by the same lemmas when the evaluator can follow it, listed as undecided otherwise.  The owned
            # array's other methods (insert / remove / conversions ..) belong to the shape / raw-bounds engines.
            knd0 = kind.split("::")[-1]
            if knd0 == "TooDee" or b.d.get("derived"):
                continue
            di = LAYOUT[kind].index("data") if "data" in LAYOUT.get(kind, []) else None
            if di is None or not any(pl["local"] == 1 and any(pe["k"] == "field" and pe["i"] == di for pe in pl["proj"]) for bl in b.blocks for pl in _places_of([bl["stmts"], bl["term"]])):
                continue
            if b.name in ("data", "data_mut", "num_cols", "num_rows", "stride", "bounds", "size", "is_empty", "serialize", "fmt", "into_iter", "from"):
                continue
            if b.arg_count < 1 or kind_of(b.locals[1]) != kind:
                continue          # not a method on the view itself (conversions are R-CONV's)
            extra_fn = True
        if kind.split("::")[-1] == "TooDee" and b.name == "new":
            continue          # resize_with constructor: R-ZERO / K_OVF decide it
        unsafe_fn = b.d.get("unsafe", False)
        try:
            sym, res = analyse(allb, b.d)
        except Inconclusive as e:
            if not extra_fn:
                ninc += 1
            R.inconc(b.ident, "engine inconclusive: %s" % e)
            if not extra_fn and not os.environ.get("VERIF_LAYOUT_LENIENT") and any(fn_ and fn_["name"] in ("get_unchecked", "get_unchecked_mut", "from_raw_parts", "from_raw_parts_mut") for _, _, fn_ in b.calls()):
                # fail closed (section 7): one of the anchored accessors performs an unchecked access in code the evaluator cannot
                # follow - the address is unproven, not "undecided"
                R.fail(b.ident, "unproven-unchecked", "%s performs an unchecked access but the layout evaluator cannot follow the function (%s): the address is unproven" % (b.ident, e), b.where())
            continue
        except (KeyError, IndexError, TypeError, AttributeError, RecursionError) as e:
            if not extra_fn:
                ninc += 1
            R.inconc(b.ident, "engine error %s: %r" % (type(e).__name__, e))
            continue
        nfun += 1
        bad = []
        nacc_fn = 0
        ninfeasible = 0
        lits = []
        for (P, oc) in res:
            if oc[0] == "panic":
                continue
            if infeasible(P.conds, sym):
                ninfeasible += 1
                continue
            knd = kind.split("::")[-1]
            touched = []
            for a in P.acc:
                if a[0] == "mutate" and knd == "TooDeeViewMut" and isinstance(a[3], Slice):
                    # confinement: a mutated range lies inside the window part of one row: [q*S + c0, q*S + c0 + w), c0 + w <= C, q < R
                    nacc_fn += 1
                    cc = add_invariant(P.conds, sym)
                    cs = saturate(cc)
                    q, rest = split_stride(a[3].lo, sym["S"])
                    w = a[3].hi - a[3].lo
                    okc = (decide(cc, Cond("<", q - sym["R"])) is True or decide(cs, Cond("<", q - sym["R"])) is True) and \
                          (decide(cc, Cond("<=", rest + w - sym["C"])) is True or decide(cs, Cond("<=", rest + w - sym["C"])) is True) and \
                          (rest == ZERO or decide(cc, Cond(">=", rest)) is True or decide(cs, Cond(">=", rest)) is True or all(v > 0 for v in rest.t.values()))
                    emp = w == ZERO or decide(cc, Cond("<=", w)) is True
                    if not (okc or emp):
                        bad.append((("mutate", a[1], a[2], a[3], a[4]), P.conds))
                    elif not emp:
                        touched.append((q, rest, w))
                if a[0] == "mutate" and knd == "TooDee" and isinstance(a[3], Slice):
                    q, rest = split_stride(a[3].lo, sym["S"])
                    touched.append((q, rest, a[3].hi - a[3].lo))
                if a[0] != "unchecked":
                    continue
                nacc_fn += 1
                conds = P.conds
                j = judge2(conds, sym, a[3])
                if j is None and unsafe_fn:
                    extra = []
                    for nme in b.param_names().values():
                        for suffix, dim in (("", "R"), (".1", "R"), (".0", "C")):
                            pass
                    pn = b.param_names()
                    for loc, nme in pn.items():
                        ty = b.locals[loc]
                        if ty == "usize":
                            extra.append(Cond("<", Poly.atom(nme) - sym["R"]))
                        elif ty == "(usize, usize)":
                            extra.append(Cond("<", Poly.atom(nme + ".1") - sym["R"]))
                            extra.append(Cond("<", Poly.atom(nme + ".0") - sym["C"]))
                    j = judge2(conds + extra, sym, a[3])
                    j = j and j + " [shape only: hypotheses are the unsafe caller's obligation]"
                if j is None:
                    bad.append((a, conds))
            if b.name == "swap_rows" and touched and knd in ("TooDee", "TooDeeViewMut"):
                # exactly the two named rows, whole: {q} == {r1, r2} (parameters, in either order), columns 0..C
                pn_ = [Poly.atom(nm_) for loc_, nm_ in sorted(b.param_names().items()) if b.locals[loc_] == "usize"]
                cc = saturate(add_invariant(P.conds, sym))
                def same(x, y): return x == y or decide(cc, Cond("==", x - y)) is True
                rows_ok = len(pn_) == 2 and len(touched) == 2 and all(r_ == ZERO and same(w_, sym["C"]) for _, r_, w_ in touched) and \
                    ((same(touched[0][0], pn_[0]) and same(touched[1][0], pn_[1])) or (same(touched[0][0], pn_[1]) and same(touched[1][0], pn_[0])))
                if not rows_ok:
                    bad.append((("mutate", "swap_rows-rows", None, "rows %s" % ", ".join("row %r cols %r..+%r" % tt for tt in touched), b.line), P.conds))
                elif len(pn_) == 2 and decide(cc, Cond("!=", pn_[0] - pn_[1])) is not True and decide(saturate(P.conds), Cond("!=", pn_[0] - pn_[1])) is not True:
                    # the two rows are exchanged with a non-overlapping primitive and the offset of the second is computed from
                    # their distance: the path must have established r1 != r2 (swap_rows(r, r) changes nothing - it must not
                    # reach the raw exchange, where `(r2 - r1) * stride - num_cols` underflows)
                    bad.append((("mutate", "swap_rows-same-row", None, "rows %r and %r without r1 != r2 on the path" % (pn_[0], pn_[1]), b.line), P.conds))
            if b.name == "row_pair_mut" and oc[0] == "ret":
                # an implementor's own row_pair_mut returns exactly rows (r1, r2), whole and in argument order
                pn_ = [Poly.atom(nm_) for loc_, nm_ in sorted(b.param_names().items()) if b.locals[loc_] == "usize"]
                rv = oc[1]
                if isinstance(rv, Tup) and len(rv.f) == 2 and all(isinstance(x, Slice) for x in rv.f) and len(pn_) == 2:
                    nacc_fn += 1
                    cc = saturate(add_invariant(P.conds, sym))
                    def same_(x, y): return x == y or decide(cc, Cond("==", x - y)) is True
                    okp = all(same_(x.lo, pn_[i] * sym["S"]) and same_(x.hi - x.lo, sym["C"]) for i, x in enumerate(rv.f))
                    if not okp:
                        bad.append((("mutate", "row_pair_mut-rows", None, "returns (%r, %r)" % (rv.f[0], rv.f[1]), b.line), P.conds))
            # returned aggregate literals
            if oc[0] == "ret" and isinstance(oc[1], Obj) and oc[1].kind in LAYOUT and not extra_fn:
                okl, what = literal_ok(oc[1].kind, oc[1].fields, LAYOUT[oc[1].kind], sym, P.conds)
                if what:
                    lits.append((okl, what))
                knm = oc[1].kind.split("::")[-1]
                if knm in ("TooDeeView", "TooDeeViewMut"):
                    # exact extent: the cursors built over a view iterate its *whole* slice, so the slice must be exactly
                    # (rows-1)*stride + cols long (0 for an empty view), not merely long enough
                    vals = dict(zip(LAYOUT[oc[1].kind], oc[1].fields))
                    dsl, c_, r_, st_ = vals.get("data"), vals.get("num_cols"), vals.get("num_rows"), vals.get("stride")
                    if isinstance(dsl, Slice) and all(isinstance(x, Poly) for x in (c_, r_, st_)):
                        Zs = _zero_atoms(P.conds)
                        ln = _drop_zero(dsl.len(), Zs)
                        want_len = _drop_zero((r_ - ONE) * st_ + c_, Zs)
                        empty = (_drop_zero(r_, Zs) == ZERO) or decide(P.conds, Cond("==", r_)) is True
                        okx = (empty and ln == ZERO) or (not empty and (ln == want_len or decide(saturate(P.conds), Cond("==", ln - want_len)) is True))
                        lits.append((okx, "%s { data: %r } has extent %r (want exactly (rows-1)*stride+cols = %r%s)" % (knm, dsl, ln, want_len, ", 0 when empty" if empty else "")))
                if knm in ("TooDeeView", "TooDeeViewMut") and b.name in ("view", "view_mut", "from_toodee"):
                    vals = dict(zip(LAYOUT[oc[1].kind], oc[1].fields))
                    okst = vals.get("stride") == sym["S"]
                    lits.append((okst, "%s { stride: %r } (want the receiver's own stride %r)" % (knm, vals.get("stride"), sym["S"])))
        nacc += nacc_fn
        R.inst(b.ident, "%d unchecked accesses on %d feasible paths each match a layout lemma whose hypotheses are path facts (%d invariant-infeasible paths discarded)" % (nacc_fn, len(res), ninfeasible), not bad)
        seenk = set()
        for (a, conds) in bad:
            desc = "%s:%r" % (a[1], a[3])
            if desc in seenk:
                continue
            seenk.add(desc)
            cs = ", ".join(sorted(repr(c) for c in conds))
            if a[0] == "mutate":
                R.fail(b.ident, desc, "%s: %s writes %s, which is not the window part of the named row(s) under the path facts {%s}: cells outside the view / of another row are changed" % (b.ident, a[1], a[3], cs), "%s:%s" % (b.file, a[4]))
                continue
            R.fail(b.ident, desc, "%s: unchecked %s of %r is not covered by any layout lemma under the path facts {%s}: the access can lie outside the backing slice" % (b.ident, a[1], a[3], cs), "%s:%s" % (b.file, a[4]))
        seenl = set()
        for okl, what in lits:
            if what in seenl:
                continue
            seenl.add(what)
            R.inst(b.ident, "literal " + what, okl)
            if not okl:
                R.fail(b.ident, "literal:%s" % what.split(" (want")[0], "%s builds %s" % (b.ident, what), b.where())
    # a view's backing slice is (rows-1)*stride + cols long - never a whole number of strides when cols < stride: splitting it
    # with chunks_exact*(stride) silently drops the last row
    for b in f.fn_bodies:
        if (b.self_head or "").replace("&mut ", "").replace("&", "") not in ("TooDeeView", "TooDeeViewMut"):
            continue
        dxv = None
        for bi, t, fn in b.calls():
            if fn and re.match(r"^core::slice::<impl \[T\]>::(chunks_exact|chunks_exact_mut|rchunks_exact|rchunks_exact_mut|array_chunks)", fn["path"]):
                # only the view's own backing slice is strided: a source slice handed in by the caller is not
                from .dfx import Dfx, walk, strip as dstrip
                dxv = dxv or Dfx(b)
                recv = dxv.expr(t["args"][0]) if t["args"] else ("?",)
                from_self = any(x[0] == "field" and dstrip(x[1]) in (("param", 1), ("deref", ("param", 1))) for x in walk(recv))
                from_other_param = any(x[0] == "param" and x[1] != 1 for x in walk(recv))
                if from_other_param and not from_self:
                    continue
                from .rules_misc import view_contiguous_at
                if view_contiguous_at(f, b, bi):
                    R.inst(b.ident, "chunks_exact* over the view's backing slice only where the view is known to be gap-free", True)
                    continue
                R.inst(b.ident, "no chunks_exact* over the view's strided backing slice", False)
                R.fail(b.ident, "chunks_exact", "%s splits the view's backing slice with %s: that slice ends with the last row (length (rows-1)*stride + cols), so for a window narrower than its parent the final, shorter chunk - the last row - is silently skipped" % (b.ident, fn["name"]), b.where(t["span"]))
    R.require_floor(nfun, 30, "accessor functions")
    R.require_floor(nacc, 30, "unchecked accesses")
    if ninc * 4 > max(nfun + ninc, 1):
        R.fail("<rule>", "engine-broken", "%d accessor functions inconclusive: the evaluator, not the code, is broken" % ninc)
    return R, nfun


def r_nth(f):
    """L-NTH (DESIGN 3.4, 10): the provided swap_rows / row_pair_mut / swap of TooDeeOpsMut address exactly the rows
    (cells) their arguments name: on a fresh rows_mut() cursor nth(a) yields row a and a following nth(k) yields
    row a + 1 + k; the unwrap of the result is the bounds check."""
    R = Result("R-NTH")
    allb = {b.id: b.d for b in f.bodies}
    n = 0
    for name in ("swap_rows", "row_pair_mut", "swap"):
        bs = [b for b in f.fn_bodies if b.name == name and b.trait_provided and b.trait_head == "TooDeeOpsMut"]
        if not bs:
            if name == "row_pair_mut":
                raise AnchorMissing("TooDeeOpsMut::row_pair_mut (named in C13)")
            continue
        b = bs[0]
        pn = b.param_names()
        args = []
        for i in range(1, b.arg_count + 1):
            ty = b.locals[i]
            nm = pn.get(i, "a%d" % i)
            if i == 1:
                args.append(SelfObj())
            elif ty == "usize":
                args.append(Poly.atom(nm))
            elif ty == "(usize, usize)":
                args.append(Tup([Poly.atom(nm + ".0"), Poly.atom(nm + ".1")]))
            else:
                args.append(Unknown(nm))
        try:
            ev = Ev(allb, b.d, args)
            ev.sub_strict = True
            res = ev.run()
        except Inconclusive as e:
            R.inconc(b.ident, "engine inconclusive: %s" % e)
            continue
        except (KeyError, IndexError, TypeError, AttributeError, RecursionError) as e:
            R.inconc(b.ident, "engine error %s: %r" % (type(e).__name__, e))
            continue
        names = [pn.get(i) for i in range(2, b.arg_count + 1)]
        bad = []
        npaths = 0
        returns_when_equal = False
        for (P, oc) in res:
            if oc[0] == "panic":
                continue
            npaths += 1
            conds = saturate(P.conds)

            def same(a, b2):
                return a == b2 or decide(conds, Cond("==", a - b2)) is True
            if name == "swap_rows":
                A, B = Poly.atom(names[0]), Poly.atom(names[1])
                # is this returning path possible with r1 == r2?  substitute r2 := r1 in its facts and look for a contradiction
                consistent = decide(conds, Cond("!=", A - B)) is not True
                if consistent:
                    for ce in P.conds:
                        if ce.poly is None:
                            continue
                        q_ = subst_atom(ce.poly, names[1], Poly.atom(names[0]))
                        if q_.is_const():
                            v_ = q_.cval()
                            holds = {"==": v_ == 0, "!=": v_ != 0, "<": v_ < 0, "<=": v_ <= 0, ">": v_ > 0, ">=": v_ >= 0}.get(ce.op, True)
                            if not holds:
                                consistent = False
                if consistent:
                    returns_when_equal = True
                sw = [a for a in P.acc if a[0] == "swaprows"]
                if decide(conds, Cond("==", A - B)) is True and not sw:
                    continue            # equal rows: nothing to do
                okp = len(sw) == 1 and ((same(sw[0][1], A) and same(sw[0][2], B)) or (same(sw[0][1], B) and same(sw[0][2], A)))
                if not okp:
                    bad.append(("swaps rows %s" % [(repr(x[1]), repr(x[2])) for x in sw], P.conds))
            elif name == "row_pair_mut":
                A, B = Poly.atom(names[0]), Poly.atom(names[1])
                ret = oc[1]
                okp = isinstance(ret, Tup) and len(ret.f) == 2 and isinstance(ret.f[0], RowRef) and isinstance(ret.f[1], RowRef) and same(ret.f[0].row, A) and same(ret.f[1].row, B)
                if not okp:
                    bad.append(("returns %r" % (ret,), P.conds))
            else:
                c1, c2 = names[0], names[1]
                want = {(repr(Poly.atom(c1 + ".1")), repr(Poly.atom(c1 + ".0"))), (repr(Poly.atom(c2 + ".1")), repr(Poly.atom(c2 + ".0")))}
                sw = [a for a in P.acc if a[0] == "swapcells"]
                okp = len(sw) == 1
                if okp:
                    got = [sw[0][1], sw[0][2]]
                    W1 = (Poly.atom(c1 + ".1"), Poly.atom(c1 + ".0"))
                    W2 = (Poly.atom(c2 + ".1"), Poly.atom(c2 + ".0"))

                    def cell_same(x, w):
                        return same(x[0], w[0]) and same(x[1], w[1])
                    okp = (cell_same(got[0], W1) and cell_same(got[1], W2)) or (cell_same(got[0], W2) and cell_same(got[1], W1))
                if not okp:
                    bad.append(("swaps cells %s" % [(repr(x[1]), repr(x[2])) for x in sw], P.conds))
        if name == "swap_rows" and npaths and not returns_when_equal:
            bad.append(("has no returning path for r1 == r2 (every such path ends in a panic: `r2 - r1 - 1` underflows, or nth() runs off the end)", []))
        n += 1
        R.inst(b.ident, "on all %d returning paths the rows / cells reached through rows_mut().nth(..) are exactly the ones named by the arguments (L-NTH)" % npaths, not bad and npaths > 0)
        seen = set()
        for what, conds in bad:
            if what in seen:
                continue
            seen.add(what)
            R.fail(b.ident, "nth:%s" % what, "%s: under the path facts {%s} it %s instead of the rows / cells named by its arguments" % (b.ident, ", ".join(sorted(repr(c) for c in conds)), what), b.where())
        if npaths == 0:
            R.fail(b.ident, "nth:no-path", "%s has no returning path the model understands" % b.ident, b.where())
    R.require_floor(n, 2, "provided row-addressing methods")
    return R, n
