"""R-FLATSEQ (DESIGN 3.5): denotational check of FlattenExact.  Inner iterators are modelled by their contract
(C08) as intervals of one virtual flattened index space: front = [0,f), rows = row indices [0,m) of width C
based at f, back = [f+m*C, f+m*C+b).  For each of next / next_back / nth / nth_back, evaluated from the four
entry configurations (loops unrolled at most three times) the returned element and the merged remaining
intervals must equal the ideal (element 0 / n, remaining suffix; symmetric for the back family) as canonical
polynomials under the path facts, using a bounded saturation for the quotient n / C (no solver)."""
import re, copy
from .core import Result, AnchorMissing
from .vgraph import (Poly, ZERO, ONE, Slice, Elem, RefTo, Tup, Adt, Cond, Gamma, Unknown, EMPTY, Inconclusive, strip_ref, facts_about)
from .vgraph import decide as decide0

C = Poly.atom("C"); F = Poly.atom("f"); M = Poly.atom("m"); Bk = Poly.atom("b"); N = Poly.atom("n")

class Rows:
    """the row iterator: rows r0..r1 of width C starting at global offset base (of row 0)"""
    def __init__(s, r0, r1, base): s.r0, s.r1, s.base = r0, r1, base
    def __repr__(s): return "rows[%r,%r)@%r" % (s.r0, s.r1, s.base)
class Seq(Slice): pass     # an inner (row) iterator = interval of the global index space

_SAT_CACHE = {}
FLIP = {"<": ">", ">": "<", "<=": ">=", ">=": "<=", "==": "==", "!=": "!="}
def saturate(conds):
    """bounded closure -> index {poly key: set(ops)} ; background facts for Div atoms, products with C, pairwise sums"""
    ck = tuple(c.key() for c in conds)
    if ck in _SAT_CACHE: return _SAT_CACHE[ck]
    facts = [c for c in conds if c.poly is not None]
    atoms = set()
    for c in facts:
        for mono in c.poly.t:
            for a in mono:
                if a.startswith("div<"): atoms.add(a)
    for a in atoms:
        X = DIVS[a]; q = Poly.atom(a)
        facts += [Cond("<=", q * C - X), Cond("<", X - q * C - C), Cond(">=", q)]
    def norm(c):
        if c.op in ("<=", "<"): return [(c.op, c.poly)]
        if c.op in (">=", ">"): return [("<=" if c.op == ">=" else "<", -c.poly)]
        if c.op == "==": return [("<=", c.poly), ("<=", -c.poly)]
        return []
    le = [x for c in facts for x in norm(c)]
    le += [(op, p * C) for (op, p) in le if all(len(m) <= 1 for m in p.t)]
    le += [("<=", p + ONE) for (op, p) in le if op == "<"]
    base = list(le); seen = {(op, p.key()) for op, p in le}
    for i in range(len(base)):
        for j in range(i + 1, len(base)):
            p = base[i][1] + base[j][1]
            if len(p.t) <= 4:
                op = "<" if "<" in (base[i][0], base[j][0]) else "<="
                if (op, p.key()) not in seen: seen.add((op, p.key())); le.append((op, p))
    idx = {}
    def add(p, op): idx.setdefault(p.key(), set()).add(op)
    for c in facts:
        add(c.poly, c.op); add(-c.poly, FLIP[c.op])
    for op, p in le:
        add(p, op); add(-p, FLIP[op])
    _SAT_CACHE[ck] = idx
    return idx
DIVS = {}
def decide(conds, c):
    if c.op in ("atom", "natom"): return decide0(conds, c)
    p = c.poly
    if p.is_const():
        v = p.cval(); return {"==": v == 0, "!=": v != 0, "<": v < 0, "<=": v <= 0, ">": v > 0, ">=": v >= 0}[c.op]
    idx = saturate(conds)
    ops = set(idx.get(p.key(), ()))
    o1 = idx.get((p + ONE).key(), ());  o2 = idx.get((p - ONE).key(), ())
    if "<=" in o1 or "<" in o1 or "==" in o1: ops.add("<")
    if ">=" in o2 or ">" in o2 or "==" in o2: ops.add(">")
    if ">=" in ops and "<=" in ops: ops.add("==")
    if ">=" in ops and "!=" in ops: ops.add(">")
    if "<=" in ops and "!=" in ops: ops.add("<")
    if "==" in ops: ops |= {"<=", ">="}
    if "<" in ops: ops |= {"<=", "!="}
    if ">" in ops: ops |= {">=", "!="}
    if c.op in ops: return True
    neg = {"==": "!=", "!=": "==", "<": ">=", ">=": "<", ">": "<=", "<=": ">"}[c.op]
    if neg in ops: return False
    return None

class St:
    def __init__(s): s.env = {}; s.conds = []; s.self = None; s.trace = []
    def fork(s):
        n = St(); n.env = {k: copy.deepcopy(v) for k, v in s.env.items()}; n.conds = list(s.conds); n.self = copy.deepcopy(s.self); n.trace = list(s.trace); return n

class Ev:
    def __init__(s, body): s.b = body; s.out = []
    # ---- places: self is local 1 (a &mut FlattenExact): fields 0 iter, 1 frontiter, 2 backiter
    def read(s, P, p):
        if p["local"] == 1 and p["proj"] and p["proj"][0]["k"] == "deref":
            v = P.self; rest = p["proj"][1:]
        else:
            v = P.env.get(p["local"]); rest = p["proj"]
        for e in rest:
            if e["k"] == "deref":
                if isinstance(v, RefTo): v = s.read_ref(P, v)
                continue
            if e["k"] == "field": v = v.f[e["i"]] if isinstance(v, (Tup, Adt)) else (v[e["i"]] if isinstance(v, list) else Unknown("f"))
            elif e["k"] == "downcast": continue
            else: raise Inconclusive("proj")
        return v
    def read_ref(s, P, r):
        v = P.self if r.root == "self" else P.env.get(r.root)
        for i in r.path:
            if i == "some": v = v.f[0]
            else: v = v[i] if isinstance(v, list) else v.f[i]
        return v
    def write_ref(s, P, r, val):
        if not r.path:
            if r.root == "self": P.self = val
            else: P.env[r.root] = val
            return
        v = P.self if r.root == "self" else P.env.get(r.root)
        for i in r.path[:-1]:
            v = v.f[0] if i == "some" else (v[i] if isinstance(v, list) else v.f[i])
        i = r.path[-1]
        if i == "some": v.f[0] = val
        elif isinstance(v, list): v[i] = val
        else: v.f[i] = val
    def place_ref(s, P, p):
        """a RefTo denoting the place"""
        if p["local"] == 1 and p["proj"] and p["proj"][0]["k"] == "deref": root, rest, path = "self", p["proj"][1:], []
        else:
            v = P.env.get(p["local"]); rest = p["proj"]; root, path = p["local"], []
            if isinstance(v, RefTo) and rest and rest[0]["k"] == "deref": root, path, rest = v.root, list(v.path), rest[1:]
        for e in rest:
            if e["k"] == "field": path.append(e["i"] if not (path and path[-1] == "dc") else "some")
            elif e["k"] == "downcast": path.append("dc")
            elif e["k"] == "deref":
                cur = s.read_ref(P, RefTo(root, [x for x in path if x != "dc"]))
                if isinstance(cur, RefTo): root, path = cur.root, list(cur.path)
        return RefTo(root, [x for x in path if x != "dc"])
    def write(s, P, p, val): s.write_ref(P, s.place_ref(P, p), val)
    def operand(s, P, o):
        if o["k"] in ("copy", "move"): return s.read(P, o["p"])
        v = o["val"]
        m = re.match(r"^(?:const )?(\d+)_usize$", v)
        if m: return Poly.const(int(m.group(1)))
        if v in ("const true", "true"): return Cond("==", ZERO)
        if v in ("const false", "false"): return Cond("!=", ZERO)
        return Unknown("const")
    def rvalue(s, P, r):
        k = r["k"]
        if k == "use": return s.operand(P, r["o"])
        if k in ("ref", "rawptr"): return s.place_ref(P, r["p"])
        if k == "binop":
            a, b = s.operand(P, r["l"]), s.operand(P, r["r"]); op = r["op"]
            if isinstance(a, Poly) and isinstance(b, Poly):
                base = op.replace("WithOverflow", "").replace("Unchecked", "")
                if base in ("Add", "Sub", "Mul"):
                    res = {"Add": a + b, "Sub": a - b, "Mul": a * b}[base]
                    return Tup([res, Cond("atom", atom="lang_ovf")]) if op.endswith("WithOverflow") else res
                if base == "Div":
                    name = "div<%r|%r>" % (a, b); DIVS[name] = a
                    if not (b == C): raise Inconclusive("division by %r" % (b,))
                    return Poly.atom(name)
                if base == "Rem":
                    if not (b == C): raise Inconclusive("remainder by %r" % (b,))
                    name = "div<%r|%r>" % (a, b); DIVS[name] = a
                    return a - Poly.atom(name) * C
                if op in ("Eq", "Ne", "Lt", "Le", "Gt", "Ge"):
                    return Cond({"Eq": "==", "Ne": "!=", "Lt": "<", "Le": "<=", "Gt": ">", "Ge": ">="}[op], a - b)
            raise Inconclusive("binop %s %r %r" % (op, a, b))
        if k == "unop":
            a = s.operand(P, r["o"])
            if r["op"] == "Not" and isinstance(a, Cond): return a.neg()
            raise Inconclusive("unop")
        if k == "cast": return s.operand(P, r["o"])
        if k == "agg":
            f = [s.operand(P, x) for x in r["fields"]]
            if r["agg"] == "tuple": return Tup(f)
            if r["agg"] == "adt": return Adt(r["adt"], r["variant"], f)
            if r["agg"] == "closure": return Unknown("closure")
        if k == "discr": return ("discr", s.read(P, r["p"]))
        raise Inconclusive("rvalue " + k)
    def deref_val(s, P, v):
        n = 0
        while isinstance(v, RefTo) and n < 5: v = s.read_ref(P, v); n += 1
        return v
    def call(s, P, t):
        fn = t["func"].get("fn");
        if not fn: raise Inconclusive("indirect")
        path, name = fn["path"], fn["name"]
        if path.startswith("core::panicking::") or t["target"] is None:
            s.out.append((P, ("panic", t["span"]["lo"]))); return []
        args = [s.operand(P, a) for a in t["args"]]
        recv_ref = args[0] if args and isinstance(args[0], RefTo) else None
        # one extra level: &(&mut inner)
        tgt_ref = recv_ref
        if recv_ref is not None:
            inner = s.read_ref(P, recv_ref)
            if isinstance(inner, RefTo): tgt_ref = inner
        recv = s.deref_val(P, args[0]) if args else None
        if name == "num_cols": return [(P, C)]
        if name == "into_iter": return [(P, recv if recv is not None else args[0])]
        if name == "len" and isinstance(recv, Slice): return [(P, recv.len())]
        if name == "len" and isinstance(recv, Rows): return [(P, recv.r1 - recv.r0)]
        if name == "len" and (fn.get("trait") or "").endswith("ExactSizeIterator") and isinstance(recv, (list, tuple)) and any(isinstance(x, Rows) for x in recv):
            # the adaptor's own len(): size_hint's conformance (f3) says it is the number of remaining cells
            tot = ZERO
            for x in recv:
                if isinstance(x, Rows): tot = tot + (x.r1 - x.r0) * C
                elif isinstance(x, Adt) and x.variant == "Some" and x.f and isinstance(s.deref_val(P, x.f[0]), Slice): tot = tot + s.deref_val(P, x.f[0]).len()
                elif isinstance(x, Adt) and x.variant == "None": pass
                elif isinstance(x, Slice): tot = tot + x.len()
                else: raise Inconclusive("len of %r" % (recv,))
            return [(P, tot)]
        if name == "min" and path in ("core::cmp::Ord::min", "core::cmp::min"):
            a, b = args; outs = []
            for cond, v in ((Cond("<=", a - b), a), (Cond(">", a - b), b)):
                d = decide(P.conds, cond)
                if d is False: continue
                Q = P.fork()
                if d is None: Q.conds.append(cond)
                outs.append((Q, v))
            return outs
        if name in ("next", "next_back", "nth", "nth_back") and isinstance(recv, Slice):
            k = args[1] if name.startswith("nth") else ZERO
            outs = []
            for cond, some in ((Cond("<", k - recv.len()), True), (Cond(">=", k - recv.len()), False)):
                d = decide(P.conds, cond)
                if d is False: continue
                Q = P.fork()
                if d is None: Q.conds.append(cond)
                if some:
                    if name in ("next", "nth"): el, new = Elem(recv.lo + k), Seq(recv.lo + k + ONE, recv.hi)
                    else: el, new = Elem(recv.hi - ONE - k), Seq(recv.lo, recv.hi - ONE - k)
                    s.write_ref(Q, tgt_ref, new); outs.append((Q, Adt("Option", "Some", [el])))
                else:
                    s.write_ref(Q, tgt_ref, Seq(recv.lo, recv.lo) if name in ("next_back", "nth_back") else Seq(recv.hi, recv.hi)); outs.append((Q, Adt("Option", "None", [])))
            return outs
        if name in ("next", "next_back", "nth", "nth_back") and isinstance(recv, Rows):
            k = args[1] if name.startswith("nth") else ZERO
            outs = []; n = recv.r1 - recv.r0
            for cond, some in ((Cond("<", k - n), True), (Cond(">=", k - n), False)):
                d = decide(P.conds, cond)
                if d is False: continue
                Q = P.fork()
                if d is None: Q.conds.append(cond)
                if some:
                    if name in ("next", "nth"):
                        i = recv.r0 + k; new = Rows(i + ONE, recv.r1, recv.base)
                    else:
                        i = recv.r1 - ONE - k; new = Rows(recv.r0, i, recv.base)
                    row = Seq(recv.base + i * C, recv.base + i * C + C)
                    s.write_ref(Q, tgt_ref, new); outs.append((Q, Adt("Option", "Some", [row])))
                else:
                    s.write_ref(Q, tgt_ref, Rows(recv.r1, recv.r1, recv.base) if name in ("next", "nth") else Rows(recv.r0, recv.r0, recv.base)); outs.append((Q, Adt("Option", "None", [])))
            return outs
        if name in ("as_mut", "as_ref") and path.startswith("core::option::Option"):
            v = recv
            if isinstance(v, Adt) and v.variant == "Some": return [(P, Adt("Option", "Some", [RefTo(recv_ref.root, list(recv_ref.path) + ["some"])]))]
            if isinstance(v, Adt) and v.variant == "None": return [(P, Adt("Option", "None", []))]
            raise Inconclusive("as_mut of %r" % (v,))
        if name == "branch" and path == "core::ops::Try::branch":
            v = args[0]
            if isinstance(v, Adt) and v.variant == "Some": return [(P, Adt("ControlFlow", "Continue", [v.f[0]]))]
            if isinstance(v, Adt) and v.variant == "None": return [(P, Adt("ControlFlow", "Break", [Adt("Option", "None", [])]))]
        if name == "from_residual": return [(P, Adt("Option", "None", []))]
        if name == "map_or" and path.startswith("core::option::Option"):
            v = recv if recv is not None else args[0]
            if isinstance(v, Adt) and v.variant == "None": return [(P, args[1])]
            if isinstance(v, Adt) and v.variant == "Some":
                inner = s.deref_val(P, v.f[0])
                if isinstance(inner, Slice): return [(P, inner.len())]      # closure |i| i.len()
        raise Inconclusive("call %s on %r" % (path, recv))
    def run(s, P):
        s.step(P, 0, 0, {}); return s.out
    def step(s, P, bb, n, visits):
        if n > 400 or visits.get(bb, 0) > 3: raise Inconclusive("unroll bound")
        visits = dict(visits); visits[bb] = visits.get(bb, 0) + 1
        bl = s.b["blocks"][bb]
        for st in bl["stmts"]:
            if st["k"] != "assign": continue
            s.write(P, st["p"], s.rvalue(P, st["rv"]))
        t = bl["term"]; k = t["k"]
        if k == "goto": return s.step(P, t["target"], n + 1, visits)
        if k == "return": s.out.append((P, ("ret", P.env.get(0)))); return
        if k in ("assert", "drop"): return s.step(P, t["target"], n + 1, visits)
        if k == "call":
            for (Q, v) in s.call(P, t):
                s.write(Q, t["dest"], v); s.step(Q, t["target"], n + 1, visits)
            return
        if k == "switch":
            d = s.operand(P, t["discr"]); tmap = dict((int(a), b) for a, b in t["targets"])
            if isinstance(d, tuple):
                v = s.deref_val(P, d[1])
                if isinstance(v, Adt):
                    idx = {"None": 0, "Some": 1, "Continue": 0, "Break": 1}[v.variant]
                    return s.step(P, tmap.get(idx, t["otherwise"]), n + 1, visits)
                raise Inconclusive("discr of %r" % (v,))
            if isinstance(d, Cond):
                for truth, c in ((True, d), (False, d.neg())):
                    dec = decide(P.conds, c)
                    if dec is False: continue
                    Q = P.fork()
                    if dec is None: Q.conds.append(c)
                    tgt = (t["otherwise"] if 0 in tmap else tmap.get(1)) if truth else tmap.get(0, t["otherwise"])
                    s.step(Q, tgt, n + 1, visits)
                return
            raise Inconclusive("switch on %r" % (d,))
        if k in ("unreachable", "resume"): return
        raise Inconclusive("term " + k)

def zero_atoms(conds):
    Z = set()
    atoms = set(a for c in conds if c.poly is not None for mono in c.poly.t for a in mono)
    for a in atoms:
        if decide(conds, Cond("==", Poly.atom(a))) is True: Z.add(a)
    return Z
def nz(p, Z): return Poly({k: v for k, v in p.t.items() if not any(a in Z for a in k)})
def denote(selfv):
    """list of non-empty intervals of the remaining flattened sequence, in order"""
    it, fr, bk = selfv
    parts = []
    if isinstance(fr, Adt) and fr.variant == "Some": parts.append((fr.f[0].lo, fr.f[0].hi))
    parts.append((it.base + it.r0 * C, it.base + it.r1 * C))
    if isinstance(bk, Adt) and bk.variant == "Some": parts.append((bk.f[0].lo, bk.f[0].hi))
    return parts
def merged_equals(conds, parts, lo, hi):
    """do the parts, after dropping provably empty ones, chain contiguously from lo to hi ?"""
    cur = lo
    for (a, b) in parts:
        if (b - a) == ZERO or decide(conds, Cond("==", b - a)) is True: continue
        if decide(conds, Cond("<=", b - a)) is True: continue          # empty or inverted => empty
        if not (a == cur or decide(conds, Cond("==", a - cur)) is True): return False, "gap/overlap at %r (expected %r)" % (a, cur)
        cur = b
    if cur == hi or decide(conds, Cond("==", cur - hi)) is True: return True, ""
    # everything consumed and target also empty?
    if decide(conds, Cond(">=", lo - hi)) is True and cur == lo: return True, ""
    return False, "ends at %r, expected %r" % (cur, hi)
def all_empty(conds, parts):
    for (a, b) in parts:
        if (b - a) == ZERO: continue
        if decide(conds, Cond("<=", b - a)) is True: continue
        return False
    return True

def check(b, method):
    results = []
    for front_some in (False, True):
        for back_some in (False, True):
            f = F if front_some else ZERO; bb_ = Bk if back_some else ZERO
            T = f + M * C + bb_
            selfv = [Rows(ZERO, M, f),
                     Adt("Option", "Some", [Seq(ZERO, F)]) if front_some else Adt("Option", "None", []),
                     Adt("Option", "Some", [Seq(f + M * C, f + M * C + Bk)]) if back_some else Adt("Option", "None", [])]
            P = St(); P.self = selfv; P.env[1] = RefTo("self", [])
            if b["arg_count"] >= 2: P.env[2] = N
            # background: atoms are naturals; a row iterator with zero-width rows has no rows (R-ZERO)
            P.conds = [Cond(">=", F), Cond(">=", M), Cond(">=", Bk), Cond(">=", C), Cond(">=", N), Cond("<=", F - C), Cond("<=", Bk - C)]
            cfg = "front=%s back=%s" % ("Some" if front_some else "None", "Some" if back_some else "None")
            for czero in (False, True):
                Q = P.fork(); Q.conds.append(Cond("==", C) if czero else Cond(">", C))
                if czero: Q.conds.append(Cond("==", M))
                try:
                    outs = Ev(b).run(Q)
                except Inconclusive as e:
                    results.append((None, cfg, "engine inconclusive: %s" % e)); continue
                for (R, oc) in outs:
                    conds = R.conds
                    if oc[0] == "panic":
                        results.append((False, cfg, "panics at line %s under %s" % (oc[1], conds[8:]))); continue
                    Z = zero_atoms(conds)
                    ret = oc[1]; parts = [(nz(a, Z), nz(b2, Z)) for (a, b2) in denote(R.self)]
                    Tn = nz(T, Z)
                    front_family = method in ("next", "nth")
                    k = N if method.startswith("nth") else ZERO
                    if isinstance(ret, Adt) and ret.variant == "Some":
                        el = ret.f[0]
                        want = nz((ZERO + k) if front_family else (T - ONE - k), Z)
                        if isinstance(el, Elem): el = Elem(nz(el.off, Z))
                        okp = isinstance(el, Elem) and (el.off == want or decide(conds, Cond("==", el.off - want)) is True)
                        lo, hi = (want + ONE, Tn) if front_family else (ZERO, want)
                        okd, why = merged_equals(conds, parts, lo, hi)
                        results.append((okp and okd, cfg, "Some(%r) want elem@%r; remaining %s %s  [%s]" % (el, want, parts, why, conds[8:])))
                    elif isinstance(ret, Adt) and ret.variant == "None":
                        oke = all_empty(conds, parts)
                        beyond = decide(conds, Cond(">=", nz(k - T, Z)))
                        results.append(((True if (oke and beyond is True) else (None if oke and beyond is None else False)), cfg,
                                        "None; remaining %s ; n>=T decided=%s [%s]" % (parts, beyond, conds[8:])))
                    else:
                        results.append((None, cfg, "return value %r" % (ret,)))
    return results



def size_hint_check(b, plain=False):
    """f3, decided semantically (plain=True: a method returning the bare count, i.e. ExactSizeIterator::len / Iterator::count): in each of the four entry configurations size_hint must be (T, Some(T)) with
    T = f + m*C + b the number of remaining elements"""
    results = []
    for front_some in (False, True):
        for back_some in (False, True):
            fv = F if front_some else ZERO
            bv = Bk if back_some else ZERO
            T = fv + M * C + bv
            selfv = [Rows(ZERO, M, fv),
                     Adt("Option", "Some", [Seq(ZERO, F)]) if front_some else Adt("Option", "None", []),
                     Adt("Option", "Some", [Seq(fv + M * C, fv + M * C + Bk)]) if back_some else Adt("Option", "None", [])]
            P = St(); P.self = selfv; P.env[1] = RefTo("self", [])
            P.conds = [Cond(">=", F), Cond(">=", M), Cond(">=", Bk), Cond(">=", C)]
            cfg = "front=%s back=%s" % ("Some" if front_some else "None", "Some" if back_some else "None")
            try:
                outs = Ev(b).run(P)
            except Inconclusive as e:
                results.append((None, cfg, "engine inconclusive: %s" % e)); continue
            for (R_, oc) in outs:
                if oc[0] == "panic":
                    results.append((False, cfg, "panics")); continue
                ret = oc[1]
                ok = isinstance(ret, Tup) and len(ret.f) == 2 and isinstance(ret.f[0], Poly) and ret.f[0] == T and isinstance(ret.f[1], Adt) and ret.f[1].variant == "Some" and ret.f[1].f[0] == T
                if plain:
                    ok = isinstance(ret, Poly) and ret == T
                results.append((ok, cfg, "returns %r, remaining elements %r" % (ret, T)))
    return results


def r_flatseq(f):
    R = Result("R-FLATSEQ")
    npaths = 0
    nfun = 0
    ninc = 0
    # field order of FlattenExact: the model is [iter, frontiter, backiter]
    fe = [a for a in f.adts if a["id"].split("::")[-1] == "FlattenExact"]
    if not fe:
        raise AnchorMissing("struct FlattenExact")
    names = [x["name"] for x in fe[0]["fields"]]
    if names != ["iter", "frontiter", "backiter"]:
        R.inconc("FlattenExact", "field order %s differs from the model's [iter, frontiter, backiter]" % names)
        return R, 0
    for m in ("next", "next_back", "nth", "nth_back"):
        bs = [b for b in f.fn_bodies if b.self_head == "FlattenExact" and b.name == m and b.impl_trait and b.trait_head in ("Iterator", "DoubleEndedIterator")]
        if not bs:
            if m in ("next", "next_back"):
                raise AnchorMissing("FlattenExact::%s" % m)
            continue          # optional override: the provided method over next/next_back is std's
        b = bs[0]
        nfun += 1
        _SAT_CACHE.clear()
        try:
            res = check(b.d, m)
        except (KeyError, IndexError, TypeError, AttributeError, RecursionError) as e:
            ninc += 1
            R.inconc(b.ident, "engine error %s: %r" % (type(e).__name__, e))
            continue
        npaths += len(res)
        bad = [r for r in res if r[0] is False]
        und = [r for r in res if r[0] is None]
        R.inst(b.ident, "%d paths over 4 entry configurations x case splits: returned element and remaining denotation equal the ideal (undecided: %d)" % (len(res), len(und)), not bad)
        seen = set()
        for r in bad:
            desc = "%s:%s" % (r[1], re.sub(r"\s*\[.*$", "", r[2])[:160])
            if desc in seen:
                continue
            seen.add(desc)
            R.fail(b.ident, desc, "%s deviates from the ideal flattened sequence for entry state %s: %s" % (b.ident, r[1], r[2][:400]), b.where())
        for r in und:
            R.inconc(b.ident, "%s: %s" % (r[1], r[2][:200]))
        if und:
            ninc += 1
    # f3: size_hint
    bs = [b for b in f.fn_bodies if b.self_head == "FlattenExact" and b.name == "size_hint" and b.impl_trait]
    if bs:
        b = bs[0]
        try:
            res = size_hint_check(b.d)
            bad = [r for r in res if r[0] is False]
            und = [r for r in res if r[0] is None]
            if und and not bad:
                R.inconc(b.ident, "; ".join(r[2] for r in und)[:300])
            else:
                R.inst(b.ident, "f3 size_hint equals the number of remaining elements f + m*C + b in all 4 entry configurations", not bad)
                for r in bad:
                    R.fail(b.ident, "f3:%s:%s" % (r[1], r[2][:80]), "%s: for entry state %s it %s" % (b.ident, r[1], r[2]), b.where())
        except (KeyError, IndexError, TypeError, AttributeError, RecursionError) as e:
            R.inconc(b.ident, "engine error %s: %r" % (type(e).__name__, e))
    # overrides that return the bare number of remaining elements
    for b in f.fn_bodies:
        if b.self_head == "FlattenExact" and b.impl_trait and ((b.name == "len" and b.trait_head == "ExactSizeIterator") or (b.name == "count" and b.trait_head == "Iterator")):
            try:
                res = size_hint_check(b.d, plain=True)
                bad = [r for r in res if r[0] is False]
                und = [r for r in res if r[0] is None]
                if und and not bad:
                    R.inconc(b.ident, "; ".join(r[2] for r in und)[:300])
                else:
                    R.inst(b.ident, "f3 %s equals the number of remaining elements f + m*C + b in all 4 entry configurations" % b.name, not bad)
                    for r in bad:
                        R.fail(b.ident, "f3:%s:%s" % (r[1], r[2][:80]), "%s: for entry state %s it %s" % (b.ident, r[1], r[2]), b.where())
            except (KeyError, IndexError, TypeError, AttributeError, RecursionError) as e:
                R.inconc(b.ident, "engine error %s: %r" % (type(e).__name__, e))
    R.require_floor(nfun, 2, "FlattenExact stepping functions")
    return R, npaths
