"""Result model shared by all rules."""
import hashlib, json, os, re


class AnchorMissing(Exception):
    """An anchor that the rule needs (a public API function named in the property, a type,
    a trait impl) could not be found by identity.  Fail closed."""


class Finding:
    """A violation of a rule at a specific construct.  `key` never contains line numbers."""

    def __init__(self, rule, fn, desc, msg, where=None, detail=None):
        self.rule, self.fn, self.desc, self.msg, self.where, self.detail = rule, fn, desc, msg, where, detail or {}

    @property
    def key(self):
        return "%s/%s/%s" % (self.rule, self.fn, self.desc)

    def to_json(self):
        return {"rule": self.rule, "fn": self.fn, "desc": self.desc, "key": self.key, "msg": self.msg,
                "where": self.where, "detail": self.detail}


class Result:
    def __init__(self, rule):
        self.rule = rule
        self.instances = []      # (fn, what, ok, detail)
        self.findings = []
        self.notes = []
        self.inconclusive = []
        self.floor = None        # (counted, floor)

    def inst(self, fn, what, ok=True, detail=None):
        self.instances.append({"rule": self.rule, "fn": fn, "what": what, "ok": ok, "detail": detail})

    def fail(self, fn, desc, msg, where=None, detail=None, rule=None):
        f = Finding(rule or self.rule, fn, desc, msg, where, detail)
        # de-duplicate by key
        if not any(x.key == f.key for x in self.findings):
            self.findings.append(f)
        return f

    def note(self, msg):
        if msg not in self.notes:
            self.notes.append(msg)

    def inconc(self, fn, why):
        self.inconclusive.append({"rule": self.rule, "fn": fn, "why": why})

    def require_floor(self, n, floor, what):
        """Fail closed when a rule matched fewer sites than were confirmed by hand."""
        self.floor = (n, floor)
        if n < floor:
            self.fail("<rule>", "floor:%s" % what,
                      "rule %s matched %d %s, fewer than the %d confirmed by hand: the anchors moved, the rule would pass vacuously" % (self.rule, n, what, floor))

    @property
    def n_ok(self):
        return sum(1 for i in self.instances if i["ok"] is True)


def merge(results):
    inst, find, notes, inc = [], [], [], []
    for r in results:
        inst += r.instances
        for f in r.findings:
            if not any(x.key == f.key for x in find):
                find.append(f)
        notes += r.notes
        inc += r.inconclusive
    return inst, find, notes, inc


def short_hash(s):
    return hashlib.sha256(s.encode()).hexdigest()[:12]
