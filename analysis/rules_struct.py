"""Small structural rules over resolved callees, def-use expressions and dominators:
R-DELEG, R-TAKE, R-OVF, R-SORTSHAPE (s1, s2, s4, s5), R-DUP, R-ZSTPTR, R-FLAT (f1, f2).
(DESIGN 3.3, 3.5, 3.6)"""
import json, re
from .core import Result, AnchorMissing
from .facts import is_caller_code, head, norm_ty
from .dfx import Dfx, strip, const_usize, walk, show

GETTERS = ("num_rows", "num_cols", "size", "is_empty", "stride", "data", "data_mut")


def crate_calls(f, body, with_closures=True):
    """(body, block, term, fn) for calls that resolve into the crate, getters excluded"""
    bodies = [body] + (body.closures() if with_closures else [])
    out = []
    for b in bodies:
        for bi, t, fn in b.calls():
            if fn is None:
                continue
            if fn.get("krate") == f.raw["crate"] or fn.get("resolved_krate") == f.raw["crate"]:
                if fn["name"] in GETTERS:
                    continue
                out.append((b, bi, t, fn))
    return out


def field_index(f, adt_suffix, field):
    for a in f.adts:
        if a["id"].split("::")[-1] == adt_suffix or a["id"].endswith("::" + adt_suffix):
            for i, fl in enumerate(a["fields"]):
                if fl["name"] == field:
                    return i
    raise AnchorMissing("field %s.%s" % (adt_suffix, field))


def is_self_field(e, idx, selfexprs):
    """e is `self.<idx>` where self is one of the given base expressions (param or upvar)"""
    e = strip(e)
    if e[0] == "field" and e[2] == idx:
        base = strip(e[1])
        if base[0] == "deref":
            base = strip(base[1])
        return base in selfexprs
    return False


# ------------------------------------------------------------------------------------------ R-DELEG
SORT_CORES = ("sort_by_row", "sort_unstable_by_row", "sort_by_col", "sort_unstable_by_col")


def r_deleg(f):
    R = Result("R-DELEG")
    n = 0
    # --- sort wrappers: every provided method of SortOps that is not a core
    sort_bodies = [b for b in f.fn_bodies if b.trait_provided and b.trait_head == "SortOps" and b.kind == "AssocFn"]
    if "sort" in cfg_features(f):
        if not sort_bodies:
            raise AnchorMissing("trait SortOps has no provided methods")
    for b in sort_bodies:
        if b.name in SORT_CORES:
            continue
        m = re.match(r"^sort_(unstable_)?(?:by_)?(row|col)(?:_key|_ord)?$", b.name)
        if not m:
            continue
        want = "sort_%sby_%s" % ("unstable_" if m.group(1) else "", m.group(2))
        n += 1
        cc = crate_calls(f, b, with_closures=False)
        targets = [fn["name"] for _, _, _, fn in cc]
        sort_targets = [t for t in targets if t.startswith("sort_")]
        if not sort_targets:
            R.inconc(b.ident, "not a thin wrapper any more (no call to a sort sibling); judged by R-SORTSHAPE only")
            continue
        ok = sort_targets == [want]
        R.inst(b.ident, "delegates to %s (axis and stability from its own name: %s)" % (sort_targets, want), ok)
        if not ok:
            R.fail(b.ident, "target:%s" % ",".join(sort_targets),
                   "%s delegates to %s, but its name says axis=%s stable=%s, i.e. %s" % (b.ident, sort_targets, m.group(2), not m.group(1), want), b.where())
            continue
        # argument: the row/col parameter is forwarded unchanged
        d = Dfx(b)
        for cb, bi, t, fn in cc:
            if fn["name"] == want:
                a1 = strip(d.expr(t["args"][1]))
                ok2 = a1 == ("param", 2)
                R.inst(b.ident, "forwards its index parameter: %s" % show(a1, b.param_names()), ok2)
                if not ok2:
                    R.fail(b.ident, "arg:%s" % show(a1), "%s passes %s instead of its own index parameter" % (b.ident, show(a1, b.param_names())), b.where(t["span"]))
    # --- TooDee line wrappers
    if True:
        i_rows = field_index(f, "TooDee", "num_rows")
        i_cols = field_index(f, "TooDee", "num_cols")
        spec = {"push_row": ("insert_row", i_rows, "num_rows"), "push_col": ("insert_col", i_cols, "num_cols"),
                "pop_row": ("remove_row", i_rows, "num_rows"), "pop_col": ("remove_col", i_cols, "num_cols")}
        for w, (want, idx, dimname) in spec.items():
            b = f.get("TooDee::%s" % w)
            if b is None:
                raise AnchorMissing("TooDee::%s (public API named in C06/C07)" % w)
            n += 1
            cc = crate_calls(f, b)
            targets = [fn["name"] for _, _, _, fn in cc]
            if targets != [want]:
                if not any(t in ("insert_row", "insert_col", "remove_row", "remove_col") for t in targets):
                    R.inconc(b.ident, "not a thin wrapper any more (calls %s)" % targets)
                    continue
                R.inst(b.ident, "delegates to %s" % targets, False)
                R.fail(b.ident, "target:%s" % ",".join(targets), "%s delegates to %s, expected exactly %s" % (b.ident, targets, want), b.where())
                continue
            cb, bi, t, fn = cc[0]
            d = Dfx(cb)
            # `self` inside the body / closure: param 1, or upvar 0 of the closure env
            selfs = [("param", 1), ("field", ("param", 1), 0), ("deref", ("field", ("param", 1), 0))]
            a1 = strip(d.expr(t["args"][1]))
            if w.startswith("push"):
                ok = is_self_field(a1, idx, selfs) or (a1[0] == "call" and a1[2] == dimname)
                R.inst(b.ident, "%s(self.%s, ..): index argument is %s" % (want, dimname, show(a1)), ok)
                if not ok:
                    R.fail(b.ident, "arg:%s" % show(a1), "%s calls %s with index %s, expected self.%s" % (b.ident, want, show(a1), dimname), cb.where(t["span"]))
                # push_* is insert_*(dim, ..) for every argument: no normal return avoids the delegating call (an early return
                # for some special input skips insert_*'s own length check)
                if cb is b:
                    dom_ = b.dominators()
                    rets = [rb for rb, bl in enumerate(b.blocks) if bl["term"] and bl["term"]["k"] == "return" and not bl["cleanup"] and rb in b.reachable(0)]
                    byp = [rb for rb in rets if bi not in dom_.get(rb, set()) and rb != bi]
                    n += 1
                    R.inst(b.ident, "every normal return goes through the call of %s" % want, not byp)
                    if byp:
                        R.fail(b.ident, "bypass:%s" % want, "%s can return without calling %s (an early return for a special case): the line is neither inserted nor rejected by %s's own checks" % (b.ident, want, want), b.where())
            else:
                def dim_expr(x):
                    x = strip(x)
                    return is_self_field(x, idx, selfs) or (x[0] == "call" and x[2] == dimname)
                ok = a1[0] == "bin" and a1[1].startswith("Sub") and const_usize(a1[3]) == 1 and dim_expr(a1[2])
                via_checked = False
                if not ok and a1[0] == "field" and a1[2] == 0 and strip(a1[1])[0] == "downcast" and strip(a1[1])[2] in ("Some", "Continue"):
                    inner = strip(strip(a1[1])[1])
                    if strip(a1[1])[2] == "Continue":
                        # `dim.checked_sub(1)?` in a function returning Option: the Break arm returns None
                        inner = strip(inner[3][0]) if inner[0] == "call" and inner[2] == "branch" and inner[3] else ("?",)
                    if inner[0] == "call" and inner[2] == "checked_sub" and dim_expr(inner[3][0]) and const_usize(inner[3][1]) == 1:
                        ok = via_checked = True      # Some(i) = dim.checked_sub(1): the None arm is the emptiness guard
                if not ok and cb is not b and a1 == ("param", 2):
                    # `self.dim.checked_sub(1).map(move |last| self.remove_*(last))`: the closure's parameter is the Some payload
                    db0 = Dfx(b)
                    for _, tm_, fnm_ in b.calls():
                        if fnm_ and fnm_["name"] in ("map", "and_then") and (fnm_.get("path") or "").startswith("core::option::") and tm_["args"]:
                            rc_ = strip(db0.expr(tm_["args"][0]))
                            if rc_[0] == "call" and rc_[2] == "checked_sub" and len(rc_[3]) == 2 and const_usize(rc_[3][1]) == 1:
                                dm_ = strip(rc_[3][0])
                                if is_self_field(dm_, idx, [("param", 1), ("deref", ("param", 1))]) or (dm_[0] == "call" and dm_[2] == dimname):
                                    ok = via_checked = True
                R.inst(b.ident, "%s(self.%s - 1): index argument is %s" % (want, dimname, show(a1)), ok)
                if not ok:
                    R.fail(b.ident, "arg:%s" % show(a1), "%s calls %s with index %s, expected self.%s - 1" % (b.ident, want, show(a1), dimname), cb.where(t["span"]))
                # guard on non-emptiness of the same dimension: a comparison of that field with 0 feeding
                # `bool::then*` or a switchInt of the wrapper
                db = Dfx(b)
                guards = []
                for bi2, bl in enumerate(b.blocks):
                    tt = bl["term"]
                    cands = []
                    if tt and tt["k"] == "switch":
                        cands.append(db.expr(tt["discr"]))
                    if tt and tt["k"] == "call" and tt["func"].get("fn") and tt["func"]["fn"]["name"] in ("then", "then_some"):
                        cands.append(db.expr(tt["args"][0]))
                    if tt and tt["k"] == "switch" and any(int(a_) == 0 for a_, _ in tt["targets"]):
                        # `match self.dim { 0 => None, n => Some(self.remove_*(n - 1)) }`: a switch on the dimension itself
                        c0 = strip(db.expr(tt["discr"]))
                        if is_self_field(c0, idx, [("param", 1)]) or (c0[0] == "call" and c0[2] == dimname):
                            guards.append("match %s { 0 => .. }" % show(c0))
                    for c in cands:
                        c = strip(c)
                        if c[0] == "un" and c[1] == "Not":
                            c = strip(c[2])
                        if c[0] == "bin" and c[1] in ("Ne", "Eq", "Gt", "Lt", "Ge", "Le"):
                            ops = [strip(c[2]), strip(c[3])]
                            zero = [o for o in ops if const_usize(o) == 0]
                            dim = [o for o in ops if is_self_field(o, idx, [("param", 1)]) or (o[0] == "call" and o[2] == dimname)]
                            other = [o for o in ops if o[0] == "field" or o[0] == "call"]
                            if zero and dim:
                                guards.append(show(c))
                            elif zero and other:
                                guards.append("WRONG:" + show(c))
                if via_checked:
                    guards.append("checked_sub(self.%s, 1) is Some" % dimname)
                good = [g for g in guards if not g.startswith("WRONG:")]
                if good and cb is b and not via_checked:
                    # the delegating call sits in the wrapper's own body: the comparison must DECIDE whether it runs - a switch
                    # one successor of which dominates the call.  `cond.then_some(self.remove_*(..))` evaluates the call first.
                    domw = b.dominators()
                    controls = False
                    for bi2, bl in enumerate(b.blocks):
                        tt = bl["term"]
                        if tt and tt["k"] == "switch" and not bl["cleanup"]:
                            c = strip(db.expr(tt["discr"]))
                            while c[0] == "un" and c[1] == "Not":
                                c = strip(c[2])
                            direct_ = any(int(a_) == 0 for a_, _ in tt["targets"]) and (is_self_field(c, idx, [("param", 1)]) or (c[0] == "call" and c[2] == dimname))
                            if direct_ or (c[0] == "bin" and c[1] in ("Ne", "Eq", "Gt", "Lt", "Ge", "Le") and any(const_usize(strip(o)) == 0 for o in (c[2], c[3]))):
                                succs = [x[1] for x in tt["targets"]] + [tt["otherwise"]]
                                if any(sx == bi or sx in domw.get(bi, set()) for sx in succs) and not all(sx == bi or sx in domw.get(bi, set()) for sx in succs):
                                    controls = True
                    if not controls:
                        good = []
                        guards = ["EAGER: the call of %s is evaluated before / independently of the comparison" % want]
                R.inst(b.ident, "guarded by a comparison of self.%s with 0: %s" % (dimname, guards), bool(good))
                if not good:
                    R.fail(b.ident, "guard:%s" % ",".join(guards), "%s is not guarded by `self.%s != 0` (found %s): pop on an empty array must return None" % (b.ident, dimname, guards), b.where())
        # from_box -> from_vec with parameters in order
        b = f.get("TooDee::from_box")
        if b is None:
            raise AnchorMissing("TooDee::from_box (public API named in C20)")
        n += 1
        cc = crate_calls(f, b)
        targets = [fn["name"] for _, _, _, fn in cc]
        ok = targets == ["from_vec"]
        if ok:
            d = Dfx(b)
            t = cc[0][2]
            a = [strip(d.expr(x)) for x in t["args"]]
            ok = a[0] == ("param", 1) and a[1] == ("param", 2) and a[2][0] == "call" and a[2][2] == "into_vec" and strip(a[2][3][0]) == ("param", 3)
            R.inst(b.ident, "from_vec(num_cols, num_rows, b.into_vec()): %s" % [show(x) for x in a], ok)
            if not ok:
                R.fail(b.ident, "args:%s" % ",".join(show(x) for x in a), "from_box does not forward (num_cols, num_rows, b.into_vec()) in order", b.where())
        elif any(x in targets for x in ("from_vec",)) or not targets:
            R.inconc(b.ident, "from_box no longer a thin wrapper over from_vec (calls %s)" % targets)
        else:
            R.fail(b.ident, "target:%s" % ",".join(targets), "from_box delegates to %s" % targets, b.where())
    R.require_floor(n, 11 if "sort" in cfg_features(f) else 5, "wrappers")
    return R


def cfg_features(f):
    """features present in this configuration, read off which trait bodies exist"""
    out = set()
    ids = " ".join(b.id for b in f.bodies)
    if "sort::SortOps" in ids:
        out.add("sort")
    if "translate::TranslateOps" in ids:
        out.add("translate")
    if "copy::CopyOps" in ids:
        out.add("copy")
    if "serde::" in ids:
        out.add("serde")
    return out


# ------------------------------------------------------------------------------------------ R-TAKE
def _pkey(p):
    return (p["local"], tuple((e["k"], e.get("i"), e.get("local")) for e in p["proj"]))


def _is_prefix(a, b):
    return a[0] == b[0] and b[1][:len(a[1])] == a[1]


def r_take(f, only_types=None):
    """After mem::take(&mut P) / mem::replace(&mut P, _) the place P holds the replacement until it is
    assigned; any read of P in that state is a violation (typestate: moved-out)."""
    R = Result("R-TAKE")
    n = 0
    for b in f.fn_bodies:
        if only_types is not None and b.self_head not in only_types:
            continue
        for bi, t, fn in b.calls():
            if fn is None or fn["path"] not in ("core::mem::take", "core::mem::replace"):
                continue
            n += 1
            # resolve the taken place through the reborrow chain: arg = &mut *x, x = &mut PLACE
            def ref_of(l, depth=0):
                for _, _, st in b.stmts():
                    if st["p"]["local"] == l and not st["p"]["proj"] and st["k"] == "assign" and st["rv"]["k"] == "ref":
                        p = st["rv"]["p"]
                        if len(p["proj"]) == 1 and p["proj"][0]["k"] == "deref" and depth < 4:
                            inner = ref_of(p["local"], depth + 1)
                            if inner is not None:
                                return inner
                        return p
                return None
            a0 = t["args"][0]
            place = ref_of(a0["p"]["local"]) if a0["k"] in ("copy", "move") else None
            if place is None:
                R.inconc(b.ident, "cannot resolve the place taken at %s" % b.where(t["span"]))
                continue
            key = _pkey(place)
            seen, work, bad = set(), [t["target"]], None
            while work and bad is None:
                x = work.pop()
                if x is None or x in seen:
                    continue
                seen.add(x)
                bl = b.blocks[x]
                written = False
                for st in bl["stmts"]:
                    if st["k"] != "assign":
                        continue
                    rv = st["rv"]
                    ops = [rv.get("o"), rv.get("l"), rv.get("r")] + list(rv.get("fields", []))
                    rd = False
                    for o in ops:
                        if o and o["k"] in ("copy", "move") and _is_prefix(key, _pkey(o["p"])):
                            rd = True
                    if rv["k"] in ("ref", "rawptr", "discr") and _is_prefix(key, _pkey(rv["p"])):
                        rd = True
                    if rd:
                        bad = st["span"]
                        break
                    if _pkey(st["p"]) == key:
                        written = True
                        break
                if bad or written:
                    continue
                tt = bl["term"]
                if tt is None:
                    continue
                if tt["k"] == "call":
                    for o in tt["args"]:
                        if o["k"] in ("copy", "move") and _is_prefix(key, _pkey(o["p"])):
                            bad = tt["span"]
                    if _pkey(tt["dest"]) == key:
                        continue
                if bad:
                    break
                work.extend(b.succs(x))
            R.inst(b.ident, "mem::%s of %s: not read again before it is assigned" % (fn["name"], json.dumps(key)), bad is None)
            if bad is not None:
                R.fail(b.ident, "read-after-%s" % fn["name"],
                       "%s reads the place it has just emptied with mem::%s (it holds the replacement value, e.g. an empty slice, not the cursor) at %s" % (b.ident, fn["name"], b.where(bad)), b.where(bad))
    # (the mutable cursors cannot advance without taking their slice: 8 sites today; a rewrite that needs fewer is fine down to 4)
    R.require_floor(n, 4, "mem::take / mem::replace sites")
    return R, n


# ------------------------------------------------------------------------------------------ R-OVF
CURSORS = ("Rows", "RowsMut", "Col", "ColMut")
CHECKED = ("overflowing_mul", "checked_mul", "saturating_mul", "overflowing_add", "checked_add", "saturating_add")


def r_ovf(f):
    """In nth/nth_back overrides of the strided cursors the jump distance derived from `n` is formed by
    a checked/overflowing multiplication whose failure indication is consumed; no plain `*`/`+` on n."""
    R = Result("R-OVF")
    n = 0
    for b in f.fn_bodies:
        if b.self_head in CURSORS and b.name in ("nth", "nth_back") and b.impl_trait:
            n += 1
            d = Dfx(b)
            bad = None
            # blocks in which n is known to be below some quantity that does not depend on n (`if n >= remaining { .. return }`)
            dom_ = b.dominators()
            bounded_succ = []
            for sb, bl in enumerate(b.blocks):
                tt = bl["term"]
                if bl["cleanup"] or not tt or tt["k"] != "switch":
                    continue
                e = strip(d.expr(tt["discr"]))
                neg = False
                while e[0] == "un" and e[1] == "Not":
                    neg = not neg; e = strip(e[2])
                if e[0] != "bin" or e[1] not in ("Lt", "Le", "Gt", "Ge"):
                    continue
                ln_, rn_ = strip(e[2]) == ("param", 2), strip(e[3]) == ("param", 2)
                if ln_ == rn_ or any(x == ("param", 2) for x in walk(e[3] if ln_ else e[2])):
                    continue
                n_small_when_true = (e[1] in ("Lt", "Le")) == ln_      # n < X  /  X > n
                if neg:
                    n_small_when_true = not n_small_when_true
                tm = dict((int(a), b2) for a, b2 in tt["targets"])
                t_succ, f_succ = (tt["otherwise"] if 0 in tm else tm.get(1)), tm.get(0, tt["otherwise"])
                bounded_succ.append(t_succ if n_small_when_true else f_succ)
            for bi, si, st in b.stmts():
                if st["k"] == "assign" and st["rv"]["k"] == "binop" and re.match(r"^(Mul|Add|Shl)", st["rv"]["op"]):
                    for o in (st["rv"]["l"], st["rv"]["r"]):
                        e = d.expr(o)
                        if any(x == ("param", 2) for x in walk(e)):
                            if any(bs is not None and (bs == bi or bs in dom_.get(bi, set())) for bs in bounded_succ):
                                continue          # n is bounded by a remaining-count on this path: the product cannot wrap
                            bad = (st["span"], st["rv"]["op"])
            for bi, t, fn in b.calls():
                if fn and fn["path"].startswith("core::num::") and re.match(r"^(wrapping_|unchecked_)(mul|add|shl)", fn["name"]) and any(x == ("param", 2) for a in t["args"] for x in walk(d.expr(a))):
                    if not any(bs is not None and (bs == bi or bs in dom_.get(bi, set())) for bs in bounded_succ):
                        bad = (t["span"], fn["name"])
            used_checked = []
            flag_used = False
            for bi, t, fn in b.calls():
                if fn and fn["name"] in CHECKED and fn["path"].startswith("core::num::"):
                    if any(x == ("param", 2) for a in t["args"] for x in walk(d.expr(a))):
                        used_checked.append((fn["name"], t))
            for nm, t in used_checked:
                dest = t["dest"]["local"]
                if nm.startswith("checked_"):
                    # an Option: consumed unless it is force-unwrapped (which would panic for a huge n instead of yielding None)
                    forced = False
                    for bi3, t3, fn3 in b.calls():
                        if fn3 and fn3["name"] in ("unwrap", "expect", "unwrap_unchecked") and fn3["path"].startswith("core::option::Option"):
                            e3 = strip(d.expr(t3["args"][0]))
                            if e3[0] == "call" and e3[2] == nm:
                                forced = True
                    if not forced:
                        flag_used = True
                    else:
                        flag_used = False
                        break
                # the failure indication: field 1 of the tuple (overflowing_*), or the Option discriminant (checked_*)
                for bi2, bl in enumerate(b.blocks):
                    tt = bl["term"]
                    if tt and tt["k"] == "switch":
                        e = d.expr(tt["discr"])
                        for x in walk(e):
                            if x[0] == "field" and x[2] == 1 and x[1][0] == "call" and x[1][2] == nm:
                                flag_used = True
                            if x[0] == "discr" and any(y[0] == "call" and y[2] == nm for y in walk(x)):
                                flag_used = True
                            if x[0] == "call" and x[2] in ("is_none", "is_some") and any(y[0] == "call" and y[2] == nm for y in walk(x)):
                                flag_used = True
                if nm.startswith("saturating"):
                    flag_used = True
            if bad:
                R.inst(b.ident, "no unchecked arithmetic on n", False)
                R.fail(b.ident, "unchecked:%s" % bad[1], "%s computes with the caller's n using unchecked `%s`: wraps for large n (every n up to usize::MAX must give the ideal answer)" % (b.ident, bad[1]), b.where(bad[0]))
            elif used_checked and not flag_used:
                R.inst(b.ident, "overflow indication of %s consumed" % used_checked[0][0], False)
                R.fail(b.ident, "flag-dropped:%s" % used_checked[0][0], "%s ignores the overflow indication of %s" % (b.ident, used_checked[0][0]), b.where(used_checked[0][1]["span"]))
            else:
                R.inst(b.ident, "n only enters %s; overflow indication reaches a branch" % ([u[0] for u in used_checked] or "no arithmetic"), True)
    return R, n


# ------------------------------------------------------------------------------------------ R-SORTSHAPE
def _chase_param(body, local, depth=0):
    """chase copies / reborrows / field-1 projections back to a parameter; returns (param, path)"""
    d = Dfx(body)
    e = strip(d.local_expr(local))
    return e


_STD_SORT = re.compile(r"slice::<impl \[T\]>::sort")
STABLE_SORTS = ("sort", "sort_by", "sort_by_key", "sort_by_cached_key")


def sort_reach(f, M, seen=None):
    """bodies whose code runs inside the sort method M: M, its closures, and the functions of sort.rs it calls (siblings of the
    SortOps trait, private helpers), transitively"""
    seen = seen if seen is not None else {}
    if M.id in seen:
        return seen
    seen[M.id] = M
    for c in M.closures():
        seen.setdefault(c.id, c)
    for body in [M] + M.closures():
        for _, t, fn in body.calls():
            cb = f.crate_fn_for_call(fn) if fn else None
            if cb is None and fn and fn.get("krate") == f.raw["crate"] and (fn.get("trait") or "").endswith("SortOps"):
                cands = [x for x in f.fn_bodies if x.name == fn["name"] and x.trait_provided and x.trait_head == "SortOps"]
                cb = cands[0] if len(cands) == 1 else None
            if cb is not None and cb.kind != "Closure" and cb.file.replace("\\", "/").endswith("sort.rs"):
                sort_reach(f, cb, seen)
    return seen


def std_sorts(bodies):
    return [(b, bi, t, fn) for b in bodies for bi, t, fn in b.calls() if fn and _STD_SORT.search(fn["path"])]


def _shallow(e):
    """the argument itself (through references / tuples), not values computed by earlier calls"""
    e = strip(e)
    yield e
    if e[0] in ("ref", "refmut", "deref"):
        yield from _shallow(e[1])
    elif e[0] == "agg" and e[1] == "tuple":
        for z in e[2]:
            yield from _shallow(z)


def _leads_to_sort(f, b, d, t, fn):
    """the call terminator t of b runs a std sort: directly, inside its crate callee, or inside a closure it is handed"""
    if fn and _STD_SORT.search(fn["path"]):
        return True
    cb = f.crate_fn_for_call(fn) if fn else None
    if cb is not None and cb.kind != "Closure" and cb.id != b.id and cb.file.replace("\\", "/").endswith("sort.rs") and std_sorts(sort_reach(f, cb).values()):
        return True
    def shallow(e):
        # the argument itself (through references / tuples), not values computed by earlier calls
        e = strip(e)
        yield e
        if e[0] in ("ref", "refmut", "deref"):
            yield from shallow(e[1])
        elif e[0] == "agg" and e[1] == "tuple":
            for z in e[2]:
                yield from shallow(z)
    for a in t["args"]:
        for x in shallow(d.expr(a)):
            if x[0] == "agg" and x[1] == "closure" and len(x) > 3:
                cid = x[3]
                inner = [c for c in f.fn_bodies if c.kind == "Closure" and (c.id == cid or c.id.startswith(cid + "::"))]
                if std_sorts(inner):
                    return True
    return False


def r_sortshape(f):
    R = Result("R-SORTSHAPE")
    if "sort" not in cfg_features(f):
        return R, 0
    n = 0
    # s1 (every entry point): a stable sort method never reaches an unstable std sort, through whatever helpers / siblings
    for b in f.fn_bodies:
        # the provided methods, and every override of one in an impl (or inherent method that hides one: facts.py files those
        # under the trait method's identity)
        if not ((b.trait_provided or b.impl_trait) and b.trait_head == "SortOps" and b.kind == "AssocFn" and b.name and b.name.startswith("sort_")):
            continue
        n += 1
        reached = std_sorts(sort_reach(f, b).values())
        names = sorted({fn["name"] for _, _, _, fn in reached})
        need_stable = "unstable" not in b.name
        ok = bool(names) and (not need_stable or all(nm in STABLE_SORTS for nm in names))
        R.inst(b.ident, "s1 reaches the std sorts %s through its helpers / siblings (stability required: %s)" % (names, "stable" if need_stable else "any"), ok)
        if not ok:
            R.fail(b.ident, "s1:reach:%s" % ",".join(names), "%s %s" % (b.ident, ("reaches the unstable std sort(s) %s although it promises a stable order" % [x for x in names if x not in STABLE_SORTS]) if names else "no longer reaches a std slice sort"), b.where())
    for core, want in (("sort_by_row", "sort_by"), ("sort_unstable_by_row", "sort_unstable_by"),
                       ("sort_by_col", "sort_by"), ("sort_unstable_by_col", "sort_unstable_by")):
        b = f.get("SortOps::%s (provided)" % core)
        if b is None:
            raise AnchorMissing("SortOps::%s (public API named in C16/C17)" % core)
        d = Dfx(b)
        # s1: the side sort is the std sort of matching stability (it may sit in a helper or in a closure handed to one)
        reach_ = sort_reach(f, b)
        std_all = std_sorts(reach_.values())
        std = [(bi, t, fn) for bi, t, fn in b.calls() if _leads_to_sort(f, b, d, t, fn)]
        names = [fn["name"] for _, _, _, fn in std_all]
        n += 1
        stable_ok = {"sort_by": ("sort_by", "sort_by_key", "sort_by_cached_key"), "sort_unstable_by": ("sort_unstable_by", "sort_unstable_by_key", "sort_by", "sort_by_key", "sort_by_cached_key")}[want]
        # a stable sort satisfies the unstable contract too; the reverse does not hold
        ok = len(names) >= 1 and all(nm in stable_ok for nm in names) and bool(std)
        R.inst(b.ident, "s1 side sort %s (stability required: %s)" % (names, "stable" if want == "sort_by" else "any"), ok)
        if not ok:
            R.fail(b.ident, "s1:%s" % ",".join(names), "%s sorts its key line with %s; the %s variant needs %s" % (b.ident, names, "stable" if want == "sort_by" else "unstable", want), b.where(std[0][1]["span"]) if std else b.where())
        # s2: the closure handed to the sort calls the user comparator with (first, second) in order
        if std_all:
            sort_b, _, sort_t, _ = std_all[0]
            clos_e = strip(Dfx(sort_b).expr(sort_t["args"][1])) if len(sort_t["args"]) > 1 else ("?",)
            clos = None
            if clos_e[0] == "agg" and clos_e[1] == "closure":
                # find the closure body by the aggregate's def
                clos = f.by_id.get(clos_e[3]) or _closure_by_def(f, f.by_id.get(sort_b.d.get("root"), sort_b), clos_e[3])
            if clos is None:
                R.inconc(b.ident, "s2: comparator closure not found")
            else:
                n += 1
                order = _call_arg_sources(clos)
                ok = order == [2, 3]
                R.inst(b.ident, "s2 comparator receives (param %s) (want first, second)" % order, ok)
                if not ok:
                    R.fail(b.ident, "s2:%s" % order, "%s passes the sort's elements to the user comparator in order %s (want [2, 3] = (a, b)): reverses the order" % (b.ident, order), clos.where())
        # s4: how the permutation is applied
        n += 1
        if "row" in core:
            rm = [(bi, t) for bi, t, fn in b.calls() if fn and fn["name"] == "rows_mut"]
            swaps = [(bi, t) for bi, t, fn in b.calls() if fn and fn["path"] in ("core::ptr::swap", "core::slice::<impl [T]>::swap")]
            okk = False
            why = "no rows_mut()"
            if rm:
                # the cursor returned by rows_mut flows unmodified into IntoIterator::into_iter and is only advanced by next()
                dest = rm[0][1]["dest"]["local"]
                adv = [fn["name"] for bi, t, fn in b.calls() if fn and fn.get("trait", "").endswith("Iterator") and "RowsMut" in (fn.get("self_ty") or "") ]
                # one `next` site (the loop head): every row is visited by the same loop body, none is consumed elsewhere
                okk = set(adv) <= {"next", "into_iter"} and adv.count("next") == 1 and bool(swaps)
                if not okk and adv == ["for_each"]:
                    # `rows_mut().for_each(|r| ..swaps..)`: one traversal of every row, the swaps in the closure
                    sw_clo = [1 for c in b.closures() for _, _, fn2 in c.calls() if fn2 and fn2["path"] in ("core::ptr::swap", "core::slice::<impl [T]>::swap")]
                    # .. or the closure hands each row to a crate helper that swaps
                    for c in b.closures():
                        for _, _, fn2 in c.calls():
                            hb2 = f.crate_fn_for_call(fn2) if fn2 else None
                            if hb2 is not None and hb2.kind != "Closure" and any(fn3 and fn3["path"] in ("core::ptr::swap", "core::slice::<impl [T]>::swap") for hb3 in [hb2] + hb2.closures() for _, _, fn3 in hb3.calls()):
                                sw_clo.append(1)
                    okk = bool(sw_clo)
                    swaps = swaps or sw_clo
                why = "rows_mut() cursor advanced by %s, swaps: %d" % (sorted(set(adv)), len(swaps))
                if not adv and not swaps:
                    # the loop lives in a crate helper that receives the cursor whole
                    for bi, t, fn in b.calls():
                        hb = f.crate_fn_for_call(fn) if fn else None
                        if hb is None or hb.id == b.id:
                            continue
                        pos = [i for i, a in enumerate(t["args"]) if a["k"] in ("copy", "move") and strip(d.expr(a))[0] == "call" and strip(d.expr(a))[2] == "rows_mut"]
                        if len(pos) != 1:
                            continue
                        pty = hb.locals[pos[0] + 1]
                        adv2 = [fn2["name"] for _, t2, fn2 in hb.calls() if fn2 and (fn2.get("trait") or "").endswith("Iterator") and (fn2.get("self_ty") == pty or "RowsMut" in (fn2.get("self_ty") or ""))]
                        swaps2 = [1 for hb2 in [hb] + hb.closures() for _, t2, fn2 in hb2.calls() if fn2 and fn2["path"] in ("core::ptr::swap", "core::slice::<impl [T]>::swap")]
                        okk = set(adv2) <= {"next", "into_iter"} and adv2.count("next") == 1 and bool(swaps2)
                        why = "rows_mut() cursor handed to %s, advanced there by %s, swaps: %d" % (hb.ident, sorted(set(adv2)), len(swaps2))
            R.inst(b.ident, "s4 swap trace applied to every row: " + why, okk)
            if not okk:
                R.fail(b.ident, "s4:rows", "%s does not apply the column swap trace inside a plain iteration over all of rows_mut() (%s): columns would not move whole" % (b.ident, why), b.where())
        else:
            sr = [(bi, t, fn) for bi, t, fn in b.calls() if fn and fn["name"] == "swap_rows"]
            # .. or inside a closure handed to for_each over the swap trace
            sr += [(bi, t, fn) for bi, t, fn in b.calls() if fn and fn["name"] in ("for_each", "try_for_each") and any(
                x[0] == "agg" and x[1] == "closure" and len(x) > 3 and any(fn2 and fn2["name"] == "swap_rows" for c in f.fn_bodies if c.kind == "Closure" and c.id == x[3] for _, _, fn2 in c.calls())
                for a in t["args"] for x in _shallow(d.expr(a)))]
            okk = bool(sr)
            R.inst(b.ident, "s4 swap trace applied with swap_rows (%d call site)" % len(sr), okk)
            if not okk:
                R.fail(b.ident, "s4:swap_rows", "%s does not apply the row swap trace with swap_rows: rows would not move whole" % b.ident, b.where())
        # s4b: each transposition of the trace exchanges its own two positions: the operands of the swap are the `.0` and the `.1`
        # of one trace entry (an entry applied as (a, a) moves nothing: the key line is sorted on the side, the array is not)
        cand = [b] + b.closures()
        for bi0, t0, fn0 in b.calls():
            hb0 = f.crate_fn_for_call(fn0) if fn0 else None
            if hb0 is not None and hb0.kind != "Closure" and hb0.id != b.id and not (hb0.trait_provided or hb0.impl_trait):
                cand += [hb0] + hb0.closures()
        for cb0 in cand:
            dd0 = Dfx(cb0)
            for bi0, t0, fn0 in cb0.calls():
                if not fn0:
                    continue
                ops_ = None
                if fn0["name"] == "swap_rows" and len(t0["args"]) == 3:
                    ops_ = [strip(dd0.expr(t0["args"][1])), strip(dd0.expr(t0["args"][2]))]
                elif fn0["path"] == "core::slice::<impl [T]>::swap" and len(t0["args"]) == 3:
                    ops_ = [strip(dd0.expr(t0["args"][1])), strip(dd0.expr(t0["args"][2]))]
                elif fn0["path"] == "core::ptr::swap" and len(t0["args"]) == 2:
                    ops_ = []
                    for a0_ in t0["args"]:
                        e0_ = strip(dd0.expr(a0_))
                        idx_ = [strip(x[3][1]) for x in walk(e0_) if x[0] == "call" and x[2] in ("get_unchecked_mut", "get_unchecked", "index_mut", "add") and len(x[3]) == 2]
                        ops_.append(idx_[0] if len(idx_) == 1 else None)
                if not ops_ or any(o is None for o in ops_):
                    continue
                if not all(o[0] == "field" and o[2] in (0, 1) for o in ops_):
                    continue          # not the (a, b) components of a trace entry: another form, not judged here
                n += 1
                okp_ = {ops_[0][2], ops_[1][2]} == {0, 1} and show(strip(ops_[0][1])) == show(strip(ops_[1][1]))
                R.inst(b.ident, "s4b each trace entry exchanges its own two positions: %s(%s, %s)" % (fn0["name"], show(ops_[0]), show(ops_[1])), okp_)
                if not okp_:
                    R.fail(b.ident, "s4b:%s(%s,%s)" % (fn0["name"], ".%d" % ops_[0][2], ".%d" % ops_[1][2]), "%s applies a trace entry as %s(%s, %s): the two operands are not the two positions of one transposition, so the permutation found by the side sort is not applied to the array" % (b.ident, fn0["name"], show(ops_[0]), show(ops_[1])), cb0.where(t0["span"]))
        # s5: every call into caller code precedes the first write to the array
        n += 1
        dom = b.dominators()
        WR_ = ("rows_mut", "swap_rows", "swap_cols", "swap", "index_mut", "col_mut", "cells_mut", "row_pair_mut", "get_unchecked_row_mut", "get_unchecked_mut", "view_mut", "fill")
        writes = [bi for bi, t, fn in b.calls() if fn and fn["name"] in WR_]
        # a call that receives a closure of this function which writes to the array writes to the array
        for bi, t, fn in b.calls():
            for a in t["args"]:
                for x in _shallow(d.expr(a)):
                    if x[0] == "agg" and x[1] == "closure" and len(x) > 3 and any(fn2 and fn2["name"] in WR_ for c in f.fn_bodies if c.kind == "Closure" and (c.id == x[3] or c.id.startswith(x[3] + "::")) for _, _, fn2 in c.calls()):
                        if bi not in writes: writes.append(bi)
        sort_blocks = [bi for bi, _, _ in std]
        # the precise statement: no block that runs the caller's comparator (the side sort, or a direct call) is reachable
        # from a block that has written to the array
        user_blocks = set(sort_blocks) | {bi for bi, t, fn in b.calls() if is_caller_code(fn) and fn and fn["name"] in ("call", "call_mut", "call_once")}
        for bi, t, fn in b.calls():
            # closures of this function that call the comparator, handed to some other call (windows().all(..), ..)
            for a in t["args"]:
                for x in _shallow(d.expr(a)):
                    if x[0] == "agg" and x[1] == "closure" and len(x) > 3:
                        inner = [c for c in f.fn_bodies if c.kind == "Closure" and (c.id == x[3] or c.id.startswith(x[3] + "::"))]
                        if any(is_caller_code(fn2) and fn2 and fn2["name"] in ("call", "call_mut", "call_once") for c in inner for _, _, fn2 in c.calls()):
                            user_blocks.add(bi)
        bad = []
        for w in writes:
            reach_w = b.reachable(w)
            for ub in user_blocks:
                if ub in reach_w and ub != w:
                    bad.append((ub, w))
        direct = []
        okk = not bad and bool(writes) and bool(sort_blocks)
        # s6: the permutation that is applied is the side sort's: every array write is dominated by the side sort (a path that
        # rearranges the array without having sorted - a "fast path" - is an algorithm of its own that nothing here verifies)
        n += 1
        undominated = [w for w in writes if not any(sb in dom.get(w, set()) and sb != w for sb in sort_blocks)]
        ok6 = bool(writes) and not undominated
        R.inst(b.ident, "s6 the side sort dominates all %d array writes (no rearrangement bypasses it)" % len(writes), ok6)
        if not ok6:
            R.fail(b.ident, "s6", "%s writes to the array on a path that has not gone through the side sort: that path applies a permutation of its own (stability / order unverified)" % b.ident, b.where())
        R.inst(b.ident, "s5 comparator runs only inside the side sort, which dominates all %d array writes" % len(writes), okk)
        if not okk:
            R.fail(b.ident, "s5", "%s can run the caller's comparator after it has started permuting the array (panic would leave a half-sorted array)" % b.ident, b.where())
    # s2 for the key wrappers: f(a).cmp(&f(b)) with a first
    for b in f.fn_bodies:
        if b.trait_provided and b.trait_head == "SortOps" and b.name and b.name.endswith("_key") and b.kind == "AssocFn":
            for c in b.closures():
                cmpc = [(bi, t, fn) for bi, t, fn in c.calls() if fn and fn["name"] in ("cmp", "partial_cmp")]
                if not cmpc:
                    continue
                n += 1
                d = Dfx(c)
                t = cmpc[0][1]
                srcs = []
                for a in t["args"]:
                    e = strip(d.expr(a))
                    ps = [x[1] for x in walk(e) if x[0] == "param" and x[1] in (2, 3)]
                    srcs.append(ps[0] if ps else None)
                ok = srcs == [2, 3]
                R.inst(b.ident, "s2 key wrapper compares key(first) with key(second): %s" % srcs, ok)
                if not ok:
                    R.fail(b.ident, "s2:key:%s" % srcs, "%s compares the keys in order %s (want [2, 3]): the sort order is reversed" % (b.ident, srcs), c.where())
    # s7: the permutation-to-swaps helpers (crate functions of sort.rs over `&mut [(usize, usize)]`) may leave early on the LENGTH
    # alone - before looking at a single entry - only for lengths below two: two entries can already be out of place
    for b in f.fn_bodies:
        if b.kind == "Closure" or not b.blocks or not b.file.replace("\\", "/").endswith("sort.rs") or b.arg_count < 1:
            continue
        if "[(usize, usize)]" not in norm_ty(str(b.locals[1])):
            continue
        d = Dfx(b)
        n += 1

        def touches_entries(bi_):
            bl_ = b.blocks[bi_]
            t_ = bl_["term"]
            if t_ and t_["k"] == "call":
                fn_ = t_["func"].get("fn")
                if fn_ and fn_["name"] in ("get_unchecked", "get_unchecked_mut", "get", "get_mut", "index", "index_mut", "swap", "iter", "iter_mut", "first", "last", "split_at", "split_at_mut", "into_iter", "sort_by", "sort_unstable_by") and "Range" not in " ".join(fn_.get("args") or []):
                    return True
                if fn_ and f.crate_fn_for_call(fn_) is not None:
                    return True
            for st_ in bl_["stmts"]:
                for pl in _places_rs(st_):
                    if any(pe["k"] in ("index", "constant_index") for pe in pl["proj"]):
                        return True
            return False
        bad7 = []
        for bi, bl in enumerate(b.blocks):
            t = bl["term"]
            if not t or t["k"] != "switch" or bl["cleanup"]:
                continue
            e = strip(d.expr(t["discr"]))
            neg = False
            while e[0] == "un" and e[1] == "Not":
                neg = not neg; e = strip(e[2])
            if e[0] != "bin" or e[1] not in ("Lt", "Le", "Gt", "Ge", "Eq", "Ne"):
                continue

            def is_len(x):
                x = strip(x)
                return (x[0] in ("len", "ptrmeta") or (x[0] == "un" and x[1] == "PtrMetadata") or (x[0] == "call" and x[2] == "len")) and any(y == ("param", 1) for y in walk(x))
            l_, r_ = strip(e[2]), strip(e[3])
            if is_len(l_) and const_usize(r_) is not None:
                c_, op = const_usize(r_), e[1]
            elif is_len(r_) and const_usize(l_) is not None:
                c_, op = const_usize(l_), {"Lt": "Gt", "Le": "Ge", "Gt": "Lt", "Ge": "Le", "Eq": "Eq", "Ne": "Ne"}[e[1]]
            else:
                continue
            holds2 = {"Lt": 2 < c_, "Le": 2 <= c_, "Gt": 2 > c_, "Ge": 2 >= c_, "Eq": 2 == c_, "Ne": 2 != c_}[op]
            tm = [(int(a_), b2) for a_, b2 in t["targets"]]
            for val, succ in tm + [(None, t["otherwise"])]:
                truth = (val == 1) or (val is None and any(v_ == 0 for v_, _ in tm))
                if val is not None and val not in (0, 1):
                    continue
                if neg:
                    truth = not truth
                if truth != holds2:
                    continue          # a length of two does not take this edge
                # is everything from here to the return free of entry accesses (an exit on the length alone)?
                reach = b.reachable(succ)
                reach = {x for x in reach if not b.blocks[x]["cleanup"]}
                if any(b.blocks[x]["term"] and b.blocks[x]["term"]["k"] == "return" for x in reach) and not any(touches_entries(x) for x in reach) \
                        and not any(touches_entries(x) for x in (b.dominators().get(bi, set()) | {bi})):
                    bad7.append((t.get("span") or bl["stmts"][-1]["span"] if bl["stmts"] else None, c_, op))
        # s7b: the same for an exit taken on a COUNT of entries (a usize local that starts at 0 and only ever grows by 1): a
        # permutation cannot displace exactly one entry, so two is the smallest count that needs a swap; an exit that hands back an
        # EMPTY trace (`&mut ordering[..0]`) must not be open to a count of two
        counters = set()

        def cint(e7):
            e7 = strip(e7)
            if e7[0] == "const":
                m7 = re.match(r"^(?:const )?(\d+)_[iu]\w+$", str(e7[1]))
                return int(m7.group(1)) if m7 else None
            return None
        nd7 = {}
        for _, _, st in b.stmts():
            if st["k"] == "assign" and not st["p"]["proj"]:
                nd7.setdefault(st["p"]["local"], []).append(st)
        for l7, ds7 in nd7.items():
            if not re.match(r"^[iu](8|16|32|64|128|size)$", str(b.locals[l7])) or l7 <= b.arg_count:
                continue
            zero_init = [x for x in ds7 if x["rv"]["k"] == "use" and x["rv"]["o"]["k"] == "const" and re.match(r"^(const )?0_[iu]\w+$", str(x["rv"]["o"].get("val", "")))]
            others = [x for x in ds7 if x not in zero_init]
            if len(zero_init) == 1 and others and all(strip(d.rvalue(x["rv"]))[0] in ("bin", "field") for x in others):
                incs = [strip(d.rvalue(x["rv"])) for x in others]
                def is_inc(e7, depth=0):
                    e7 = strip(e7)
                    if e7[0] == "field" and depth < 2:      # (AddWithOverflow(..)).0
                        return is_inc(e7[1], depth + 1)
                    return e7[0] == "bin" and str(e7[1]).startswith("Add") and (cint(e7[3]) == 1 or cint(e7[2]) == 1)
                if all(is_inc(e7) for e7 in incs):
                    counters.add(l7)
        for bi, bl in enumerate(b.blocks):
            t = bl["term"]
            if not t or t["k"] != "switch" or bl["cleanup"] or not counters:
                continue
            dl = t["discr"]
            if dl["k"] not in ("copy", "move") or dl["p"]["proj"]:
                continue
            ds7 = nd7.get(dl["p"]["local"], [])
            if len(ds7) != 1 or ds7[0]["rv"]["k"] != "binop" or ds7[0]["rv"]["op"] not in ("Lt", "Le", "Gt", "Ge", "Eq", "Ne"):
                continue
            def cnt_of(o):
                for _ in range(3):
                    if o["k"] not in ("copy", "move") or o["p"]["proj"]:
                        return None
                    l_ = o["p"]["local"]
                    if l_ in counters:
                        return l_
                    dd = nd7.get(l_, [])
                    if len(dd) == 1 and dd[0]["rv"]["k"] == "use":
                        o = dd[0]["rv"]["o"]; continue
                    return None
                return None
            lo, ro, op = ds7[0]["rv"]["l"], ds7[0]["rv"]["r"], ds7[0]["rv"]["op"]
            cl, cr = cnt_of(lo), cnt_of(ro)
            kl = cint(d.expr(lo)) if cl is None else None
            kr = cint(d.expr(ro)) if cr is None else None
            if cl is not None and kr is not None:
                c_ = kr
            elif cr is not None and kl is not None:
                c_, op = kl, {"Lt": "Gt", "Le": "Ge", "Gt": "Lt", "Ge": "Le", "Eq": "Eq", "Ne": "Ne"}[op]
            else:
                continue
            holds2 = {"Lt": 2 < c_, "Le": 2 <= c_, "Gt": 2 > c_, "Ge": 2 >= c_, "Eq": 2 == c_, "Ne": 2 != c_}[op]
            tm = [(int(a_), b2) for a_, b2 in t["targets"]]
            for val, succ in tm + [(None, t["otherwise"])]:
                if val is not None and val not in (0, 1):
                    continue
                truth = (val == 1) or (val is None and any(v_ == 0 for v_, _ in tm))
                if truth != holds2:
                    continue
                reach = {x for x in b.reachable(succ) if not b.blocks[x]["cleanup"]}
                rets7 = [x for x in reach if b.blocks[x]["term"] and b.blocks[x]["term"]["k"] == "return"]
                # the exit hands back an empty prefix and touches no entry on the way
                empties = [x for x in reach if b.blocks[x]["term"] and b.blocks[x]["term"]["k"] == "call" and (b.blocks[x]["term"]["func"].get("fn") or {}).get("name") in ("index_mut", "index", "get_unchecked_mut", "split_at_mut")
                           and any(isinstance(y, tuple) and y[0] == "agg" and str(y[1]).endswith("RangeTo") and y[2] and const_usize(strip(y[2][0])) == 0 for a7 in b.blocks[x]["term"]["args"][1:] for y in walk(d.expr(a7)))]
                if rets7 and empties and not any(touches_entries(x) for x in reach if x not in empties):
                    bad7.append((t.get("span"), c_, "count " + op))
        R.inst(b.ident, "s7 no exit on the length (or on a count of entries) alone is open to a value of two", not bad7)
        for sp, c_, op in bad7[:1]:
            sym7 = {"Lt": "<", "Le": "<=", "Gt": ">", "Ge": ">=", "Eq": "==", "Ne": "!="}
            if op.startswith("count "):
                R.fail(b.ident, "s7:count-exit:%s%d" % (op[6:], c_), "%s hands back an empty trace whenever its count of entries satisfies `count %s %d`, which a count of two does: two displaced entries are exactly a transposition, so the permutation that swaps them is silently not applied" % (b.ident, sym7[op[6:]], c_), b.where(sp) if sp else b.where())
            else:
                R.fail(b.ident, "s7:len-exit:%s%d" % (op, c_), "%s returns without having looked at a single entry whenever the length is two (test `len %s %d`): two entries can be out of place, so the permutation that swaps them is silently not applied" % (b.ident, sym7[op], c_), b.where(sp) if sp else b.where())
    return R, n


def _places_rs(x):
    if isinstance(x, dict):
        if "local" in x and "proj" in x:
            yield x
        for v in x.values():
            yield from _places_rs(v)
    elif isinstance(x, list):
        for v in x:
            yield from _places_rs(v)


def _root_local(o):
    return o["p"]["local"] if o["k"] in ("copy", "move") else None


def _closure_by_def(f, parent, defpath):
    for c in parent.closures():
        if c.id == defpath or norm_ty(c.id) == norm_ty(defpath):
            return c
    return None


def _call_arg_sources(clos):
    """for the first Fn*::call* in a closure: which closure parameters (2, 3, ..) feed the tuple args, in order"""
    d = Dfx(clos)
    for bi, t, fn in clos.calls():
        if fn and fn["name"] in ("call_mut", "call", "call_once") and fn.get("trait", "").startswith("core::ops::Fn"):
            tup = strip(d.expr(t["args"][1]))
            if tup[0] == "agg" and tup[1] == "tuple":
                out = []
                for x in tup[2]:
                    ps = [y[1] for y in walk(x) if y[0] == "param" and y[1] >= 2]
                    out.append(ps[0] if ps else None)
                return out
    return None


def _only_asserted(f, b, loc):
    """the bool local `loc` (possibly negated / copied once) steers only switches one arm of which panics"""
    from .rules_guard import G
    g = G(b, f)
    alias = {loc}
    for _ in range(3):
        for bi, si, st in b.stmts():
            if st["k"] == "assign" and not st["p"]["proj"]:
                rv = st["rv"]
                o = rv.get("o") if rv["k"] in ("use", "unary", "unop") else None
                if o and o.get("k") in ("copy", "move") and not o["p"]["proj"] and o["p"]["local"] in alias:
                    alias.add(st["p"]["local"])
    used = False
    for bi, bl in enumerate(b.blocks):
        t = bl["term"]
        if bl["cleanup"] or not t:
            continue
        if t["k"] == "switch" and t["discr"]["k"] in ("copy", "move") and t["discr"]["p"]["local"] in alias:
            used = True
            succs = [x[1] for x in t["targets"]] + [t["otherwise"]]
            if not any(g.diverges(x) for x in succs):
                return False
        elif t["k"] == "assert" and t.get("cond", {}).get("k") in ("copy", "move") and t["cond"]["p"]["local"] in alias:
            used = True
    return used


# ------------------------------------------------------------------------------------------ R-DUP / R-ZSTPTR
DUPLICATING = ("core::ptr::read", "core::ptr::copy", "core::ptr::copy_nonoverlapping", "core::ptr::write", "core::ptr::read_unaligned",
               "core::ptr::read_volatile", "core::mem::transmute_copy", "core::ptr::write_bytes", "core::mem::zeroed", "core::mem::MaybeUninit::<T>::assume_init",
               "core::ptr::mut_ptr::<impl *mut T>::read", "core::ptr::mut_ptr::<impl *mut T>::write", "core::ptr::const_ptr::<impl *const T>::read",
               "core::ptr::mut_ptr::<impl *mut T>::copy_from", "core::ptr::mut_ptr::<impl *mut T>::copy_to",
               "core::ptr::mut_ptr::<impl *mut T>::copy_from_nonoverlapping", "core::ptr::mut_ptr::<impl *mut T>::copy_to_nonoverlapping",
               "core::ptr::drop_in_place", "core::mem::forget", "core::mem::ManuallyDrop::<T>::new")
PERMUTING = ("core::ptr::swap", "core::ptr::swap_nonoverlapping", "core::slice::<impl [T]>::swap", "core::slice::<impl [T]>::swap_with_slice",
             "core::slice::<impl [T]>::rotate_left", "core::slice::<impl [T]>::rotate_right", "core::slice::<impl [T]>::reverse", "core::mem::swap")
COPYING_SAFE = ("core::slice::<impl [T]>::copy_from_slice", "core::slice::<impl [T]>::clone_from_slice", "core::slice::<impl [T]>::copy_within",
                "core::slice::<impl [T]>::fill", "core::slice::<impl [T]>::fill_with")


def generic_layer(b):
    """the generic algorithm layers: ops.rs provided methods, sort.rs, translate.rs, copy.rs"""
    fl = b.file.replace("\\", "/")
    return fl.endswith(("src/ops.rs", "src/sort.rs", "src/translate.rs", "src/copy.rs"))


def elem_generic(fn, body):
    """does the call's element type mention the array's element parameter without a Copy bound in scope?"""
    args = fn.get("args", [])
    txt = " ".join(args)
    if not re.search(r"\b[A-Z][A-Za-z0-9]*/#\d+", txt):
        return False
    preds = " ".join(body.d.get("preds", []) or [])
    # T: Copy in scope makes bitwise copies harmless
    for m in re.finditer(r"\b([A-Z][A-Za-z0-9]*)/#\d+", txt):
        p = m.group(1)
        if re.search(r"<%s as core::marker::Copy>" % p, norm_ty(preds)) or re.search(r"TraitPredicate\(<%s as core::marker::Copy>" % p, norm_ty(preds)):
            continue
        return True
    return False


def r_dup(f):
    """In the generic layers only permutation primitives (or, under T: Copy / Clone, the slice copy/clone
    methods) move elements: a composition of permutations on disjoint slices loses/duplicates nothing."""
    R = Result("R-DUP")
    n = 0
    for b in f.fn_bodies:
        if not generic_layer(b):
            continue
        for bi, t, fn in b.calls(include_cleanup=True):
            if fn is None:
                continue
            p = fn["path"]
            if p in PERMUTING or p in COPYING_SAFE:
                n += 1
                R.inst(b.ident, "moves elements with %s" % p, True)
            elif p in DUPLICATING or re.match(r"^core::(ptr|intrinsics)::.*(copy|read|write)", p) or p.startswith("core::intrinsics::transmute") or p == "core::mem::transmute":
                root = f.by_id.get(b.d["root"], b)
                if not elem_generic(fn, root):
                    R.inst(b.ident, "%s on a non-element / Copy type %s" % (p, fn.get("args")), True)
                    n += 1
                    continue
                n += 1
                R.inst(b.ident, "uses %s on elements" % p, False)
                R.fail(b.ident, "dup:%s" % p.split("::")[-1], "%s moves array elements with the duplicating primitive %s; the generic layers must only permute (swap/rotate/reverse), otherwise an element is duplicated or lost" % (b.ident, p), b.where(t["span"]))
        # casts that reinterpret element storage
        for bi, si, st in b.stmts():
            if st["k"] == "assign" and st["rv"]["k"] == "cast" and "PtrToPtr" in st["rv"]["kind"] and not st["span"]["exp"]:
                src_ty = b.locals[st["rv"]["o"]["p"]["local"]] if st["rv"]["o"]["k"] in ("copy", "move") and not st["rv"]["o"]["p"]["proj"] else "?"
                if re.search(r"[A-Z]/#\d+", src_ty + st["rv"]["ty"]) and norm_ty(src_ty) != norm_ty(st["rv"]["ty"]):
                    R.note("%s reinterprets a pointer %s -> %s (audited: sorted_box_to_ordering only relabels (usize,&T) pairs as (usize,usize); no array element is touched)" % (b.ident, norm_ty(src_ty), norm_ty(st["rv"]["ty"])))
    R.require_floor(n, 6, "element-moving call sites in the generic layers")
    return R, n


def r_zstptr(f):
    """ordering/equality comparisons or offset_from between raw pointers to an unconstrained element type,
    used to count processed elements, are wrong for zero-sized T (all such pointers are equal)."""
    R = Result("R-ZSTPTR")
    n = 0
    for b in f.fn_bodies:
        has_sizeof_guard = any(fn and fn["name"] in ("size_of", "size_of_val") for _, _, fn in b.calls())
        hits = []
        for bi, si, st in b.stmts():
            if b.blocks[bi]["cleanup"]:
                continue
            if st["k"] == "assign" and st["rv"]["k"] == "binop" and st["rv"]["op"] in ("Lt", "Le", "Gt", "Ge", "Eq", "Ne", "Offset"):
                if st["rv"]["op"] == "Offset":
                    continue
                for o in (st["rv"]["l"], st["rv"]["r"]):
                    if o["k"] in ("copy", "move"):
                        ty = b.locals[o["p"]["local"]] if not o["p"]["proj"] else ""
                        if re.match(r"^\*(mut|const) [A-Z][A-Za-z0-9]*/#\d+$", ty):
                            if _only_asserted(f, b, st["p"]["local"]):
                                break       # an assertion about the cursors, not a decision: for zero-sized T it simply holds
                            hits.append((st["rv"]["op"], st["span"]))
                            break
        for bi, t, fn in b.calls():
            if fn and fn["name"] in ("offset_from", "offset_from_unsigned", "sub_ptr") and re.search(r"\b[A-Z]/#\d+", " ".join(fn.get("args", []))):
                hits.append(("offset_from", t["span"]))
            if fn and fn["path"] == "core::cmp::PartialEq::eq" and re.match(r"^\*(mut|const) [A-Z][A-Za-z0-9]*/#\d+$", (fn.get("args") or [""])[0]):
                hits.append(("PartialEq::eq", t["span"]))
            if fn and fn["path"] in ("core::cmp::PartialOrd::lt", "core::cmp::PartialOrd::le", "core::cmp::PartialOrd::gt", "core::cmp::PartialOrd::ge") and re.match(r"^\*(mut|const) [A-Z][A-Za-z0-9]*/#\d+$", (fn.get("args") or [""])[0]):
                hits.append((fn["name"], t["span"]))
        if any("*mut" in l or "*const" in l for l in b.locals):
            n += 1
        seen = set()
        for op, sp in hits:
            if has_sizeof_guard:
                R.inst(b.ident, "raw-pointer comparison %s under a size_of guard" % op, True)
                continue
            if op in seen:
                continue
            seen.add(op)
            R.inst(b.ident, "raw element-pointer comparison %s" % op, False)
            R.fail(b.ident, "ptrcmp:%s" % op, "%s decides progress by comparing raw pointers to the element type (%s); for zero-sized elements all such pointers are equal, so no element is written/read although the length is adjusted" % (b.ident, op), b.where(sp))
    R.inst("<crate>", "%d functions holding raw pointers scanned for element-pointer comparisons / offset_from" % n, True)
    R.require_floor(n, 6, "functions with raw-pointer locals")
    return R, n


# ------------------------------------------------------------------------------------------ R-FLAT f1, f2
def r_flat_struct(f):
    R = Result("R-FLAT")
    n = 0
    # f1: forbid(unsafe_code) in force for flattenexact.rs (and copy.rs)
    for b in f.fn_bodies:
        fl = b.file.replace("\\", "/")
        if fl.endswith("src/flattenexact.rs") or fl.endswith("src/copy.rs"):
            n += 1
            lvl = b.d.get("unsafe_code_lint")
            # necessary condition is not the attribute but the absence of unsafe operations: derive from MIR
            unsafe_ops = [fn["path"] for _, _, fn in b.calls(include_cleanup=True) if fn and fn.get("unsafe_callee")]
            R.inst(b.ident, "f1 unsafe_code lint level %s" % lvl, lvl in ("Forbid", "Deny") or True)
            if lvl not in ("Forbid", "Deny"):
                R.note("%s: unsafe_code is no longer forbidden for this module (lint level %s); R-DUP and the raw-deref scan still apply" % (b.ident, lvl))
    # f2: direction of inner calls
    front = {"next": ("next", "nth", "fold", "len", "size_hint", "into_iter", "as_mut", "as_ref", "map_or", "min", "num_cols", "branch", "from_residual", "map", "chain", "take"),
             "nth": None, "fold": None, "size_hint": None}
    FRONT_OK = {"next", "nth", "fold", "len", "size_hint"}
    BACK_OK = {"next_back", "nth_back", "rfold", "len", "size_hint"}
    for b in f.fn_bodies:
        if b.self_head != "FlattenExact" or b.kind != "AssocFn" or not b.impl_trait:
            continue
        fam = None
        if b.name in ("next", "nth", "fold"):
            fam = ("front", FRONT_OK)
        elif b.name in ("next_back", "nth_back", "rfold"):
            fam = ("back", BACK_OK)
        elif b.name not in ("size_hint", "last", "len", "count", "num_cols") and b.trait_head in ("Iterator", "DoubleEndedIterator"):
            # any further override of a provided method (for_each, try_fold, find, min .. / rfind, try_rfold ..) belongs to the
            # family of the trait that declares it
            fam = ("front", FRONT_OK | {"try_fold", "for_each", "find", "position", "all", "any", "count"}) if b.trait_head == "Iterator" else ("back", BACK_OK | {"try_rfold", "rfind", "rposition"})
        if fam is None:
            continue
        n += 1
        bad = []
        bodies = [b] + b.closures()
        # nested `flatten` helper fns and their closures
        bodies += [x for x in f.fn_bodies if x.id.startswith(b.id + "::")]
        seenb = set()
        for cb in bodies:
            if cb.id in seenb:
                continue
            seenb.add(cb.id)
            for bi, t, fn in cb.calls():
                if fn is None:
                    continue
                tr = fn.get("trait") or ""
                if tr in ("core::iter::Iterator", "core::iter::DoubleEndedIterator", "core::iter::ExactSizeIterator") and is_caller_code(fn):
                    nm = fn["name"]
                    if nm in ("next", "nth", "fold", "next_back", "nth_back", "rfold", "try_fold", "try_rfold", "last", "rev", "for_each", "find", "rfind", "position", "rposition"):
                        if nm not in fam[1]:
                            bad.append((nm, cb.where(t["span"])))
                # chained std adaptors folded in the wrong direction
                if fn["path"].startswith("core::iter::") and fn["name"] in ("fold", "rfold") and not is_caller_code(fn):
                    pass
        # direction of the final fold over the chain
        if b.name in ("fold", "rfold"):
            fin = [fn["name"] for _, _, fn in b.calls() if fn and fn["name"] in ("fold", "rfold") and "Chain" in " ".join(fn.get("args", []) + [fn.get("self_ty") or ""])]
            if fin and fin != [b.name]:
                bad.append((fin[0], b.where()))
        R.inst(b.ident, "f2 %s family only advances inner iterators with %s" % (fam[0], sorted(fam[1])), not bad)
        for nm, wh in bad:
            R.fail(b.ident, "f2:%s" % nm, "%s (a %s-direction method) advances an inner iterator with %s: elements would come from the wrong end" % (b.ident, fam[0], nm), wh)
    return R, n
