"""Value graph core (DESIGN 1, engine vgraph): canonical polynomials over named atoms, slice intervals relative to
an entry slice, references to places, tuples / ADTs, gamma values for Option-returning primitives, path
conditions `poly op 0` with a three-valued decision procedure (lookup + a fixed set of implications; no solver).
Only loop-free bodies are evaluated path-wise with these values."""
import re

# ---------- polynomials over string atoms ----------
class Poly:
    __slots__ = ("t",)
    def __init__(self, t=None):
        self.t = {k: v for k, v in (t or {}).items() if v != 0}
    @staticmethod
    def const(c): return Poly({(): c})
    @staticmethod
    def atom(a): return Poly({(a,): 1})
    def __add__(s, o):
        t = dict(s.t)
        for k, v in o.t.items(): t[k] = t.get(k, 0) + v
        return Poly(t)
    def __neg__(s): return Poly({k: -v for k, v in s.t.items()})
    def __sub__(s, o): return s + (-o)
    def __mul__(s, o):
        t = {}
        for k1, v1 in s.t.items():
            for k2, v2 in o.t.items():
                k = tuple(sorted(k1 + k2)); t[k] = t.get(k, 0) + v1 * v2
        return Poly(t)
    def zero_atom(s, a): return Poly({k: v for k, v in s.t.items() if a not in k})
    def is_const(s): return all(k == () for k in s.t)
    def cval(s): return s.t.get((), 0)
    def key(s): return tuple(sorted(s.t.items()))
    def __eq__(s, o): return isinstance(o, Poly) and s.key() == o.key()
    def __hash__(s): return hash(s.key())
    def __repr__(s):
        if not s.t: return "0"
        parts = []
        for k, v in sorted(s.t.items()):
            m = "*".join(k) if k else ""
            if m == "": parts.append(str(v))
            elif v == 1: parts.append(m)
            elif v == -1: parts.append("-" + m)
            else: parts.append("%d*%s" % (v, m))
        return " + ".join(parts).replace("+ -", "- ")
ZERO = Poly(); ONE = Poly.const(1)

# ---------- values ----------
class Slice:
    def __init__(s, lo, hi): s.lo, s.hi = lo, hi
    def len(s): return s.hi - s.lo
    def canon(s):
        return "EMPTY" if s.len() == ZERO else "[%r, %r)" % (s.lo, s.hi)
    __repr__ = canon
class Elem:
    def __init__(s, off): s.off = off
    def __repr__(s): return "elem@%r" % (s.off,)
class RefTo:
    def __init__(s, root, path): s.root, s.path = root, tuple(path)
    def __repr__(s): return "&place(%s%s)" % (s.root, "".join(".%d" % i for i in s.path))
class Tup:
    def __init__(s, f): s.f = list(f)
    def __repr__(s): return "(" + ", ".join(map(repr, s.f)) + ")"
class Adt:
    def __init__(s, name, variant, f): s.name, s.variant, s.f = name, variant, list(f)
    def __repr__(s): return "%s(%s)" % (s.variant, ", ".join(map(repr, s.f)))
class Cond:  # poly op 0, or opaque boolean atom
    def __init__(s, op, poly=None, atom=None): s.op, s.poly, s.atom = op, poly, atom
    def neg(s):
        if s.op == "atom": return Cond("natom", atom=s.atom)
        if s.op == "natom": return Cond("atom", atom=s.atom)
        return Cond({"==": "!=", "!=": "==", "<": ">=", ">=": "<", ">": "<=", "<=": ">"}[s.op], s.poly)
    def key(s): return (s.op, s.poly.key() if s.poly is not None else None, s.atom)
    def __repr__(s): return ("%s%s" % ("!" if s.op == "natom" else "", s.atom)) if s.atom else "%r %s 0" % (s.poly, s.op)
class Gamma:
    def __init__(s, cond, a, b): s.cond, s.a, s.b = cond, a, b
    def __repr__(s): return "γ(%r ? %r : %r)" % (s.cond, s.a, s.b)
class Unknown:
    def __init__(s, tag): s.tag = tag
    def __repr__(s): return "?" + s.tag
EMPTY = Slice(ZERO, ZERO)

class Inconclusive(Exception): pass

def strip_ref(ty):
    m = re.match(r"^&'\{erased\} (mut )?(.*)$", ty) or re.match(r"^&'[a-z_]+(?:/#\d+)? (mut )?(.*)$", ty)
    return m.group(2) if m else None

class Path:
    def __init__(s, env, mem, conds, actions): s.env, s.mem, s.conds, s.actions = env, mem, conds, actions
    def fork(s):
        return Path(dict(s.env), {k: list(v) for k, v in s.mem.items()}, list(s.conds), list(s.actions))

def facts_about(conds, p):
    """collect ops known for `p op 0` from path facts (also from facts about -p)"""
    ops = set()
    flip = {"<": ">", ">": "<", "<=": ">=", ">=": "<=", "==": "==", "!=": "!="}
    for k in conds:
        if k.poly is None: continue
        if k.poly == p: ops.add(k.op)
        elif (-k.poly) == p: ops.add(flip[k.op])
    return ops
def decide(conds, c):
    if c.op in ("atom", "natom"):
        for k in conds:
            if k.atom == c.atom and k.op in ("atom", "natom"): return k.op == c.op
        return None
    p = c.poly
    if p.is_const():
        v = p.cval(); return {"==": v == 0, "!=": v != 0, "<": v < 0, "<=": v <= 0, ">": v > 0, ">=": v >= 0}[c.op]
    ops = facts_about(conds, p)
    # strengthen: >= & != -> > ; <= & != -> <
    if ">=" in ops and "!=" in ops: ops.add(">")
    if "<=" in ops and "!=" in ops: ops.add("<")
    if "==" in ops: ops |= {"<=", ">="}
    if "<" in ops: ops |= {"<=", "!="}
    if ">" in ops: ops |= {">=", "!="}
    if c.op in ops: return True
    neg = {"==": "!=", "!=": "==", "<": ">=", ">=": "<", ">": "<=", "<=": ">"}[c.op]
    if neg in ops: return False
    # integer reasoning: p < 0  <=>  p + 1 <= 0
    if c.op == "<" :
        o2 = facts_about(conds, p + ONE)
        if "<=" in o2 or "<" in o2 or "==" in o2: return True
    if c.op == "<=":
        o2 = facts_about(conds, p - ONE)
        if "<" in o2: return True
    if c.op in (">=", "<"):
        # p >= 0  <=>  p + 1 > 0 ; with q = p + 1 known as (q > 0) or (q >= 0 and q != 0)
        o2 = facts_about(conds, p + ONE)
        if ">=" in o2 and "!=" in o2: o2.add(">")
        if ">" in o2: return c.op == ">="
    if c.op in (">", "<="):
        # p > 0  <=>  p - 1 >= 0
        o2 = facts_about(conds, p - ONE)
        if ">=" in o2 or ">" in o2 or "==" in o2: return c.op == ">"
    return None



def _norm_fact(k):
    """fact as (poly, strict) meaning poly < 0 (strict) or poly <= 0; equalities give two facts"""
    if k.poly is None:
        return []
    p = k.poly
    if k.op == "<": return [(p, True)]
    if k.op == "<=": return [(p, False)]
    if k.op == ">": return [(-p, True)]
    if k.op == ">=": return [(-p, False)]
    if k.op == "==": return [(p, False), (-p, False)]
    return []


def saturate(conds, rounds=1, cap=400):
    """bounded saturation: integer tightening (p < 0 => p + 1 <= 0) and pairwise sums of inequality facts.
    Returns conds plus the derived facts (a fixed, terminating procedure; no solver)."""
    base = []
    for k in conds:
        base += _norm_fact(k)
    # integer tightening: p < 0  <=>  p + 1 <= 0 ; keep both forms
    facts = []
    seen = set()

    def add(p, strict):
        key = (p.key(), strict)
        if key in seen:
            return
        seen.add(key)
        facts.append((p, strict))
    for p, s in base:
        add(p, s)
        if s:
            add(p + ONE, False)
    cur = list(facts)
    for _ in range(rounds):
        new = []
        for i in range(len(cur)):
            for j in range(i + 1, len(cur)):
                p = cur[i][0] + cur[j][0]
                if len(p.t) > 6 or not p.t:
                    continue
                s = cur[i][1] or cur[j][1]
                key = (p.key(), s)
                if key not in seen:
                    seen.add(key)
                    new.append((p, s))
                if len(new) > cap:
                    break
            if len(new) > cap:
                break
        cur = cur + new
    out = list(conds)
    for p, s in cur:
        out.append(Cond("<" if s else "<=", p))
    return out
