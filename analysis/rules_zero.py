"""R-ZERO - both-or-neither-zero (DESIGN 3.2): enumerative predicate abstraction over {v == 0} for the
values that end up as dimensions; the obligation rows==0 <=> cols==0 is checked at every aggregate
construction of an array type, at every return of a dimension-field writer, at the tuple returned by
dimension helpers (summaries, computed - not assumed), and (t4) at calls of asserting constructors
from the deserialiser."""
import itertools, re
from .core import Result, AnchorMissing
from .facts import head, norm_ty

ARR_NAMES = ("TooDee", "TooDeeView", "TooDeeViewMut")


def arr_table(f):
    """adt path -> {"rows": field index, "cols": field index}, from the ADT table (by field name)"""
    out = {}
    for a in f.adts:
        nm = a["id"].split("::")[-1]
        if nm in ARR_NAMES:
            names = [x["name"] for x in a["fields"]]
            if "num_rows" not in names or "num_cols" not in names:
                raise AnchorMissing("fields num_rows/num_cols of %s" % nm)
            out[a["id"]] = {"rows": names.index("num_rows"), "cols": names.index("num_cols")}
    if len(out) < 3:
        raise AnchorMissing("array types TooDee/TooDeeView/TooDeeViewMut")
    return out


def arr_kind(ARR, ty):
    t = norm_ty(ty)
    for k in ARR:
        if re.search(r"(^|[ (&])%s<" % re.escape(k), t):
            return k
    return None


def is_zero_const(o): return o["k"] == "const" and re.match(r"^(const )?0_usize$", o["val"]) is not None


def pos_const(o):
    m = o["k"] == "const" and re.match(r"^(?:const )?(\d+)_usize$", o["val"])
    return int(m.group(1)) if m else None


class ZFn:
    def __init__(s, b, summaries):
        s.b, s.summ = b, summaries
        s.defs = {}
        for bl in b["blocks"]:
            for st in bl["stmts"]:
                if st["k"] == "assign" and not st["p"]["proj"]: s.defs.setdefault(st["p"]["local"], []).append(("rv", st["rv"]))
            t = bl["term"]
            if t and t["k"] == "call" and not t["dest"]["proj"]: s.defs.setdefault(t["dest"]["local"], []).append(("call", t))
        s.vars = []; s.vidx = {}
        s.reports = []
    # ---------- alias resolution: a place -> canonical variable key
    def single(s, l):
        d = s.defs.get(l, [])
        return d[0] if len(d) == 1 else None
    def ref_target(s, l, depth=0):
        """if local l is (a copy of) a reference to a place, return that place"""
        if depth > 6: return None
        d = s.single(l)
        if not d or d[0] != "rv": return None
        rv = d[1]
        if rv["k"] == "ref": return rv["p"]
        if rv["k"] == "use" and rv["o"]["k"] in ("copy", "move"):
            p = rv["o"]["p"]
            if not p["proj"]: return s.ref_target(p["local"], depth + 1)
            # field of a tuple temp:  (_10.0) where _10 = (move _11, move _12)
            if len(p["proj"]) == 1 and p["proj"][0]["k"] == "field":
                d2 = s.single(p["local"])
                if d2 and d2[0] == "rv" and d2[1]["k"] == "agg" and d2[1]["agg"] == "tuple":
                    f = d2[1]["fields"][p["proj"][0]["i"]]
                    if f["k"] in ("copy", "move") and not f["p"]["proj"]: return s.ref_target(f["p"]["local"], depth + 1)
        return None
    def place_ty(s, p):
        """type of a local or of one field of a tuple local (None if not that simple)"""
        ty = s.b["locals"][p["local"]]
        for e in p["proj"]:
            if e["k"] == "downcast":
                continue
            if e["k"] == "field" and e.get("ty"):
                ty = e["ty"]
                continue
            if e["k"] != "field" or not (ty.startswith("(") and ty.endswith(")")):
                return None
            parts, depth, cur = [], 0, ""
            for ch in ty[1:-1]:
                if ch in "<([": depth += 1
                elif ch in ">)]": depth -= 1
                if ch == "," and depth == 0:
                    parts.append(cur.strip()); cur = ""
                else:
                    cur += ch
            if cur.strip(): parts.append(cur.strip())
            if e["i"] >= len(parts): return None
            ty = parts[e["i"]]
        return ty
    def canon(s, p, depth=0):
        """canonical key of a place holding a usize, or None"""
        proj = p["proj"]; l = p["local"]
        if proj and proj[0]["k"] == "deref":
            tgt = s.ref_target(l)
            if tgt is not None and depth < 6:
                return s.canon({"local": tgt["local"], "proj": tgt["proj"] + proj[1:]}, depth + 1)
            # reference parameter / unknown ref: object field
            fs = [e["i"] for e in proj[1:] if e["k"] == "field"]
            return ("F", l) + tuple(fs)
        fs = tuple(e["i"] for e in proj if e["k"] == "field")
        return ("L", l) + fs
    def var(s, key):
        if key not in s.vidx: s.vidx[key] = len(s.vars); s.vars.append(key)
        return s.vidx[key]
    # ---------- expression evaluation under a valuation (dict key -> 'Z'/'NZ'); returns set of possible {'Z','NZ'} or for bools {True,False}
    def val_operand(s, o, V, depth=0):
        if o["k"] == "const":
            if is_zero_const(o): return {"Z"}
            if pos_const(o): return {"NZ"}
            if o["val"] in ("const true", "true"): return {True}
            if o["val"] in ("const false", "false"): return {False}
            return {"Z", "NZ"}
        key = s.canon(o["p"])
        if key in V:
            if s.place_ty(o["p"]) == "bool":
                return {V[key] == "NZ"}      # a tracked flag: stored as 0 / 1
            return {V[key]}
        # single-def temp: evaluate its definition
        p = o["p"]
        if p["proj"] and p["proj"][0]["k"] == "deref" and key[0] == "L":
            # a dereferenced reference to a local (or to a field of one): continue with the referent
            p = {"local": key[1], "proj": [{"k": "field", "i": i} for i in key[2:]]}
        if any(e["k"] == "downcast" for e in p["proj"]):
            # (x as Some).0 / (x as Continue).0: the payload
            p = {"local": p["local"], "proj": [e for e in p["proj"] if e["k"] != "downcast"]}
            if len(p["proj"]) == 1 and p["proj"][0]["k"] == "field" and p["proj"][0]["i"] == 0:
                d = s.single(p["local"])
                if d and d[0] == "call" and depth < 8:
                    pv = s.val_payload(d[1], V, depth + 1)
                    if pv is not None: return pv
        if depth < 8:
            if not p["proj"]:
                d = s.single(p["local"])
                if d and d[0] == "rv": return s.val_rvalue(d[1], V, depth + 1)
                if d and d[0] == "call": return s.val_call(d[1], V, None)
            elif len(p["proj"]) == 1 and p["proj"][0]["k"] == "field":
                d = s.single(p["local"])
                if d and d[0] == "rv" and d[1]["k"] == "binop" and d[1]["op"].endswith("WithOverflow") and p["proj"][0]["i"] == 0:
                    rv = dict(d[1]); rv["op"] = rv["op"].replace("WithOverflow", ""); return s.val_rvalue(rv, V, depth + 1)
                if d and d[0] == "rv" and d[1]["k"] == "agg" and d[1]["agg"] == "tuple":
                    return s.val_operand(d[1]["fields"][p["proj"][0]["i"]], V, depth + 1)
                if d and d[0] == "call": return s.val_call(d[1], V, p["proj"][0]["i"])
        return {"Z", "NZ", True, False}
    def val_rvalue(s, rv, V, depth=0):
        k = rv["k"]
        if k == "use": return s.val_operand(rv["o"], V, depth)
        if k == "cast": return s.val_operand(rv["o"], V, depth)
        if k == "binop":
            a, b = s.val_operand(rv["l"], V, depth), s.val_operand(rv["r"], V, depth); op = rv["op"]
            az, bz = a & {"Z", "NZ"}, b & {"Z", "NZ"}
            if op in ("Add", "AddUnchecked"):
                out = set()
                for x in az:
                    for y in bz: out.add("Z" if (x == "Z" and y == "Z") else "NZ")
                return out
            if op in ("Sub", "SubUnchecked"):
                out = set()
                for x in az:
                    for y in bz:
                        if y == "Z": out.add(x)
                        else: out |= {"Z", "NZ"}
                return out
            if op in ("Mul", "MulUnchecked"):
                out = set()
                for x in az:
                    for y in bz: out.add("Z" if "Z" in (x, y) else "NZ")
                return out
            if op in ("Eq", "Ne"):
                out = set()
                if a <= {True, False} and b <= {True, False} and a and b:
                    for x in a:
                        for y in b: out.add((x == y) if op == "Eq" else (x != y))
                    return out
                for x in az:
                    for y in bz:
                        if x == "Z" and y == "Z": out.add(op == "Eq")
                        elif x != y: out.add(op != "Eq")
                        else: out |= {True, False}
                return out or {True, False}
            if op in ("Lt", "Gt", "Le", "Ge"):
                # normalise to  small OP big
                l, r = (az, bz) if op in ("Lt", "Le") else (bz, az)
                strict = op in ("Lt", "Gt"); out = set()
                for x in l:
                    for y in r:
                        if strict:      # x < y
                            if y == "Z": out.add(False)
                            elif x == "Z": out.add(True)
                            else: out |= {True, False}
                        else:           # x <= y
                            if x == "Z": out.add(True)
                            elif y == "Z": out.add(False)
                            else: out |= {True, False}
                return out or {True, False}
            if op in ("BitAnd", "BitOr", "BitXor"):
                out = set()
                for x in a & {True, False}:
                    for y in b & {True, False}: out.add({"BitAnd": x and y, "BitOr": x or y, "BitXor": x != y}[op])
                return out or {True, False}
        if k == "unop" and rv["op"] == "Not":
            a = s.val_operand(rv["o"], V, depth); return {not x for x in a & {True, False}} or {True, False}
        return {"Z", "NZ", True, False}
    def val_payload(s, t, V, depth=0):
        """Z/NZ of the value carried by an Option / Result / ControlFlow produced by this call (None: not modelled)"""
        fn = t["func"].get("fn") or {}
        name, path = fn.get("name"), fn.get("path") or ""
        if depth > 8 or not t["args"]: return None
        if path.startswith("core::num::") and name in ("checked_mul", "checked_add", "checked_sub") and len(t["args"]) == 2:
            rv = {"k": "binop", "op": {"checked_mul": "Mul", "checked_add": "Add", "checked_sub": "Sub"}[name], "l": t["args"][0], "r": t["args"][1]}
            return s.val_rvalue(rv, V, depth + 1)
        if name in ("ok_or_else", "ok_or", "branch", "map_err", "ok", "or_else", "inspect", "filter") and t["args"][0]["k"] in ("copy", "move") and not t["args"][0]["p"]["proj"]:
            d = s.single(t["args"][0]["p"]["local"])
            if d and d[0] == "call": return s.val_payload(d[1], V, depth + 1)
        return None
    def val_call(s, t, V, field):
        fn = t["func"].get("fn") or {}
        name = fn.get("name")
        if name in ("len", "is_empty") and (fn.get("path") or "").startswith("core::slice::<impl [T]>::") and len(t["args"]) == 1 and any(k[0] == "LEN" for k in V):
            # the length of a slice held in a field of the receiver (a cursor's remaining slice), tracked as a pseudo-value
            from .dfx import Dfx, strip as _dstrip
            if not hasattr(s, "_dfx"): s._dfx = Dfx(Body_shim(s.b))
            e = _dstrip(s._dfx.expr(t["args"][0]))
            if e[0] == "field" and _dstrip(e[1]) in (("param", 1), ("deref", ("param", 1))):
                key = ("LEN", 1, e[2])
                if key in V:
                    return {V[key]} if name == "len" else {V[key] == "Z"}
        if name in ("unwrap", "expect", "unwrap_unchecked") and t["args"] and t["args"][0]["k"] in ("copy", "move") and not t["args"][0]["p"]["proj"] and field is None:
            # the payload of an Option produced by checked arithmetic
            d0 = s.single(t["args"][0]["p"]["local"])
            if d0 and d0[0] == "call":
                pv = s.val_payload(d0[1], V, 1)
                if pv is not None: return pv
        if name == "is_empty" and (fn.get("krate") not in ("core", "alloc", "std")) and len(t["args"]) == 1 and t["args"][0]["k"] in ("copy", "move"):
            # the crate's own is_empty(): num_cols() == 0 || num_rows() == 0
            base = t["args"][0]["p"]; tgt = s.ref_target(base["local"]) if not base["proj"] else None
            root = (tgt["local"] if tgt and (not tgt["proj"] or all(e["k"] == "deref" for e in tgt["proj"])) else base["local"])
            kc, kr = ("G", root, "num_cols"), ("G", root, "num_rows")
            if kc in V and kr in V:
                return {V[kc] == "Z" or V[kr] == "Z"}
        if name in ("num_rows", "num_cols") and len(t["args"]) == 1 and t["args"][0]["k"] in ("copy", "move"):
            base = t["args"][0]["p"]; tgt = s.ref_target(base["local"]) if not base["proj"] else None
            root = (tgt["local"] if tgt and (not tgt["proj"] or all(e["k"] == "deref" for e in tgt["proj"])) else base["local"])     # `&*self` is self
            key = ("G", root, name)
            if key in V: return {V[key]}
        return {"Z", "NZ", True, False}
    # ---------- analysis
    def run(s, tracked, entry_pairs, sinks, entry_imps=(), entry_nz=()):
        """tracked: list of keys; entry_pairs: list of (rows_key, cols_key) constrained by the invariant at entry;
        sinks: callback(block, stmt_index|'term', valuations) -> None"""
        b = s.b
        keys = list(tracked)
        init = []
        for combo in itertools.product(("Z", "NZ"), repeat=len(keys)):
            V = dict(zip(keys, combo))
            if all((V[r] == "Z") == (V[c] == "Z") for r, c in entry_pairs) and all(V[a_] == "Z" or V[b_] == "NZ" for a_, b_ in entry_imps) and all(V[k_] == "NZ" for k_ in entry_nz if k_ in V): init.append(tuple(combo))
        IN = [set() for _ in b["blocks"]]; IN[0] = set(init); work = [0]
        def assign(V, key, vals):
            out = []
            if vals & {True, False} and not vals & {"Z", "NZ"}:
                vals = {"NZ" if x else "Z" for x in vals & {True, False}}      # a tracked bool flag
            for v in (vals & {"Z", "NZ"}) or {"Z", "NZ"}:
                W = dict(V); W[key] = v; out.append(W)
            return out
        while work:
            bb = work.pop(); bl = b["blocks"][bb]
            if bl["cleanup"]: continue
            states = [dict(zip(keys, c)) for c in IN[bb]]
            for si, st in enumerate(bl["stmts"]):
                sinks(bb, si, st, states, keys)
                if st["k"] != "assign": continue
                key = s.canon(st["p"])
                if key in keys:
                    ns = []
                    for V in states: ns += assign(V, key, s.val_rvalue(st["rv"], V))
                    states = ns
                elif st["rv"]["k"] == "agg" and st["rv"].get("agg") == "tuple" and not st["p"]["proj"]:
                    # `_t = (a, b)`: the tracked components of the tuple take the operands' values
                    for i, o in enumerate(st["rv"]["fields"]):
                        ck = ("L", st["p"]["local"], i)
                        if ck in keys:
                            ns = []
                            for V in states: ns += assign(V, ck, s.val_operand(o, V))
                            states = ns
            t = bl["term"]
            if t is None: continue
            sinks(bb, "term", t, states, keys)
            succ = []
            if t["k"] == "goto": succ = [(t["target"], states)]
            elif t["k"] == "switch":
                tm = [(int(a), bb2) for a, bb2 in t["targets"]]
                tv, fv = [], []
                for V in states:
                    vals = s.val_operand(t["discr"], V) & {True, False}
                    if not vals: vals = {True, False}
                    if True in vals: tv.append(V)
                    if False in vals: fv.append(V)
                dl = t["discr"]
                is_int = dl["k"] in ("copy", "move") and s.place_ty(dl["p"]) in ("usize", "isize", "u64", "u32", "u16", "u8", "u128")
                if is_int:
                    # `match n { 0 => .., _ => .. }` on an integer: the 0 arm sees n == 0, every other arm n != 0
                    zs, nzs = [], []
                    for V in states:
                        vals = (s.val_operand(dl, V) & {"Z", "NZ"}) or {"Z", "NZ"}
                        if "Z" in vals: zs.append(V)
                        if "NZ" in vals: nzs.append(V)
                    succ = [(x[1], zs if x[0] == 0 else nzs) for x in tm] + [(t["otherwise"], nzs if any(x[0] == 0 for x in tm) else states)]
                elif len(tm) == 1 and tm[0][0] == 0: succ = [(tm[0][1], fv), (t["otherwise"], tv)]
                else: succ = [(x[1], states) for x in tm] + [(t["otherwise"], states)]
            elif t["k"] == "call":
                fn = t["func"].get("fn") or {}
                ns = states
                if fn.get("path") == "core::mem::swap" and len(t["args"]) == 2:
                    ka = s.canon({"local": t["args"][0]["p"]["local"], "proj": [{"k": "deref"}]}); kb = s.canon({"local": t["args"][1]["p"]["local"], "proj": [{"k": "deref"}]})
                    if ka in keys and kb in keys:
                        ns = []
                        for V in states:
                            W = dict(V); W[ka], W[kb] = V[kb], V[ka]; ns.append(W)
                dk = s.canon(t["dest"])
                if dk in keys:
                    tmp = []
                    for V in ns: tmp += assign(V, dk, s.val_call(t, V, None))
                    ns = tmp
                # a crate helper that only returns when two of its usize arguments obey the zero rule
                asum = s.summ.get(("asserts", fn.get("resolved") or fn.get("path")))
                if not asum and t.get("target") is not None and t.get("dest") and not t["dest"]["proj"]:
                    # a validator returning Result, propagated with `?`: the very next thing done with its result is Try::branch,
                    # whose Break arm only returns - what continues has passed the validation
                    oks = s.summ.get(("ok-asserts", fn.get("resolved") or fn.get("path")))
                    if oks:
                        nt = b["blocks"][t["target"]]["term"]
                        if nt and nt.get("k") == "call" and ((nt["func"].get("fn") or {}).get("name") == "branch") and any(a_.get("k") in ("copy", "move") and a_["p"]["local"] == t["dest"]["local"] for a_ in nt["args"]):
                            asum = oks
                if asum:
                    for (ia, ib) in asum:
                        if ia < len(t["args"]) and ib < len(t["args"]):
                            keep = []
                            for V in ns:
                                va = s.val_operand(t["args"][ia], V) & {"Z", "NZ"}
                                vb = s.val_operand(t["args"][ib], V) & {"Z", "NZ"}
                                if any((x == "Z") == (y == "Z") for x in (va or {"Z", "NZ"}) for y in (vb or {"Z", "NZ"})):
                                    keep.append(V)
                            ns = keep
                # tuple-returning crate fn with a zero-rule summary: dest.0 / dest.1 correlated
                sm = s.summ.get(fn.get("name"))
                if sm and sm.get("pair"):
                    k0, k1 = s.canon({"local": t["dest"]["local"], "proj": [{"k": "field", "i": sm["pair"][0]}]}), s.canon({"local": t["dest"]["local"], "proj": [{"k": "field", "i": sm["pair"][1]}]})
                    tmp = []
                    for V in ns:
                        for z in ("Z", "NZ"):
                            W = dict(V)
                            if k0 in keys: W[k0] = z
                            if k1 in keys: W[k1] = z
                            tmp.append(W)
                    ns = tmp
                cp_ = getattr(s, "call_pairs", {}).get(t["dest"]["local"]) if t.get("dest") and not t["dest"]["proj"] else None
                if cp_ and cp_[0] in keys and cp_[1] in keys:
                    tmp = []
                    for V in ns:
                        for z in ("Z", "NZ"):
                            W = dict(V); W[cp_[0]] = z; W[cp_[1]] = z; tmp.append(W)
                    ns = tmp
                if t["target"] is not None: succ = [(t["target"], ns)]
            elif t["k"] in ("assert", "drop"): succ = [(t["target"], states)]
            for nb, sts in succ:
                new = {tuple(V[k] for k in keys) for V in sts}
                if not new <= IN[nb]: IN[nb] |= new; work.append(nb)
        return IN



class Body_shim:
    def __init__(self, d):
        self.blocks = d.get("blocks", []); self.arg_count = d.get("arg_count", 0)


def _subs(rv):
    return [rv.get("o")] if rv["k"] in ("use", "cast") else [rv.get("l"), rv.get("r")] if rv["k"] == "binop" else []


def analyse(f, ARR, body, summaries, mode="sites", ret_pairs=None, ctor_sinks=None):
    """mode "sites": obligations at aggregates / writer returns (/ calls of asserting constructors named in
    ctor_sinks: name -> (rows arg idx, cols arg idx)).
    mode "summary": obligations at every `_0 = (a, b, ..)` tuple for the component pairs in ret_pairs."""
    b = body.d
    Z = ZFn(b, summaries)
    tracked, entry_pairs = [], []

    def add(k):
        if k is not None and k not in tracked:
            tracked.append(k)
    for i in range(1, b["arg_count"] + 1):
        k = arr_kind(ARR, b["locals"][i])
        if k:
            if b["locals"][i].startswith("&"):
                rk, ck = ("F", i, ARR[k]["rows"]), ("F", i, ARR[k]["cols"])
            else:
                rk, ck = ("L", i, ARR[k]["rows"]), ("L", i, ARR[k]["cols"])
            add(rk); add(ck); entry_pairs.append((rk, ck))
            g1, g2 = ("G", i, "num_rows"), ("G", i, "num_cols")
            add(g1); add(g2); entry_pairs.append((g1, g2))
        elif "impl TooDeeOps" in b["locals"][i] or "impl ops::TooDeeOps" in b["locals"][i] or re.search(r"&'\S+ (mut )?Self", b["locals"][i]) or re.match(r"^&('\S+ )?(mut )?[A-Z]\w*/#\d+$", b["locals"][i]):
            g1, g2 = ("G", i, "num_rows"), ("G", i, "num_cols")
            add(g1); add(g2); entry_pairs.append((g1, g2))

    # an array VALUE produced by a call (`source.clone()`, a constructor): a valid array, so its two dimension fields obey the
    # zero rule together (every construction site is itself an obligation of this rule)
    Z.call_pairs = {}
    for bl in b["blocks"]:
        t = bl["term"]
        if t and t["k"] == "call" and not bl["cleanup"] and t.get("dest") and not t["dest"]["proj"]:
            dl_ = t["dest"]["local"]
            ty_ = b["locals"][dl_]
            k = arr_kind(ARR, ty_)
            if k and not ty_.startswith("&") and len(Z.call_pairs) < 2:
                rk, ck = ("L", dl_, ARR[k]["rows"]), ("L", dl_, ARR[k]["cols"])
                add(rk); add(ck)
                Z.call_pairs[dl_] = (rk, ck)

    # a bool local assigned on several branches (`a == 0 || b == 0`) that steers at least two switches: kept in the valuation
    # (as 0 / 1) so that both decisions agree
    bdefs, bsw = {}, {}
    for bl in b["blocks"]:
        if bl["cleanup"]:
            continue
        for st in bl["stmts"]:
            if st["k"] == "assign" and not st["p"]["proj"] and b["locals"][st["p"]["local"]] == "bool":
                bdefs[st["p"]["local"]] = bdefs.get(st["p"]["local"], 0) + 1
        t = bl["term"]
        if t and t["k"] == "switch" and t["discr"]["k"] in ("copy", "move") and not t["discr"]["p"]["proj"]:
            l_ = t["discr"]["p"]["local"]
            for _ in range(2):
                ds_ = Z.defs.get(l_, [])
                if len(ds_) == 1 and ds_[0][0] == "rv" and ds_[0][1]["k"] == "use" and ds_[0][1]["o"]["k"] in ("copy", "move") and not ds_[0][1]["o"]["p"]["proj"]:
                    l_ = ds_[0][1]["o"]["p"]["local"]
            bsw[l_] = bsw.get(l_, 0) + 1
    for l_, nd in sorted(bdefs.items()):
        if nd >= 2 and bsw.get(l_, 0) >= 2 and b["locals"][l_] == "bool" and len([k for k in tracked if k[0] == "L" and b["locals"][k[1]] == "bool"]) < 2:
            add(("L", l_))

    uses = {}

    def _count(o):
        if o and o.get("k") in ("copy", "move"):
            uses[o["p"]["local"]] = uses.get(o["p"]["local"], 0) + 1
    for bl in b["blocks"]:
        for st in bl["stmts"]:
            if st["k"] == "assign":
                rv = st["rv"]
                for o in [rv.get("o"), rv.get("l"), rv.get("r")] + list(rv.get("fields", [])):
                    _count(o)
                if rv["k"] in ("ref", "rawptr", "discr"):
                    uses[rv["p"]["local"]] = uses.get(rv["p"]["local"], 0) + 1
        t = bl["term"]
        if t:
            for o in [t.get("discr"), t.get("cond")] + list(t.get("args", [])):
                _count(o)

    def slice_from(o, depth=0):
        if o is None or o["k"] not in ("copy", "move"):
            return
        key = Z.canon(o["p"])
        base_l = o["p"]["local"]

        def evaluable(d):
            if d[0] != "rv":
                return False
            rv = d[1]
            if rv["k"] == "binop":
                return True
            if rv["k"] in ("use", "cast"):
                oo = rv["o"]
                if oo["k"] == "const":
                    return True
                return all(e["k"] == "field" for e in oo["p"]["proj"]) and len(oo["p"]["proj"]) <= 1
            return False
        ds = Z.defs.get(base_l, [])
        is_temp = key[0] == "L" and base_l > b["arg_count"] and len(ds) == 1 and evaluable(ds[0]) and (uses.get(base_l, 0) <= 1 or bool(o["p"]["proj"]))
        if not is_temp:
            add(key)
        if depth < 8 and not o["p"]["proj"]:
            for d in Z.defs.get(o["p"]["local"], []):
                if d[0] == "rv":
                    for sub in _subs(d[1]):
                        if sub:
                            slice_from(sub, depth + 1)
        if depth < 8 and len(o["p"]["proj"]) == 1 and o["p"]["proj"][0]["k"] == "field":
            for d in Z.defs.get(o["p"]["local"], []):
                if d[0] == "rv" and d[1]["k"] == "binop":
                    slice_from(d[1]["l"], depth + 1); slice_from(d[1]["r"], depth + 1)
                if d[0] == "rv" and d[1]["k"] == "agg" and d[1]["agg"] == "tuple":
                    slice_from(d[1]["fields"][o["p"]["proj"][0]["i"]], depth + 1)

    sink_sites = []
    # the usize locals / parameters named num_rows and num_cols (the last ones of that name: the unwrapped values)
    accept_dims = None
    if ctor_sinks is not None:
        byname = {}
        for v in b.get("debug", []):
            val = v.get("v")
            if isinstance(val, dict) and "local" in val and not val.get("proj") and b["locals"][val["local"]] == "usize":
                byname[v["name"]] = val["local"]
        if "num_rows" in byname and "num_cols" in byname:
            accept_dims = (byname["num_rows"], byname["num_cols"])
    dimkeys = [k for pr in entry_pairs for k in pr]
    writes_dims = False
    for bl in b["blocks"]:
        if bl["cleanup"]:
            continue
        for st in bl["stmts"]:
            if st["k"] == "assign" and Z.canon(st["p"]) in dimkeys:
                writes_dims = True
                for sub in _subs(st["rv"]):
                    if sub:
                        slice_from(sub)
        t = bl["term"]
        if t and t["k"] == "call" and (t["func"].get("fn") or {}).get("path") == "core::mem::swap":
            for a in t["args"]:
                if a["k"] in ("copy", "move"):
                    k = Z.canon({"local": a["p"]["local"], "proj": [{"k": "deref"}]})
                    if k in dimkeys:
                        writes_dims = True
    for bi, bl in enumerate(b["blocks"]):
        if bl["cleanup"]:
            continue
        for si, st in enumerate(bl["stmts"]):
            if mode == "sites" and st["k"] == "assign" and st["rv"]["k"] == "agg" and st["rv"].get("adt") in ARR:
                idx = ARR[st["rv"]["adt"]]
                fl = st["rv"]["fields"]
                slice_from(fl[idx["rows"]]); slice_from(fl[idx["cols"]])
                sink_sites.append((bi, si, "construct:" + st["rv"]["adt"].split("::")[-1], fl[idx["rows"]], fl[idx["cols"]], st["span"]))
            if mode == "summary" and st["k"] == "assign" and st["p"]["local"] == 0 and not st["p"]["proj"] and st["rv"]["k"] == "agg" and st["rv"]["agg"] == "tuple":
                fl = st["rv"]["fields"]
                for (i0, i1) in ret_pairs:
                    slice_from(fl[i0]); slice_from(fl[i1])
                    sink_sites.append((bi, si, "ret:%d,%d" % (i0, i1), fl[i0], fl[i1], st["span"]))
            # a deserialisation-side function accepts the document where it builds `Ok(array)`: the parsed dimensions
            # (its usize values named num_rows / num_cols) must obey the zero rule there, whichever way the array is made
            if mode == "sites" and ctor_sinks is not None and accept_dims and st["k"] == "assign" and st["p"]["local"] == 0 and not st["p"]["proj"] \
                    and st["rv"]["k"] == "agg" and st["rv"].get("agg") == "adt" and st["rv"].get("variant") == "Ok" and "TooDee<" in b["locals"][0]:
                ro_ = {"k": "copy", "p": {"local": accept_dims[0], "proj": []}}
                co_ = {"k": "copy", "p": {"local": accept_dims[1], "proj": []}}
                slice_from(ro_); slice_from(co_)
                sink_sites.append((bi, si, "accept:Ok", ro_, co_, st["span"]))
        t = bl["term"]
        if mode == "sites" and t and t["k"] == "call" and ctor_sinks:
            fnr = (t["func"].get("fn") or {})
            nm = fnr.get("resolved") or fnr.get("path")
            if nm in ctor_sinks:
                ri, ci = ctor_sinks[nm]
                nm = fnr.get("name")
                slice_from(t["args"][ri]); slice_from(t["args"][ci])
                sink_sites.append((bi, "term", "call:" + nm, t["args"][ri], t["args"][ci], t["span"]))
        if mode == "sites" and t and t["k"] == "return" and entry_pairs and writes_dims:
            sink_sites.append((bi, "term", "return", None, None, b["span"]))
    if not sink_sites:
        return None
    # a writer that grows the buffer by `k` cells (`set_len(old_len + k)`, k = the length of the inserted line): when k is
    # non-zero the array is non-empty afterwards, so both dimensions must be non-zero at every normal return (the restore of the
    # dimensions may only be skipped for an empty line)
    grow_keys = []
    if mode == "sites" and writes_dims and entry_pairs:
        from .dfx import Dfx as _Dfx, walk as _walk
        dg = _Dfx(Body_shim(b))
        for bl in b["blocks"]:
            t = bl["term"]
            if bl["cleanup"] or not t or t["k"] != "call" or (t["func"].get("fn") or {}).get("name") != "set_len" or len(t["args"]) < 2:
                continue
            a = t["args"][1]
            if a["k"] not in ("copy", "move"):
                continue
            ds = Z.defs.get(a["p"]["local"], [])
            rvb = None
            if len(ds) == 1 and ds[0][0] == "rv":
                rv0 = ds[0][1]
                if rv0["k"] == "binop" and rv0["op"].startswith("Add"):
                    rvb = rv0
                elif rv0["k"] == "use" and rv0["o"]["k"] in ("copy", "move") and rv0["o"]["p"]["proj"]:
                    ds2 = Z.defs.get(rv0["o"]["p"]["local"], [])
                    if len(ds2) == 1 and ds2[0][0] == "rv" and ds2[0][1]["k"] == "binop" and ds2[0][1]["op"].startswith("Add"):
                        rvb = ds2[0][1]
                elif rv0["k"] == "use" and rv0["o"]["k"] in ("copy", "move") and not rv0["o"]["p"]["proj"]:
                    # `let new_len = old_len + k; .. set_len(new_len)`
                    ds2 = Z.defs.get(rv0["o"]["p"]["local"], [])
                    for _ in range(3):
                        if len(ds2) == 1 and ds2[0][0] == "rv" and ds2[0][1]["k"] == "use" and ds2[0][1]["o"]["k"] in ("copy", "move"):
                            ds2 = Z.defs.get(ds2[0][1]["o"]["p"]["local"], [])
                    if len(ds2) == 1 and ds2[0][0] == "rv" and ds2[0][1]["k"] == "binop" and ds2[0][1]["op"].startswith("Add"):
                        rvb = ds2[0][1]
            if rvb is None:
                continue
            for side, other in ((rvb["l"], rvb["r"]), (rvb["r"], rvb["l"])):
                if side["k"] in ("copy", "move") and other["k"] in ("copy", "move"):
                    eo, es = dg.expr(other), dg.expr(side)
                    if any(x[0] == "call" and x[2] == "len" for x in _walk(eo)) and not any(x[0] == "call" and x[2] == "len" for x in _walk(es)):
                        kk = Z.canon(side["p"])
                        if kk and kk[0] == "L" and kk not in grow_keys:
                            grow_keys.append(kk)
                            if kk not in tracked:
                                tracked.append(kk)
    # integer `match` scrutinees that are copies of tracked values (`match (a, b) { (0, 0) => .., .. }`): track the copy so
    # that the arm taken refines the original in the same valuation
    for _ in range(3):
        grew = False
        for bl in b["blocks"]:
            t = bl["term"]
            if bl["cleanup"] or not t or t["k"] != "switch" or t["discr"]["k"] not in ("copy", "move"):
                continue
            dp = t["discr"]["p"]
            if Z.place_ty(dp) != "usize" or len(tracked) >= 10:
                continue
            key = Z.canon(dp)
            if key in tracked or key[0] != "L":
                continue
            src = None
            ds = Z.defs.get(dp["local"], [])
            if len(ds) == 1 and ds[0][0] == "rv":
                rv = ds[0][1]
                if not dp["proj"] and rv["k"] == "use":
                    src = rv["o"]
                elif len(dp["proj"]) == 1 and dp["proj"][0]["k"] == "field" and rv["k"] == "agg" and rv["agg"] == "tuple":
                    src = rv["fields"][dp["proj"][0]["i"]]
            def depends(o, depth=0):
                """the operand's value is computed from tracked values (through copies, arithmetic, Option payloads)"""
                if o is None or o.get("k") not in ("copy", "move") or depth > 8:
                    return False
                if Z.canon(o["p"]) in tracked:
                    return True
                for dd in Z.defs.get(o["p"]["local"], []):
                    if dd[0] == "rv":
                        if any(depends(x, depth + 1) for x in [dd[1].get("o"), dd[1].get("l"), dd[1].get("r")] + list(dd[1].get("fields", []))):
                            return True
                    elif dd[0] == "call":
                        fn_ = dd[1]["func"].get("fn") or {}
                        if fn_.get("name") in ("checked_mul", "checked_add", "checked_sub", "ok_or_else", "ok_or", "branch", "map_err", "ok") and any(depends(x, depth + 1) for x in dd[1]["args"]):
                            return True
                return False
            if src is not None and src["k"] in ("copy", "move") and (Z.canon(src["p"]) in tracked or depends(src)):
                tracked.append(key)
                grew = True
                continue
            # or the other way round: a tracked local is a plain copy of the scrutinee place (`Some(n)` payload bound to a name)
            for bl2 in b["blocks"]:
                for st2 in bl2["stmts"]:
                    if st2["k"] == "assign" and st2["rv"]["k"] == "use" and st2["rv"]["o"]["k"] in ("copy", "move") and Z.canon(st2["rv"]["o"]["p"]) == key and Z.canon(st2["p"]) in tracked and key not in tracked:
                        tracked.append(key)
                        grew = True
        if not grew:
            break
    found = []

    def sinks(bb, si, node, states, keys):
        for (sb, ss, kind, ro, co, span) in sink_sites:
            if sb != bb or ss != si:
                continue
            bad = set()
            for V in states:
                if kind == "return":
                    for (rk, ck) in entry_pairs[:1]:
                        if (V[rk] == "Z") != (V[ck] == "Z"):
                            bad.add((V[rk], V[ck]))
                        for gk in grow_keys:
                            if V.get(gk) == "NZ" and (V[rk] == "Z" or V[ck] == "Z"):
                                bad.add(("grown:" + V[rk], V[ck]))
                else:
                    for r in Z.val_operand(ro, V) & {"Z", "NZ"}:
                        for c in Z.val_operand(co, V) & {"Z", "NZ"}:
                            if (r == "Z") != (c == "Z"):
                                bad.add((r, c))
            found.append((kind, span, sorted(bad), len(states)))
    Z.run(tracked, entry_pairs, sinks)
    # sinks that were never reached (dead code) are reported as reached with 0 states
    return found, tracked


def tuple_summaries(f, ARR):
    """crate functions returning a tuple with >= 2 usize components: which component pairs obey the zero
    rule at every return (computed from the callee's own body)"""
    out = {}
    for b in f.fn_bodies:
        if b.kind == "Closure" or not b.locals:
            continue
        rt = b.locals[0]
        if not rt.startswith("(") or rt.count("usize") < 2:
            continue
        comps = [c.strip() for c in _split_top(rt[1:-1])]
        us = [i for i, c in enumerate(comps) if c == "usize"]
        pairs = [(us[i], us[j]) for i in range(len(us)) for j in range(i + 1, len(us))]
        if not pairs:
            continue
        r = analyse(f, ARR, b, {}, mode="summary", ret_pairs=pairs)
        if not r:
            continue
        found, _ = r
        good = []
        for (i0, i1) in pairs:
            rel = [x for x in found if x[0] == "ret:%d,%d" % (i0, i1)]
            if rel and all(not x[2] for x in rel):
                good.append((i0, i1))
        out[b.name] = {"pair": good[0] if good else None, "pairs": good, "body": b, "all_pairs": pairs, "found": found}
    return out


def _split_top(s):
    out, depth, cur = [], 0, ""
    for ch in s:
        if ch in "<([":
            depth += 1
        elif ch in ">)]":
            depth -= 1
        if ch == "," and depth == 0:
            out.append(cur); cur = ""
        else:
            cur += ch
    if cur.strip():
        out.append(cur)
    return out


def asserting_ctors(f, ARR):
    """crate functions that build an array type directly from two of their own usize parameters:
    def path -> (rows arg index, cols arg index) (0-based call argument positions)"""
    from .dfx import Dfx, strip
    out = {}
    for b in f.fn_bodies:
        if b.kind == "Closure":
            continue
        d = None
        for bi, si, st in b.stmts():
            if st["k"] == "assign" and st["rv"]["k"] == "agg" and st["rv"].get("adt") in ARR:
                d = d or Dfx(b)
                idx = ARR[st["rv"]["adt"]]
                r = strip(d.expr(st["rv"]["fields"][idx["rows"]]))
                c = strip(d.expr(st["rv"]["fields"][idx["cols"]]))
                if r[0] == "param" and c[0] == "param":
                    out[b.id] = (r[1] - 1, c[1] - 1)
    return out


def assert_summaries(f):
    """crate functions with >= 2 usize parameters that can only return when a pair of them is both-zero-or-neither:
    ("asserts", def path) -> [(arg index a, arg index b)] (0-based), computed from the callee's own body"""
    out = {}
    for b in f.fn_bodies:
        if b.kind == "Closure":
            continue
        us = [i for i in range(1, b.arg_count + 1) if b.locals[i] == "usize"]
        if len(us) < 2 or len(b.blocks) > 60:
            continue
        bd = b.d
        Zf = ZFn(bd, {})
        # only parameters that are never re-assigned (their local stands for the argument throughout)
        us = [i for i in us if not Zf.defs.get(i)]
        assigned_through_ref = set()
        for bl in bd["blocks"]:
            for st in bl["stmts"]:
                if st["k"] == "assign" and st["rv"]["k"] in ("ref", "rawptr") and st["rv"].get("mut", True) and not st["rv"]["p"]["proj"]:
                    if st["rv"]["k"] == "rawptr" or st["rv"].get("mut"):
                        assigned_through_ref.add(st["rv"]["p"]["local"])
        us = [i for i in us if i not in assigned_through_ref]
        if len(us) < 2:
            continue
        keys = [("L", i) for i in us]
        rets = {}

        def sinks(bb, si, node, states, ks):
            if si == "term" and node and node.get("k") == "return":
                for V in states:
                    rets.setdefault("r", set()).add(tuple(V[k] for k in keys))
            # a validator that answers with a Result: the valuations under which it builds its `Ok(..)`
            if si != "term" and node.get("k") == "assign" and node["p"]["local"] == 0 and not node["p"]["proj"] and node["rv"]["k"] == "agg" \
                    and str(node["rv"].get("adt", "")).endswith("result::Result") and node["rv"].get("variant") == "Ok":
                for V in states:
                    rets.setdefault("ok", set()).add(tuple(V[k] for k in keys))
        try:
            Zf.run(list(keys), [], sinks)
        except RecursionError:
            continue
        seen_ok = rets.get("ok", set())
        if seen_ok and "Result<" in str(b.locals[0]):
            good_ok = []
            for x in range(len(us)):
                for y in range(x + 1, len(us)):
                    if all((v[x] == "Z") == (v[y] == "Z") for v in seen_ok):
                        good_ok.append((us[x] - 1, us[y] - 1))
            if good_ok:
                out[("ok-asserts", b.id)] = good_ok
        seen = rets.get("r", set())
        if not seen:
            continue
        good = []
        for x in range(len(us)):
            for y in range(x + 1, len(us)):
                if all((v[x] == "Z") == (v[y] == "Z") for v in seen):
                    good.append((us[x] - 1, us[y] - 1))
        if good:
            out[("asserts", b.id)] = good
    return out


def r_zero(f, serde_sinks=False):
    R = Result("R-ZERO")
    ARR = arr_table(f)
    summ = tuple_summaries(f, ARR)
    asum = assert_summaries(f)
    n_sites = 0
    for name, sm in summ.items():
        # a dimension helper is only an obligation when its result feeds an array aggregate; that is found
        # below through the call sites.  Here: record what was computed.
        R.inst(sm["body"].ident, "summary: returned components %s satisfy the zero rule at every return: %s" % (sm["all_pairs"], sm["pairs"]), True)
    used_summaries = {k: v for k, v in summ.items() if v["pair"] is not None}
    used_summaries.update(asum)
    for k, v in asum.items():
        R.inst(norm_ty(k[1]), "summary: returns only when its arguments %s are both zero or both non-zero" % v, True)
    for b in f.fn_bodies:
        if b.d.get("derived") or b.kind == "Closure":
            continue
        fl = b.file.replace("\\", "/")
        if "/tests" in fl or fl.endswith("tests.rs"):
            continue
        ctor = None
        if serde_sinks and fl.endswith("src/serde.rs"):
            ctor = asserting_ctors(f, ARR)
        try:
            r = analyse(f, ARR, b, used_summaries, ctor_sinks=ctor)
        except RecursionError:
            R.inconc(b.ident, "recursion limit")
            continue
        if not r:
            continue
        found, tracked = r
        agg = {}
        for kind, span, bad, nst in found:
            k = (kind, span["lo"])
            e = agg.setdefault(k, {"bad": set(), "span": span, "n": 0})
            e["bad"] |= set(bad)
            e["n"] += nst
        # stable descriptor: kind + ordinal among same-kind sites of the function
        ords = {}
        for (kind, line), e in sorted(agg.items(), key=lambda x: (x[0][0], x[0][1])):
            o = ords.get(kind, 0)
            ords[kind] = o + 1
            n_sites += 1
            ok = not e["bad"]
            R.inst(b.ident, "%s#%d: rows==0 <=> cols==0 in every abstract state reaching it (%d states)" % (kind, o, e["n"]), ok)
            if not ok:
                if kind.startswith("accept:"):
                    msg = "%s can return Ok(array) for a document whose parsed dimensions are %s (exactly one of them zero): an inconsistent document is accepted" % (b.ident, sorted(e["bad"]))
                elif kind.startswith("call:"):
                    msg = "%s can reach the call of the asserting constructor %s with exactly one zero dimension %s: it panics instead of returning an error" % (b.ident, kind[5:], sorted(e["bad"]))
                elif kind == "return":
                    msg = "%s can return with exactly one of (num_rows, num_cols) zero: %s" % (b.ident, sorted(e["bad"]))
                    if any(str(x[0]).startswith("grown:") for x in e["bad"]):
                        msg = "%s can return with a zero dimension although it has grown the buffer by a non-zero number of cells (the restore of the dimensions is skipped for a non-empty line): the array keeps its data but reports no rows / columns" % b.ident
                else:
                    msg = "%s builds a %s whose (rows, cols) may be %s: no guard enforces that empty arrays have no dimensions" % (b.ident, kind.split(":")[1], sorted(e["bad"]))
                R.fail(b.ident, "%s#%d" % (kind, o), msg, b.where(e["span"]), {"states": sorted(e["bad"])})
    R.require_floor(n_sites, 17, "construction sites / writer returns")
    return R, n_sites


ZERO_PANIC_CALLS = ("chunks", "chunks_mut", "chunks_exact", "chunks_exact_mut", "rchunks", "rchunks_mut", "rchunks_exact", "rchunks_exact_mut",
                    "windows", "step_by", "array_chunks", "array_windows")


def r_nonzero(f):
    """R-NONZERO: a std API that panics on a zero argument (chunks*/windows/step_by) or a division / remainder must
    not see a value that can be zero on that path.  Dimensions are legitimately zero for empty arrays, so an
    operation that is specified for every shape 'including empty ones' must guard them.  Decided with the
    {v == 0} predicate abstraction: every tracked value starts unconstrained, branch edges refine it."""
    R = Result("R-NONZERO")
    n = 0
    # phase 1: a private free helper whose divisor / chunk size comes from its own parameters hands the obligation to its call
    # sites: `reqs[id]` = the parameters that must be non-zero there (found by re-running the helper with them forced non-zero)
    reqs = {}
    order = [b for b in f.fn_bodies if b.kind == "Fn" and not b.impl_self and not b.trait_provided and "Public" not in str(b.d.get("vis"))] + [None]
    phase2 = False
    for b in order + [x for x in f.fn_bodies]:
        if b is None:
            phase2 = True
            continue
        is_helper = b.kind == "Fn" and not b.impl_self and not b.trait_provided and "Public" not in str(b.d.get("vis"))
        if phase2 and is_helper and b.id in reqs:
            continue        # its sites are discharged at the call sites
        fl = b.file.replace("\\", "/")
        if "/tests" in fl or fl.endswith("tests.rs") or b.d.get("derived"):
            continue
        if b.self_head in ("Rows", "RowsMut", "Col", "ColMut") and b.name in ("size_hint", "len") and b.impl_trait:
            continue      # decided by R-CURSOR under the cursor invariant, division by zero included (a non-empty slice has cols > 0)
        bd = b.d
        sites = []      # (block, index|'term', operand, what, span)
        if phase2:
            for bi, bl in enumerate(bd["blocks"]):
                t = bl["term"]
                if bl["cleanup"] or not t or t["k"] != "call" or not t["func"].get("fn"):
                    continue
                hb = f.crate_fn_for_call(t["func"]["fn"])
                if hb is not None and hb.id in reqs:
                    for pi in reqs[hb.id]:
                        if pi - 1 < len(t["args"]):
                            sites.append((bi, "term", t["args"][pi - 1], "argument `%s` of %s()" % (hb.param_names().get(pi, "#%d" % pi), hb.name), t["span"]))
        for bi, bl in enumerate(bd["blocks"]):
            if bl["cleanup"]:
                continue
            for si, st in enumerate(bl["stmts"]):
                if st["k"] == "assign" and st["rv"]["k"] == "binop" and st["rv"]["op"] in ("Div", "Rem") and not st["span"]["exp"]:
                    sites.append((bi, si, st["rv"]["r"], "divisor of `%s`" % ("/" if st["rv"]["op"] == "Div" else "%"), st["span"]))
            t = bl["term"]
            if t and t["k"] == "call" and t["func"].get("fn") and t["func"]["fn"]["name"] in ZERO_PANIC_CALLS and len(t["args"]) >= 2 \
                    and re.match(r"^core::(slice|iter)", t["func"]["fn"]["path"]):
                sites.append((bi, "term", t["args"][1], "argument of %s()" % t["func"]["fn"]["name"], t["span"]))
        if not sites:
            continue
        Z = ZFn(bd, {})
        tracked = []

        def add(k):
            if k is not None and k not in tracked:
                tracked.append(k)
        uses = {}
        for bl in bd["blocks"]:
            for st in bl["stmts"]:
                if st["k"] == "assign":
                    rv = st["rv"]
                    for o in [rv.get("o"), rv.get("l"), rv.get("r")] + list(rv.get("fields", [])):
                        if o and o.get("k") in ("copy", "move"):
                            uses[o["p"]["local"]] = uses.get(o["p"]["local"], 0) + 1
            t = bl["term"]
            if t:
                for o in [t.get("discr"), t.get("cond")] + list(t.get("args", [])):
                    if o and o.get("k") in ("copy", "move"):
                        uses[o["p"]["local"]] = uses.get(o["p"]["local"], 0) + 1

        def slice_from(o, depth=0):
            if o is None or o["k"] not in ("copy", "move") or depth > 8:
                return
            key = Z.canon(o["p"])
            l = o["p"]["local"]
            ds = Z.defs.get(l, [])
            simple = len(ds) == 1 and ds[0][0] == "rv" and ds[0][1]["k"] in ("use", "cast", "binop") and (uses.get(l, 0) <= 1 or bool(o["p"]["proj"]))
            if not (key[0] == "L" and l > bd["arg_count"] and simple):
                add(key)
            if not o["p"]["proj"] or (len(o["p"]["proj"]) == 1 and o["p"]["proj"][0]["k"] == "field"):
                for d in ds:
                    if d[0] == "rv":
                        for sub in _subs(d[1]):
                            slice_from(sub, depth + 1)
        for (bi, si, o, what, span) in sites:
            slice_from(o)
        found = {}

        def sinks(bb, si, node, states, keys):
            for (sb, ss, o, what, span) in sites:
                if sb != bb or ss != si:
                    continue
                zero_possible = False
                for V in states:
                    vals = Z.val_operand(o, V) & {"Z", "NZ"}
                    if "Z" in vals or not vals:
                        zero_possible = True
                e = found.setdefault((what, span["lo"], span["col"]), {"zero": False, "span": span, "n": 0, "what": what})
                e["zero"] = e["zero"] or zero_possible
                e["n"] += len(states)
        # a method on an array / view starts from the receiver's invariant: rows == 0 <=> cols == 0, and a view's stride is at
        # least its width, so it is non-zero whenever the view is non-empty
        pairs, imps = [], []
        # dimensions read through the receiver's getters obey the zero rule as well (generic `Self: TooDeeOps` code)
        getters = {fn_["name"] for bl in bd["blocks"] for fn_ in [((bl["term"] or {}).get("func") or {}).get("fn") or {}] if (bl["term"] or {}).get("k") == "call" and fn_.get("name") in ("num_rows", "num_cols", "is_empty") and fn_.get("krate") not in ("core", "alloc", "std")}
        if getters and bd["arg_count"] >= 1:
            gk_c, gk_r = ("G", 1, "num_cols"), ("G", 1, "num_rows")
            add(gk_c); add(gk_r); pairs.append((gk_r, gk_c))
        if b.self_head in ("Rows", "RowsMut") and bd["arg_count"] >= 1:
            # cursor invariant: the remaining slice is whole rows of `cols` cells, so a non-empty slice means cols > 0; usable
            # only while the function never replaces the slice
            adc = [a for a in f.adts if a["id"].split("::")[-1] == b.self_head]
            fic = {x["name"]: i for i, x in enumerate(adc[0]["fields"])} if adc else {}
            if "v" in fic and "cols" in fic:
                byref = bd["locals"][1].startswith("&")
                vi = fic["v"]
                touched = False
                for bl in bd["blocks"]:
                    for st in bl["stmts"]:
                        if st["k"] == "assign":
                            pp = st["p"]
                            if pp["local"] == 1 and any(e["k"] == "field" and e["i"] == vi for e in pp["proj"]):
                                touched = True
                            rv = st["rv"]
                            if rv["k"] in ("ref", "rawptr") and rv.get("mut", True) and rv["p"]["local"] == 1 and any(e["k"] == "field" and e["i"] == vi for e in rv["p"]["proj"]) and not any(e["k"] == "deref" for e in rv["p"]["proj"][1 if byref else 0:]):
                                touched = True
                if not touched:
                    lk = ("LEN", 1, vi)
                    ck = ("F", 1, fic["cols"]) if byref else ("L", 1, fic["cols"])
                    add(lk); add(ck); imps.append((lk, ck))
        if bd["arg_count"] >= 1:
            ty1 = bd["locals"][1]
            byref = ty1.startswith("&")
            hd = re.sub(r"^&('\S+ )?(mut )?", "", ty1)
            adt = [a for a in f.adts if a["id"].split("::")[-1] in ("TooDee", "TooDeeView", "TooDeeViewMut") and re.match(r"^(\w+::)*%s<" % a["id"].split("::")[-1], hd)]
            if adt:
                fi = {x["name"]: i for i, x in enumerate(adt[0]["fields"])}
                def fkey(nm): return (("F", 1, fi[nm]) if byref else ("L", 1, fi[nm])) if nm in fi else None
                rk, ck, sk = fkey("num_rows"), fkey("num_cols"), fkey("stride")
                if any(k in tracked for k in (rk, ck, sk) if k):
                    if rk and ck:
                        add(rk); add(ck); pairs.append((rk, ck))
                    if sk and ck:
                        add(sk); imps.append((ck, sk))
                # the getters of a concrete array type return the fields: `if !self.is_empty() { .. self.num_cols .. }` - linked
                # as long as the function never stores to the two fields
                if getters and rk and ck:
                    stores_dim = any(st["k"] == "assign" and st["p"]["local"] == 1 and any(e["k"] == "field" and e["i"] in (fi["num_rows"], fi["num_cols"]) for e in st["p"]["proj"])
                                     for bl in bd["blocks"] for st in bl["stmts"])
                    if not stores_dim:
                        gk_c, gk_r = ("G", 1, "num_cols"), ("G", 1, "num_rows")
                        add(rk); add(ck)
                        if (rk, ck) not in pairs:
                            pairs.append((rk, ck))
                        imps += [(gk_c, ck), (ck, gk_c), (gk_r, rk), (rk, gk_r)]
        try:
            Z.run(tracked, pairs, sinks, imps)
        except RecursionError:
            R.inconc(b.ident, "recursion limit")
            continue
        if not phase2:
            # which parameters, forced non-zero, make every site safe?
            if any(e["zero"] for e in found.values()):
                pks = [("L", i) for i in range(1, bd["arg_count"] + 1) if bd["locals"][i] == "usize"]
                for cand in [[k] for k in pks] + ([pks] if len(pks) > 1 else []):
                    found.clear()
                    for k in cand:
                        add(k)
                    try:
                        Z.run(tracked, pairs, sinks, imps, entry_nz=cand)
                    except RecursionError:
                        break
                    if found and not any(e["zero"] for e in found.values()):
                        reqs[b.id] = [k[1] for k in cand]
                        break
            continue
        ords = {}
        for key in sorted(found, key=lambda k: (k[0], k[1], k[2])):
            e = found[key]
            o = ords.get(e["what"], 0)
            ords[e["what"]] = o + 1
            n += 1
            ok = not e["zero"]
            R.inst(b.ident, "%s #%d is non-zero in every abstract state reaching it (%d states)" % (e["what"], o, e["n"]), ok)
            if not ok:
                R.fail(b.ident, "%s#%d" % (e["what"], o), "%s: the %s can be zero on a path that reaches it (e.g. an empty array / view has zero columns): the call panics where the operation is specified for every shape including empty ones" % (b.ident, e["what"]), b.where(e["span"]))
    # is_empty(): true exactly for the empty array.  Under the zero rule the receiver is (0,0) or (non-zero, non-zero): every
    # `return true` is reached only from the first state, every `return false` only from the second
    for b in f.fn_bodies:
        if b.name != "is_empty" or b.kind != "AssocFn" or not (b.trait_provided or b.impl_trait) or (b.trait_head or "") not in ("TooDeeOps",):
            continue
        bd = b.d
        Z = ZFn(bd, {})
        gk_c, gk_r = ("G", 1, "num_cols"), ("G", 1, "num_rows")
        keys_ = [gk_c, gk_r]
        # locals that receive the getters' results
        for bl in bd["blocks"]:
            t = bl["term"]
            if t and t["k"] == "call" and (t["func"].get("fn") or {}).get("name") in ("num_cols", "num_rows"):
                k_ = Z.canon(t["dest"])
                if k_ and k_ not in keys_:
                    keys_.append(k_)
        rets = []
        # `_0 = tmp` / `_0 = !tmp` where tmp is a bool assigned on several branches (`a && b`, `!(a && b)`): judge the
        # assignments of tmp instead, with the negation applied
        ndefs = {}
        for bl in bd["blocks"]:
            for st in bl["stmts"]:
                if st["k"] == "assign" and not st["p"]["proj"]:
                    ndefs[st["p"]["local"]] = ndefs.get(st["p"]["local"], 0) + 1
        watch = {0: False}
        for bl in bd["blocks"]:
            for st in bl["stmts"]:
                if st["k"] == "assign" and st["p"]["local"] == 0 and not st["p"]["proj"]:
                    rv = st["rv"]
                    neg = False
                    o = None
                    if rv["k"] == "use":
                        o = rv["o"]
                    elif rv["k"] == "unop" and rv["op"] == "Not":
                        o, neg = rv["o"], True
                    if o is not None and o["k"] in ("copy", "move") and not o["p"]["proj"] and ndefs.get(o["p"]["local"], 0) >= 2:
                        watch[o["p"]["local"]] = neg
        indirect = set(watch) - {0}

        def sinks_(bb, si, node, states, keys):
            if isinstance(node, dict) and node.get("k") == "assign" and node["p"]["local"] in watch and not node["p"]["proj"]:
                l_ = node["p"]["local"]
                if l_ == 0 and indirect:
                    rv = node["rv"]
                    o = rv.get("o")
                    if o is not None and o.get("k") in ("copy", "move") and o["p"]["local"] in indirect:
                        return
                for V in states:
                    vals = Z.val_rvalue(node["rv"], V) & {True, False}
                    for val in (vals or {True, False}):
                        rets.append((val != watch[l_], V[gk_c], V[gk_r]))
        try:
            Z.run(keys_, [(gk_r, gk_c)], sinks_)
        except RecursionError:
            continue
        if not rets:
            continue
        n += 1
        badr = sorted({(v, c, r) for v, c, r in rets if v != (c == "Z")})
        R.inst(b.ident, "is_empty() returns true exactly when the dimensions are zero (%d abstract return states)" % len(rets), not badr)
        if badr:
            R.fail(b.ident, "is_empty:%s" % ",".join("%s@%s%s" % x for x in badr), "%s returns %s for an array whose dimensions are %s: is_empty() no longer means 'no cells'" % (b.ident, badr[0][0], "zero" if badr[0][1] == "Z" else "non-zero"), b.where())
    R.require_floor(n, 2, "zero-sensitive sites (divisions, chunks*, step_by)")
    return R, n
