"""R-CURSOR (DESIGN 3.5): the gated value graph of (result, final cursor slice) of every update function of
the four strided cursors, evaluated path-wise over canonical polynomials, must equal the ideal strided-cursor
update.  A path on which the evaluator understood every primitive but whose facts do not determine the
schema's case split is a mismatch; a primitive without a transfer function makes the function inconclusive
(listed, never a violation)."""
import re
from .core import Result, AnchorMissing
from .vgraph import (Poly, ZERO, ONE, Slice, Elem, RefTo, Tup, Adt, Cond, Gamma, Unknown, EMPTY, Inconclusive, strip_ref, decide, saturate)


class Path:
    def __init__(s, env, mem, conds, actions): s.env, s.mem, s.conds, s.actions = env, mem, conds, actions
    def fork(s):
        return Path(dict(s.env), {k: list(v) for k, v in s.mem.items()}, list(s.conds), list(s.actions))


class PanicPath(Exception): pass


class Eval:
    BODIES = {}          # def id -> body dict (crate functions and closures that may be inlined)
    SHADOWS = {}         # def id of an inherent cursor method that hides an iterator-trait method -> that trait
    _fid = [0]
    def __init__(s, body, selfdesc, frame=0, top=None, inl=0):
        s.b, s.selfdesc = body, selfdesc
        s.results = []
        s.frame, s.top, s.inl = frame, (top or s), inl
    def k(s, local):
        """environment key of a local: plain number in the analysed function, (frame, number) in an inlined callee"""
        return local if s.frame == 0 else (s.frame, local)
    def ptype(s, p):
        ty = s.b["locals"][p["local"]]
        for e in p["proj"]:
            if e["k"] == "deref": ty = strip_ref(ty) or "?"
            elif e["k"] == "field": ty = e["ty"]
        return ty
    def resolve(s, P, p):
        """returns ('env', local, path) or ('mem', root, path) for a place"""
        where, root, path = "env", s.k(p["local"]), []
        for e in p["proj"]:
            if e["k"] == "deref":
                v = s.read_loc(P, where, root, path)
                if isinstance(v, RefTo): where, root, path = "mem", v.root, list(v.path)
                else: path = path + ["*"]     # deref of slice/elem ref: identity
            elif e["k"] == "field": path = path + [e["i"]]
            elif e["k"] == "downcast": pass
            else: raise Inconclusive("projection " + e["k"])
        return where, root, path
    def read_loc(s, P, where, root, path):
        if where == "env": v = P.env.get(root)
        elif isinstance(root, tuple) and root and root[0] == "env": v = P.env.get(root[1])
        else: v = Tup(P.mem[root])
        for i in path:
            if i == "*": continue
            if isinstance(v, (Tup, Adt)): v = v.f[i]
            elif isinstance(v, Unknown): v = Unknown(v.tag + ".%s" % i)
            else: raise Inconclusive("field of %r" % (v,))
        return v
    def read(s, P, p): return s.read_loc(P, *s.resolve(P, p))
    def write(s, P, p, val):
        where, root, path = s.resolve(P, p)
        path = [i for i in path if i != "*"]
        if where == "mem" and isinstance(root, tuple) and root and root[0] == "env":
            where, root = "env", root[1]
        if where == "env":
            if not path: P.env[root] = val; return
            cur = P.env.get(root)
            if cur is None: cur = P.env[root] = Tup([Unknown("u")] * 4)
        else:
            if not path: P.mem[root] = list(val.f); return
            cur = Tup(P.mem[root]);
            if len(path) == 1: P.mem[root][path[0]] = val; return
        for i in path[:-1]: cur = cur.f[i]
        cur.f[path[-1]] = val
    def operand(s, P, o):
        if o["k"] in ("copy", "move"): return s.read(P, o["p"])
        if o["k"] == "const":
            v, ty = o["val"], o["ty"]
            if "promoted" in v and ("; 0]" in ty or "; 0_usize]" in ty): return EMPTY
            m = re.match(r"^const (\d+)_usize$", v) or re.match(r"^(\d+)_usize$", v)
            if m: return Poly.const(int(m.group(1)))
            if v in ("const true", "true"): return Cond("==", ZERO)
            if v in ("const false", "false"): return Cond("!=", ZERO)
            if v.endswith("()"): return Tup([])
            return Unknown("const:" + v)
        raise Inconclusive("operand")
    def rvalue(s, P, r, dest):
        k = r["k"]
        if k == "use": return s.operand(P, r["o"])
        if (k == "ref" or k == "rawptr") and r["p"]["proj"] and r["p"]["proj"][-1]["k"] == "index":
            # &slice[i] (the bounds check is the preceding BoundsCheck assertion)
            base = s.read(P, {"local": r["p"]["local"], "proj": r["p"]["proj"][:-1]})
            iv = P.env.get(s.k(r["p"]["proj"][-1]["local"]))
            if isinstance(base, Slice) and isinstance(iv, Poly):
                return Elem(base.lo + iv)
            raise Inconclusive("index projection on %r[%r]" % (base, iv))
        if k == "ref" or k == "rawptr":
            pty = s.ptype(r["p"])
            if pty.startswith("&"):      # reference to a reference-typed place
                where, root, path = s.resolve(P, r["p"])
                path = [i for i in path if i != "*"]
                if where == "mem": return RefTo(root, path)
                return RefTo(("env", root), path)
            return s.read(P, r["p"])     # reborrow of slice / element
        if k == "binop":
            a, b = s.operand(P, r["l"]), s.operand(P, r["r"]); op = r["op"]
            if isinstance(a, Poly) and isinstance(b, Poly):
                if op.startswith("Add") and getattr(s.top, "track_adds", None) is not None:
                    s.top.track_adds.append((a, b, list(P.conds), r.get("span")))
                if op in ("Add", "AddUnchecked"): return a + b
                if op in ("Sub", "SubUnchecked"): return a - b
                if op in ("Mul", "MulUnchecked"): return a * b
                if op == "AddWithOverflow": return Tup([a + b, Cond("atom", atom="lang_ovf")])
                if op == "SubWithOverflow": return Tup([a - b, Cond("atom", atom="lang_ovf")])
                if op == "MulWithOverflow": return Tup([a * b, Cond("atom", atom="lang_ovf")])
                if op in ("Eq", "Ne", "Lt", "Le", "Gt", "Ge"):
                    return Cond({"Eq": "==", "Ne": "!=", "Lt": "<", "Le": "<=", "Gt": ">", "Ge": ">="}[op], a - b)
                if op in ("Div", "Rem"):
                    qr = divmod_sym(P.conds, a, b)
                    if qr is not None:
                        return qr[0] if op == "Div" else qr[1]
                    if op == "Div": return Poly.atom("(%r)/(%r)" % (a, b))
                    return Poly.atom("(%r)%%(%r)" % (a, b))
            raise Inconclusive("binop %s on %r,%r" % (op, a, b))
        if k == "unop":
            a = s.operand(P, r["o"])
            if r["op"] == "Not" and isinstance(a, Cond): return a.neg()
            if r["op"] == "PtrMetadata" and isinstance(a, Slice): return a.len()
            raise Inconclusive("unop " + r["op"])
        if k == "cast": return s.operand(P, r["o"])
        if k == "agg":
            f = [s.operand(P, x) for x in r["fields"]]
            if r["agg"] == "tuple": return Tup(f)
            if r["agg"] == "adt": return Adt(r["adt"], r["variant"], f)
            if r["agg"] == "closure" and r.get("def") in Eval.BODIES: return Adt("closure", r["def"], f)
            if r["agg"] == "array": return Unknown("array")        # the argument array of a formatted panic message
            raise Inconclusive("aggregate " + r["agg"])
        if k == "discr":
            return ("discr", s.read(P, r["p"]))
        raise Inconclusive("rvalue " + k)
    def subslice(s, sl, rng):
        if isinstance(rng, Poly): return Elem(sl.lo + rng)
        if isinstance(rng, Adt):
            if rng.variant == "RangeFrom": return Slice(sl.lo + rng.f[0], sl.hi)
            if rng.variant == "RangeTo": return Slice(sl.lo, sl.lo + rng.f[0])
            if rng.variant == "Range": return Slice(sl.lo + rng.f[0], sl.lo + rng.f[1])
        raise Inconclusive("range %r" % (rng,))
    def bounded(s, P, name, sl, rng, make):
        """fork on the precondition of a slice access: the in-bounds paths continue with make(), the others end in a panic (a
        checked access) / undefined behaviour (an unchecked one) - an outcome no ideal path has.  A bounds-failure path that no
        concrete cursor state reaches is dropped by the judge (the cursor invariant makes it infeasible)."""
        ln = sl.len()
        if isinstance(rng, Poly): cs = [Cond("<", rng - ln)] if name != "split" else [Cond("<=", rng - ln)]
        elif isinstance(rng, Adt) and rng.variant in ("RangeFrom", "RangeTo"): cs = [Cond("<=", rng.f[0] - ln)]
        elif isinstance(rng, Adt) and rng.variant == "Range": cs = [Cond("<=", rng.f[0] - rng.f[1]), Cond("<=", rng.f[1] - ln)]
        else: return make(P)
        paths = [P]
        for c in cs:
            nxt = []
            for Q0 in paths:
                for Q, truth in s.fork_on(Q0, c):
                    if truth: nxt.append(Q)
                    else:
                        s.top.results.append((Q.conds, Q.actions + [("PANIC", "bounds:" + name)], Unknown("PANIC:" + name), Q.mem["self"][0] if "self" in Q.mem else None))
            paths = nxt
        return ("multi", [(Q, make(Q)) for Q in paths])
    # ---- multi-path helpers
    def fork_on(s, P, cond):
        """[(path, truth)] for the feasible outcomes of a condition"""
        out = []
        for truth, c in ((True, cond), (False, cond.neg())):
            dec = decide(P.conds, c)
            if dec is False: continue
            Q = P.fork()
            if dec is None: Q.conds.append(c)
            out.append((Q, truth))
        return out
    def opt_cases(s, P, v):
        """[(path, Adt)] : an Option / ControlFlow value resolved to its variants"""
        if isinstance(v, RefTo): v = s.read_loc(P, "mem", v.root, list(v.path))
        if isinstance(v, Adt): return [(P, v)]
        if isinstance(v, Gamma):
            out = []
            for Q, truth in s.fork_on(P, v.cond):
                out += s.opt_cases(Q, v.a if truth else v.b)
            return out
        raise Inconclusive("option value %r" % (v,))
    def inline(s, P, body, args):
        if s.inl >= 3: raise Inconclusive("inlining depth")
        Eval._fid[0] += 1
        sub = Eval(body, s.selfdesc, frame=Eval._fid[0], top=s.top, inl=s.inl + 1)
        for i, a in enumerate(args): P.env[sub.k(i + 1)] = a
        sub.step(P, 0, 0)
        return sub.results
    def call_closure(s, P, clo, args):
        if isinstance(clo, RefTo): clo = s.read_loc(P, "mem", clo.root, list(clo.path))
        if isinstance(clo, Adt) and clo.name == "closure":
            return s.inline(P, Eval.BODIES[clo.variant], [Tup(clo.f)] + list(args))
        if isinstance(clo, Unknown) and clo.tag.startswith("const:") and False:
            pass
        raise Inconclusive("call of %r" % (clo,))
    def default_of(s, t):
        ty = s.b["locals"][t["dest"]["local"]]
        if "[" in ty: return EMPTY
        if ty in ("usize",): return ZERO
        raise Inconclusive("default of " + ty)
    def call(s, P, t):
        fn = t["func"].get("fn")
        if not fn: raise Inconclusive("indirect call")
        # a call that resolves to an inherent method hiding a trait method of the cursor (`self.len()` with an inherent `len`): that
        # method is judged on its own under the trait method's identity, so here it is the trait call
        sh_ = Eval.SHADOWS.get(fn.get("resolved") or fn.get("path") or "")
        if sh_ and s.b.get("id") != (fn.get("resolved") or fn.get("path")):
            fn = dict(fn, trait=sh_, resolved=None)
        path, name = fn["path"], fn["name"]
        args = [s.operand(P, a) for a in t["args"]]
        NONE = Adt("Option", "None", [])
        if path.startswith("core::option::Option::<T>::"):
            out = []
            for Q, o in s.opt_cases(P, args[0]):
                some = o.variant == "Some"
                x = o.f[0] if some and o.f else None
                if name in ("map", "and_then", "filter", "is_some_and", "map_or", "map_or_else"):
                    ci = 2 if name in ("map_or", "map_or_else") else 1
                    if not some:
                        if name == "map_or": out.append((Q, args[1]))
                        elif name == "map_or_else":
                            out += [(Q2, r) for Q2, r in s.call_closure(Q, args[1], [])]
                        elif name == "is_some_and": out.append((Q, Cond("!=", ZERO)))
                        else: out.append((Q, NONE))
                        continue
                    for Q2, r in s.call_closure(Q, args[ci], [x]):
                        if name == "map": out.append((Q2, Adt("Option", "Some", [r])))
                        elif name in ("and_then", "map_or", "map_or_else", "is_some_and"): out.append((Q2, r))
                        else:       # filter
                            if not isinstance(r, Cond): raise Inconclusive("filter predicate %r" % (r,))
                            for Q3, truth in s.fork_on(Q2, r):
                                out.append((Q3, Adt("Option", "Some", [x]) if truth else NONE))
                elif name in ("unwrap_or", "unwrap_or_default", "unwrap_or_else"):
                    if some: out.append((Q, x))
                    elif name == "unwrap_or": out.append((Q, args[1]))
                    elif name == "unwrap_or_default": out.append((Q, s.default_of(t)))
                    else: out += s.call_closure(Q, args[1], [])
                elif name in ("unwrap", "expect", "unwrap_unchecked"):
                    if some: out.append((Q, x))
                    else: s.top.results.append((Q.conds, Q.actions + [("PANIC", name)], Unknown("PANIC:" + name), Q.mem["self"][0]))
                elif name in ("is_some", "is_none"):
                    out.append((Q, Cond("==", ZERO) if (some == (name == "is_some")) else Cond("!=", ZERO)))
                elif name in ("ok_or", "ok_or_else"):
                    out.append((Q, Adt("Result", "Ok", [x]) if some else Adt("Result", "Err", [Unknown("err")])))
                elif name in ("take",):
                    raise Inconclusive("Option::take")
                else:
                    raise Inconclusive("call " + path)
            return ("multi", out)
        if path in ("core::num::<impl usize>::saturating_sub",) and all(isinstance(a, Poly) for a in args):
            return ("multi", [(Q, (args[0] - args[1]) if truth else ZERO) for Q, truth in s.fork_on(P, Cond(">=", args[0] - args[1]))])
        if (path in ("core::cmp::min", "core::cmp::max", "core::cmp::Ord::min", "core::cmp::Ord::max")) and len(args) == 2 and all(isinstance(a, Poly) for a in args):
            lo = name == "min"
            return ("multi", [(Q, (args[0] if truth else args[1]) if lo else (args[1] if truth else args[0])) for Q, truth in s.fork_on(P, Cond("<=", args[0] - args[1]))])
        if path.startswith("core::slice::<impl [T]>::"):
            sl = args[0]
            if not isinstance(sl, Slice): raise Inconclusive("%s on %r" % (name, sl))
            if name == "is_empty": return Cond("==", sl.len())
            if name == "len": return sl.len()
            if name in ("split_at", "split_at_mut"):
                P.actions.append(("checked", "split_at", repr(args[1]), repr(sl.len())))
                if isinstance(args[1], Poly):
                    return s.bounded(P, "split", sl, args[1], lambda Q: Tup([Slice(sl.lo, sl.lo + args[1]), Slice(sl.lo + args[1], sl.hi)]))
                return Tup([Slice(sl.lo, sl.lo + args[1]), Slice(sl.lo + args[1], sl.hi)])
            if name in ("split_first", "split_first_mut"):
                return Gamma(Cond("!=", sl.len()), Adt("Option", "Some", [Tup([Elem(sl.lo), Slice(sl.lo + ONE, sl.hi)])]), Adt("Option", "None", []))
            if name in ("split_last", "split_last_mut"):
                return Gamma(Cond("!=", sl.len()), Adt("Option", "Some", [Tup([Elem(sl.hi - ONE), Slice(sl.lo, sl.hi - ONE)])]), Adt("Option", "None", []))
            if name in ("get_unchecked", "get_unchecked_mut"): return s.bounded(P, "get_unchecked", sl, args[1], lambda Q: s.subslice(sl, args[1]))
            if name in ("get", "get_mut"):
                rng = args[1]
                some = Adt("Option", "Some", [s.subslice(sl, rng)])
                if isinstance(rng, Poly): return Gamma(Cond("<", rng - sl.len()), some, NONE)
                if isinstance(rng, Adt) and rng.variant == "RangeFrom": return Gamma(Cond("<=", rng.f[0] - sl.len()), some, NONE)
                if isinstance(rng, Adt) and rng.variant == "RangeTo": return Gamma(Cond("<=", rng.f[0] - sl.len()), some, NONE)
                if isinstance(rng, Adt) and rng.variant == "Range":
                    return Gamma(Cond("<=", rng.f[0] - rng.f[1]), Gamma(Cond("<=", rng.f[1] - sl.len()), some, NONE), NONE)
                raise Inconclusive("get(%r)" % (rng,))
            if name in ("first", "first_mut"): return Gamma(Cond("!=", sl.len()), Adt("Option", "Some", [Elem(sl.lo)]), NONE)
            if name in ("last", "last_mut"): return Gamma(Cond("!=", sl.len()), Adt("Option", "Some", [Elem(sl.hi - ONE)]), NONE)
            if name in ("split_at_checked", "split_at_mut_checked"):
                return Gamma(Cond("<=", args[1] - sl.len()), Adt("Option", "Some", [Tup([Slice(sl.lo, sl.lo + args[1]), Slice(sl.lo + args[1], sl.hi)])]), NONE)
        if path in ("core::ops::Index::index", "core::ops::IndexMut::index_mut") and isinstance(args[0], Slice):
            P.actions.append(("checked", "index", repr(args[1]), repr(args[0].len())))
            return s.bounded(P, "index", args[0], args[1], lambda Q: s.subslice(args[0], args[1]))
        if path == "core::mem::take":
            r = args[0]
            if not isinstance(r, RefTo): raise Inconclusive("take of %r" % (r,))
            old = P.mem[r.root][r.path[0]] if not isinstance(r.root, tuple) else P.env[r.root[1]]
            if isinstance(r.root, tuple): P.env[r.root[1]] = EMPTY
            else: P.mem[r.root][r.path[0]] = EMPTY
            return old
        if path == "core::num::<impl usize>::overflowing_mul":
            prod = args[0] * args[1]
            return Tup([prod, Cond("atom", atom="ovf(%r)" % (prod,))])
        if path in ("core::num::<impl usize>::overflowing_add", "core::num::<impl usize>::overflowing_sub") and all(isinstance(a, Poly) for a in args):
            res_ = args[0] + args[1] if name == "overflowing_add" else args[0] - args[1]
            return Tup([res_, Cond("atom", atom="ovf(%r)" % (res_,))])
        if path == "core::num::<impl usize>::saturating_mul" and all(isinstance(a, Poly) for a in args):
            # n.saturating_mul(step): the product, or usize::MAX when it overflows - and usize::MAX is not below any slice length
            prod = args[0] * args[1]
            out = []
            for Q, truth in s.fork_on(P, Cond("atom", atom="ovf(%r)" % (prod,))):
                if truth:
                    Q.conds.append(Cond(">=", Poly.atom("MAX") - L))
                    Q.conds.append(Cond(">", Poly.atom("MAX")))
                    out.append((Q, Poly.atom("MAX")))
                else:
                    out.append((Q, prod))
            return ("multi", out)
        if path in ("core::num::<impl usize>::checked_mul", "core::num::<impl usize>::checked_add", "core::num::<impl usize>::checked_sub") and all(isinstance(a, Poly) for a in args):
            if name == "checked_mul":
                prod = args[0] * args[1]
                return Gamma(Cond("natom", atom="ovf(%r)" % (prod,)), Adt("Option", "Some", [prod]), Adt("Option", "None", []))
            if name == "checked_add":
                return Adt("Option", "Some", [args[0] + args[1]])        # language-level overflow is out of scope here
            return Gamma(Cond(">=", args[0] - args[1]), Adt("Option", "Some", [args[0] - args[1]]), Adt("Option", "None", []))
        if name == "branch" and "Try" in path:
            out = []
            for Q, o in s.opt_cases(P, args[0]):
                out.append((Q, Adt("ControlFlow", "Continue", [o.f[0]] if o.f else []) if o.variant in ("Some", "Ok") else Adt("ControlFlow", "Break", [NONE])))
            return ("multi", out)
        if name == "from_residual":
            return Adt("Option", "None", [])
        if name == "len" and (fn.get("trait") or "").endswith("ExactSizeIterator") and "self" in P.mem and isinstance(P.mem["self"][0], Slice) \
                and P.mem["self"][0].lo == ZERO and P.mem["self"][0].hi == L and getattr(s.top, "W", None) is not None and getattr(s.top, "method", "") in ("next", "next_back", "nth", "nth_back"):
            # the number of remaining items of the untouched cursor: 0, or m >= 1 with L = (m-1)*(W+K) + W (cursor invariant;
            # size_hint's own conformance is checked separately)
            out = []
            for Q, truth in s.fork_on(P, Cond("==", L)):
                if truth:
                    out.append((Q, ZERO))
                else:
                    Q.conds.append(Cond(">=", Poly.atom("m") - ONE))
                    Q.actions.append(("SUBST_L",))
                    out.append((Q, Poly.atom("m")))
            return ("multi", out)
        if name in ("len", "size_hint") and getattr(getattr(s, "top", s), "div_strict", False):
            # size_hint written in terms of the type's own len() override (or the reverse): follow it
            cb0 = Eval.BODIES.get(fn.get("resolved") or "")
            if cb0 is not None and cb0.get("blocks") and cb0.get("id") != s.b.get("id") and getattr(s, "_len_depth", 0) < 2:
                s._len_depth = getattr(s, "_len_depth", 0) + 1
                try:
                    return ("multi", s.inline(P, cb0, args))
                finally:
                    s._len_depth -= 1
        if fn.get("trait") in ("core::iter::Iterator", "core::iter::DoubleEndedIterator", "core::iter::ExactSizeIterator") or \
           (fn.get("trait") or "").endswith("Iterator"):
            # call on self: record as action with the current cursor state
            st_ = P.mem["self"][0] if "self" in P.mem else None
            P.actions.append(("CALL", name, st_.canon() if isinstance(st_, Slice) else repr(args[0]), st_))
            return Unknown("ret:" + name)
        cb = Eval.BODIES.get(fn.get("resolved") or path) or Eval.BODIES.get(path)
        if cb is not None and cb.get("blocks"):
            return ("multi", s.inline(P, cb, args))
        if path.startswith("core::fmt::"):
            return Unknown("fmt")          # building a panic message
        raise Inconclusive("call " + path)
    def run(s):
        b = s.b
        P = Path({}, {}, list(getattr(s, "initial_conds", [])), [])
        selfty = b["locals"][1]
        if selfty.startswith("&"):
            P.mem["self"] = list(s.selfdesc); P.env[1] = RefTo("self", [])
        else:
            P.env[1] = Tup(list(s.selfdesc))      # by-value self (count, last)
            P.mem["self"] = P.env[1].f
        if b["arg_count"] >= 2: P.env[2] = Poly.atom("n")
        s.step(P, 0, 0)
        return s.results
    def step(s, P, bb, depth, start=0):
        if depth > 200: raise Inconclusive("loop")
        bl = s.b["blocks"][bb]
        for si in range(start, len(bl["stmts"])):
            st = bl["stmts"][si]
            if st["k"] != "assign": continue
            rv = st["rv"]
            if rv["k"] == "cast" and rv["ty"] in ("usize", "u64", "u32", "isize") :
                v0 = s.operand(P, rv["o"])
                if isinstance(v0, Cond):
                    # bool -> integer: fork on the condition
                    for cond, val in ((v0, ONE), (v0.neg(), ZERO)):
                        dec = decide(P.conds, cond)
                        if dec is False: continue
                        Q = P.fork()
                        if dec is None: Q.conds.append(cond)
                        s.write(Q, st["p"], val)
                        s.step(Q, bb, depth + 1, si + 1)
                    return
            if rv["k"] == "binop" and rv["op"] in ("Sub", "SubWithOverflow", "SubUnchecked") and getattr(s.top, "method", "") in ("next", "next_back", "nth", "nth_back"):
                # a - b on usize: when b can exceed a the subtraction panics (overflow checks on) or wraps to a huge length that the
                # following unchecked access takes at face value: a bounds failure like any other
                a0, b0 = s.operand(P, rv["l"]), s.operand(P, rv["r"])
                if isinstance(a0, Poly) and isinstance(b0, Poly):
                    cnd = Cond(">=", a0 - b0)
                    dec = decide(P.conds, cnd)
                    if dec is None:
                        dec = decide(saturate(P.conds), cnd)
                    if dec is not True:
                        for Q, truth in s.fork_on(P, cnd):
                            if truth:
                                s.write(Q, st["p"], s.rvalue(Q, st["rv"], st["p"]))
                                s.step(Q, bb, depth + 1, si + 1)
                            else:
                                s.top.results.append((Q.conds, Q.actions + [("PANIC", "bounds:sub")], Unknown("PANIC:sub"), Q.mem["self"][0] if "self" in Q.mem else None))
                        return
            v = s.rvalue(P, st["rv"], st["p"])
            s.write(P, st["p"], v)
        t = bl["term"]; k = t["k"]
        if k == "goto": return s.step(P, t["target"], depth + 1)
        if k == "return" and s.frame != 0:
            s.results.append((P, P.env.get(s.k(0))))
            return
        if k == "return":
            ret = P.env.get(0)
            s.results.append((P.conds, P.actions, ret, P.mem["self"][0] if isinstance(P.mem["self"][0], Slice) else P.mem["self"][0]))
            return
        if k == "assert" and t.get("kind") == "DivisionByZero" and getattr(s, "div_strict", False):
            # size_hint / len under the cursor invariant: a divisor that the case's facts do not make non-zero can be zero
            # (an empty array has cols = 0 and skip_cols = 0): the call panics where the ideal cursor reports 0 items
            c0 = s.operand(P, t["cond"])
            if isinstance(c0, Cond):
                nz = decide(P.conds, c0.neg() if t.get("expected") is False else c0)
                if nz is not True:
                    nz = decide(saturate(P.conds), c0.neg() if t.get("expected") is False else c0)
                dv = c0.poly
                if nz is not True and isinstance(dv, Poly) and dv.t.get((), 0) > 0 and all(v >= 0 for v in dv.t.values()):
                    nz = True      # every atom is a usize: a positive constant plus non-negative terms is not zero
                if nz is not True:
                    s.results.append((P.conds, P.actions, Poly.atom("PANIC:division by zero"), None))
                    return
            return s.step(P, t["target"], depth + 1)
        if k == "assert" and t.get("kind") == "BoundsCheck" and getattr(s.top, "method", "") == "index":
            c0 = s.operand(P, t["cond"])
            if isinstance(c0, Cond):
                for Q, truth in s.fork_on(P, c0 if t.get("expected") is not False else c0.neg()):
                    if truth: s.step(Q, t["target"], depth + 1)
                    else: s.top.results.append((Q.conds, Q.actions + [("PANIC", "index out of bounds")], Unknown("PANIC:index"), None))
                return
        if k == "assert": return s.step(P, t["target"], depth + 1)    # language overflow asserts: success edge
        if k == "drop": return s.step(P, t["target"], depth + 1)
        if k == "call":
            fnr = t["func"].get("fn") or {}
            if fnr.get("name") == "from" and t["args"] and (fnr.get("args") or [""])[-1] == "bool":
                v0 = s.operand(P, t["args"][0])
                if isinstance(v0, Cond):
                    for cond, val in ((v0, ONE), (v0.neg(), ZERO)):
                        dec = decide(P.conds, cond)
                        if dec is False: continue
                        Q = P.fork()
                        if dec is None: Q.conds.append(cond)
                        s.write(Q, t["dest"], val)
                        s.step(Q, t["target"], depth + 1)
                    return
            if t["target"] is None and (fnr.get("path") or "").startswith("core::panicking::"):
                # an explicit panic (a failed assert!): the path ends here
                s.top.results.append((P.conds, P.actions + [("PANIC", "explicit panic")], Unknown("PANIC:explicit"), P.mem["self"][0] if "self" in P.mem else None))
                return
            v = s.call(P, t)
            if isinstance(v, tuple) and len(v) == 2 and v[0] == "multi":
                for Q, v2 in v[1]:
                    s.write(Q, t["dest"], v2)
                    if t["target"] is not None: s.step(Q, t["target"], depth + 1)
                return
            s.write(P, t["dest"], v)
            return s.step(P, t["target"], depth + 1)
        if k == "switch":
            d = s.operand(P, t["discr"])
            if isinstance(d, tuple) and d[0] == "discr":
                val = d[1]
                if isinstance(val, Gamma):
                    for cond, v in ((val.cond, val.a), (val.cond.neg(), val.b)):
                        dec = decide(P.conds, cond)
                        if dec is False: continue
                        Q = P.fork();
                        if dec is None: Q.conds.append(cond)
                        # substitute the resolved value everywhere the gamma sits
                        for loc, x in list(Q.env.items()):
                            if x is val: Q.env[loc] = v
                        if isinstance(v, Gamma):
                            for Q2, o in s.opt_cases(Q, v):
                                for loc, x in list(Q2.env.items()):
                                    if x is val or x is v: Q2.env[loc] = o
                                idx = {"None": 0, "Some": 1, "Continue": 0, "Break": 1, "Ok": 0, "Err": 1}[o.variant]
                                s.step(Q2, dict((int(a), b) for a, b in t["targets"]).get(idx, t["otherwise"]), depth + 1)
                            continue
                        idx = {"None": 0, "Some": 1, "Continue": 0, "Break": 1, "Ok": 0, "Err": 1}[v.variant]
                        tgt = dict((int(a), b) for a, b in t["targets"]).get(idx, t["otherwise"])
                        s.step(Q, tgt, depth + 1)
                    return
                if isinstance(val, Adt):
                    idx = {"None": 0, "Some": 1, "Continue": 0, "Break": 1, "Ok": 0, "Err": 1}[val.variant]
                    tgt = dict((int(a), b) for a, b in t["targets"]).get(idx, t["otherwise"])
                    return s.step(P, tgt, depth + 1)
                raise Inconclusive("discriminant of %r" % (val,))
            if isinstance(d, Cond):
                # targets: [['0', bbFalse]] otherwise bbTrue
                tmap = dict((int(a), b) for a, b in t["targets"])
                for truth, cond in ((True, d), (False, d.neg())):
                    dec = decide(P.conds, cond)
                    if dec is False: continue
                    Q = P.fork()
                    if dec is None: Q.conds.append(cond)
                    tgt = tmap.get(0, t["otherwise"]) if not truth else (t["otherwise"] if 0 in tmap else tmap.get(1))
                    s.step(Q, tgt, depth + 1)
                return
            if isinstance(d, Poly):
                # integer match: one arm per listed value, the rest on `otherwise`
                vals = [(int(a), b) for a, b in t["targets"]]
                rest = P
                for vconst, tgt in vals:
                    eq = Cond("==", d - Poly.const(vconst))
                    dec = decide(rest.conds, eq)
                    if dec is not False:
                        Q = rest.fork()
                        if dec is None: Q.conds.append(eq)
                        s.step(Q, tgt, depth + 1)
                    if dec is True:
                        rest = None
                        break
                    if dec is None:
                        rest = rest.fork(); rest.conds.append(eq.neg())
                if rest is not None: s.step(rest, t["otherwise"], depth + 1)
                return
            raise Inconclusive("switch on %r" % (d,))
        if k in ("unreachable", "resume"): return
        raise Inconclusive("terminator " + k)

# ---------- ideal cursor schema ----------
L, C, K, N = Poly.atom("L"), Poly.atom("C"), Poly.atom("K"), Poly.atom("n")


class NeedCond(Exception):
    def __init__(s, c):
        Exception.__init__(s, repr(c)); s.c = c


def _dec(conds, c):
    r = decide(conds, c)
    if r is None:
        r = decide(saturate(conds), c)
    return r


def ideal(method, W, K, conds):
    """(expected final slice | None = any, expected return value, expected tail call (name, slice) | None) of the ideal
    strided cursor with item width W and gap K; raises NeedCond when the path facts do not decide a case of the schema"""
    def dec(c):
        r = _dec(conds, c)
        if r is None: raise NeedCond(c)
        return r
    NONE = Adt("Option", "None", [])
    some = lambda x: Adt("Option", "Some", [x])
    step = W + K
    if method == "next":
        if dec(Cond("==", L)): return (Slice(ZERO, L), NONE, None)
        rest = EMPTY if dec(Cond("<=", L - W)) else Slice(W + K, L)
        return (rest, some(Slice(ZERO, W) if W != ONE else Elem(ZERO)), None)
    if method == "next_back":
        if dec(Cond("==", L)): return (Slice(ZERO, L), NONE, None)
        rest = EMPTY if dec(Cond("<=", L - W)) else Slice(ZERO, L - W - K)
        return (rest, some(Slice(L - W, L) if W != ONE else Elem(L - ONE)), None)
    if method in ("nth", "nth_back"):
        d = N * step
        if dec(Cond("atom", atom="ovf(%r)" % (d,))) or dec(Cond(">=", d - L)):
            sl = EMPTY
        else:
            sl = Slice(d, L) if method == "nth" else Slice(ZERO, L - d)
        nm = "next" if method == "nth" else "next_back"
        # the skipped cursor, then one ideal step: whether the code reaches that by calling next()/next_back() or by doing
        # the step itself is its own business (the callee's conformance is checked separately: assume-guarantee)
        rest, item = step_on(sl, W, K, nm == "next_back", dec)
        return (rest, item, None)
    if method == "last": return (Slice(ZERO, L), Unknown("ret:next_back"), ("next_back", Slice(ZERO, L)))
    if method == "count": return (Slice(ZERO, L), Unknown("ret:len"), ("len", Slice(ZERO, L)))
    raise Inconclusive("no schema for " + method)


def step_on(sl, W, K, back, dec):
    """(remaining slice, returned item) of one ideal next / next_back on the cursor slice sl"""
    NONE = Adt("Option", "None", [])
    ln = sl.len()
    if ln == ZERO or dec(Cond("<=", ln)):
        return (EMPTY, NONE)
    if back:
        item = Slice(sl.hi - W, sl.hi) if W != ONE else Elem(sl.hi - ONE)
        rest = EMPTY if dec(Cond("<=", ln - W)) else Slice(sl.lo, sl.hi - W - K)
    else:
        item = Slice(sl.lo, sl.lo + W) if W != ONE else Elem(sl.lo)
        rest = EMPTY if dec(Cond("<=", ln - W)) else Slice(sl.lo + W + K, sl.hi)
    return (rest, Adt("Option", "Some", [item]))


def sign_contradictory(conds):
    """all symbols are unsigned: a fact `p < 0` (or p <= 0 with a positive constant, ...) whose every coefficient is
    non-negative once the atoms known to be zero are dropped cannot hold"""
    zero = set()
    for c in conds:
        if c.poly is not None and c.op == "==" and len(c.poly.t) == 1:
            (mono, k), = c.poly.t.items()
            if len(mono) == 1 and k != 0: zero.add(mono[0])
    for c in conds:
        if c.poly is None: continue
        t = {m: k for m, k in c.poly.t.items() if not any(a in zero for a in m) and k != 0}
        cst = t.get((), 0)
        pos = all(k >= 0 for k in t.values()); neg = all(k <= 0 for k in t.values())
        if c.op == "<" and pos: return True
        if c.op == "<=" and pos and cst > 0: return True
        if c.op == "==" and ((pos and cst > 0) or (neg and cst < 0)): return True
        if c.op == ">" and neg: return True
        if c.op == ">=" and neg and cst < 0: return True
        if c.op == "!=" and not t: return True
    return False


def invariant_infeasible(conds, W, K):
    """the path contradicts the cursor invariant L = 0 or L = (m-1)*(W+K) + W, m >= 1: a non-empty slice shorter than one
    item, or longer than one item but shorter than item + gap + item"""
    if _dec(conds, Cond("!=", L)) is True and _dec(conds, Cond("<", L - W)) is True:
        return True
    if _dec(conds, Cond(">", L - W)) is True and _dec(conds, Cond("<", L - W - W - K)) is True:
        return True
    if _dec(conds, Cond("!=", L)) is True and _dec(conds, Cond("==", W)) is True:
        return True          # zero-width rows only occur with an empty slice
    return False


def subst_poly(p, atom, repl):
    out = ZERO
    for mono, c in p.t.items():
        term = Poly.const(c)
        for a in mono:
            term = term * (repl if a == atom else Poly.atom(a))
        out = out + term
    return out


def subst_val(v, atom, repl):
    if isinstance(v, Poly): return subst_poly(v, atom, repl)
    if isinstance(v, Slice): return Slice(subst_poly(v.lo, atom, repl), subst_poly(v.hi, atom, repl))
    if isinstance(v, Elem): return Elem(subst_poly(v.off, atom, repl))
    if isinstance(v, Adt): return Adt(v.name, v.variant, [subst_val(x, atom, repl) for x in v.f])
    if isinstance(v, Tup): return Tup([subst_val(x, atom, repl) for x in v.f])
    return v


def _eq(conds, x, y):
    return x == y or _dec(conds, Cond("==", x - y)) is True


def same_slice(conds, a, b):
    if a is None or b is None:
        return True
    if not isinstance(a, Slice) or not isinstance(b, Slice):
        return repr(a) == repr(b)
    def empty(sl):
        return sl.len() == ZERO or _dec(conds, Cond("<=", sl.len())) is True
    if empty(a) and empty(b):
        return True
    return _eq(conds, a.lo, b.lo) and _eq(conds, a.hi, b.hi)


def same_value(conds, a, b):
    if isinstance(a, Adt) and isinstance(b, Adt):
        return a.variant == b.variant and len(a.f) == len(b.f) and all(same_value(conds, x, y) for x, y in zip(a.f, b.f))
    if isinstance(a, Slice) and isinstance(b, Slice):
        # a returned row must be the same cells: an empty row at a different place is still "no cells"
        return same_slice(conds, a, b)
    if isinstance(a, Elem) and isinstance(b, Elem):
        return _eq(conds, a.off, b.off)
    if isinstance(a, Poly) and isinstance(b, Poly):
        return _eq(conds, a, b)
    return repr(a) == repr(b)


BASE_FACTS = [Cond(">=", L), Cond(">=", C), Cond(">=", K), Cond(">=", N)]

# ---------- refutation needs a witness: a small concrete cursor state on which the path's summary and the ideal differ ----------
U64 = 1 << 64


def _pval(p, env):
    tot = 0
    for mono, c in p.t.items():
        v = c
        for a in mono:
            if a not in env: raise KeyError(a)
            v *= env[a]
        tot += v
    return tot


def _cond_holds(c, env):
    """True / False / None (an opaque atom the assignment does not determine)"""
    if c.poly is None:
        mo = re.match(r"^ovf\((.*)\)$", c.atom or "")
        if mo:
            # the product the flag belongs to is the only polynomial with that text among the facts; recompute from n, W, K
            val = env.get("__ovf__", {}).get(c.atom)
            if val is None: return None
            return val if c.op == "atom" else (not val)
        return None
    v = _pval(c.poly, env)
    return {"==": v == 0, "!=": v != 0, "<": v < 0, "<=": v <= 0, ">": v > 0, ">=": v >= 0}[c.op]


def _cval(v, env):
    """concrete image of a symbolic result"""
    if isinstance(v, Slice):
        lo, hi = _pval(v.lo, env), _pval(v.hi, env)
        return ("slice", lo, hi) if hi > lo else ("slice", 0, 0)
    if isinstance(v, Elem): return ("elem", _pval(v.off, env))
    if isinstance(v, Poly): return ("int", _pval(v, env))
    if isinstance(v, Adt): return (v.variant,) + tuple(_cval(x, env) for x in v.f)
    if isinstance(v, Tup): return ("tup",) + tuple(_cval(x, env) for x in v.f)
    return ("?", repr(v))


def _ideal_step(lo, hi, W, K, back):
    if hi <= lo: return ("None",), (0, 0)
    if back:
        item = ("slice", hi - W, hi) if W != 1 or True else None
        rest = (lo, hi - W - K) if hi - lo > W else (0, 0)
    else:
        item = ("slice", lo, lo + W)
        rest = (lo + W + K, hi) if hi - lo > W else (0, 0)
    return ("Some", item), (rest if rest[1] > rest[0] else (0, 0))


def find_witness(m, rows, conds, actions, ret, final):
    """a reachable cursor state (m items, width W, gap K, argument n) that satisfies the path's facts and on which the path's
    (result, remaining cursor) differs from the ideal's; None when no such state exists among the small shapes tried"""
    ovf_atoms = {}
    for c in conds:
        if c.poly is None and (c.atom or "").startswith("ovf("):
            ovf_atoms[c.atom] = None
    calls = [a for a in actions if a[0] == "CALL"]
    if any(a[0] == "PANIC" for a in actions):
        panic = True
    else:
        panic = False
    for Cv in ((0, 1, 2, 3) if rows else (1,)):
        for Kv in (0, 1, 2):
            Wv = Cv if rows else 1
            for mv in (0, 1, 2, 3, 4):
                if rows and Cv == 0 and mv != 0: continue
                Lv = 0 if mv == 0 else (mv - 1) * (Wv + Kv) + Wv
                if rows and Cv == 0: Lv = 0
                for nv in ((0, 1, 2, 3, 4, 5, 1 << 62, 1 << 63, U64 - 1) if m in ("nth", "nth_back") else (0,)):
                    env = {"L": Lv, "C": Cv, "K": Kv, "n": nv, "m": mv}
                    d = nv * (Wv + Kv)
                    env["__ovf__"] = {a: (d >= U64) for a in ovf_atoms}
                    try:
                        hold = [_cond_holds(c, env) for c in conds]
                    except KeyError:
                        return "unknown-atom"
                    if any(h is False for h in hold):
                        continue
                    if any(h is None for h in hold):
                        continue          # an opaque fact: this assignment is not a reliable witness
                    # ideal
                    if m in ("next", "next_back"):
                        iret, irest = _ideal_step(0, Lv, Wv, Kv, m == "next_back")
                    elif m in ("nth", "nth_back"):
                        if d >= U64 or d >= Lv: lo_, hi_ = 0, 0
                        elif m == "nth": lo_, hi_ = d, Lv
                        else: lo_, hi_ = 0, Lv - d
                        iret, irest = _ideal_step(lo_, hi_, Wv, Kv, m == "nth_back")
                    else:
                        return None
                    # the path's own outcome
                    try:
                        if calls and calls[-1][1] in ("next", "next_back") and isinstance(ret, Unknown) and isinstance(calls[-1][3], Slice):
                            st = _cval(calls[-1][3], env)
                            gret, grest = _ideal_step(st[1], st[2], Wv, Kv, calls[-1][1] == "next_back")
                        else:
                            gret = _cval(ret, env)
                            f_ = _cval(final, env) if isinstance(final, Slice) else ("slice", 0, 0)
                            grest = (f_[1], f_[2])
                    except KeyError:
                        return "unknown-atom"
                    def norm_item(x):
                        # a row item is a slice; a column item an element at its start
                        if x and x[0] == "Some" and len(x) > 1 and x[1][0] == "elem": return ("Some", ("slice", x[1][1], x[1][1] + 1))
                        return x
                    if panic or norm_item(gret) != norm_item(iret) or tuple(grest) != tuple(irest):
                        return "m=%d items, width %d, gap %d (slice length %d)%s: the code %s and leaves %s, the ideal cursor returns %s and leaves %s" % (
                            mv, Wv, Kv, Lv, (", n=%d" % nv) if m in ("nth", "nth_back") else "", "panics" if panic else "returns %s" % (gret,), grest, iret, irest)
    return None


def judge(m, W, Kval, conds, actions, ret, final, depth=0):
    """verdicts for one evaluated path: the schema's own case split is applied on top of the path's facts (the path is
    refined where its facts leave a schema case open), so code and ideal need not branch on the same conditions"""
    def show_got():
        calls = [a for a in actions if a[0] == "CALL"]
        return "ret=%r final=%s call=%s" % (ret, final if not isinstance(final, Slice) else final.canon(), (calls[-1][1], calls[-1][2]) if calls else None)
    try:
        exp_final, exp_ret, exp_call = ideal(m, W, Kval, conds)
    except NeedCond as e:
        if depth >= 5:
            return [(False, conds, show_got(), "case split differs from the ideal: %r stays undecided" % (e.c,))]
        out = []
        for c in (e.c, e.c.neg()):
            if _dec(conds, c) is False:
                continue
            out += judge(m, W, Kval, conds + [c], actions, ret, final, depth + 1)
        return out
    if invariant_infeasible(conds, W, Kval) or sign_contradictory(conds):
        return [(True, conds, show_got(), "path contradicts the cursor invariant / the signs of its own facts (unreachable)")]
    calls = [a for a in actions if a[0] == "CALL"]
    panics = [a for a in actions if a[0] == "PANIC"]
    ok = not panics
    if m in ("nth", "nth_back") and calls and calls[-1][1] in ("next", "next_back") and isinstance(ret, Unknown) and ret.tag == "ret:" + calls[-1][1] and isinstance(calls[-1][3], Slice):
        # the code finishes with `self.next()` / `self.next_back()` on the cursor it has prepared: replace the call by the
        # callee's ideal behaviour (checked for that method on its own)
        def dec2(c):
            r = _dec(conds, c)
            if r is None: raise NeedCond(c)
            return r
        try:
            final, ret = step_on(calls[-1][3], W, Kval, calls[-1][1] == "next_back", dec2)
        except NeedCond as e:
            if depth >= 5:
                return [(False, conds, show_got(), "case split differs from the ideal: %r stays undecided" % (e.c,))]
            out = []
            for c in (e.c, e.c.neg()):
                if _dec(conds, c) is False:
                    continue
                out += judge(m, W, Kval, conds + [c], actions, ret, final, depth + 1)
            return out
        calls = []
    if m == "last" and not calls:
        # a written-out last(): the receiver is consumed, so only the answer matters - it must be the ideal final row of the
        # cursor as it stands (None on the exhausted cursor), whatever becomes of the cursor's own fields
        def dec3(c):
            r = _dec(conds, c)
            if r is None: raise NeedCond(c)
            return r
        try:
            _, want = step_on(Slice(ZERO, L), W, Kval, True, dec3)
        except NeedCond as e:
            if depth >= 5:
                return [(False, conds, show_got(), "case split differs from the ideal: %r stays undecided" % (e.c,))]
            out = []
            for c in (e.c, e.c.neg()):
                if _dec(conds, c) is False:
                    continue
                out += judge(m, W, Kval, conds + [c], actions, ret, final, depth + 1)
            return out
        return [(ok and same_value(conds, ret, want), conds, show_got(), "expected ret=%r (the ideal final row; the receiver is consumed)" % (want,))]
    if any(a[0] == "SUBST_L" for a in actions):
        # the code asked for len(): m items, L = (m-1)*(W+K) + W; compare both sides after eliminating L
        repl = (Poly.atom("m") - ONE) * (W + Kval) + W
        sv = lambda v: subst_val(v, "L", repl)
        conds = list(conds) + [Cond(c.op, subst_poly(c.poly, "L", repl)) for c in conds if c.poly is not None and any("L" in mono for mono in c.poly.t)]
        ret, final, exp_ret = sv(ret), sv(final), sv(exp_ret)
        exp_final = sv(exp_final) if exp_final is not None else None
        if exp_call is not None: exp_call = (exp_call[0], sv(exp_call[1]))
        calls = [(a[0], a[1], a[2], sv(a[3])) for a in calls]
    if exp_call is None:
        ok = ok and not calls
    else:
        ok = ok and bool(calls) and calls[-1][1] == exp_call[0] and same_slice(conds, calls[-1][3], exp_call[1])
    ok = ok and same_value(conds, ret, exp_ret)
    if exp_final is not None:
        ok = ok and isinstance(final, Slice) and same_slice(conds, final, exp_final)
    exp_txt = "expected ret=%r final=%s call=%s" % (exp_ret, "any" if exp_final is None else exp_final.canon(), None if exp_call is None else (exp_call[0], exp_call[1].canon()))
    return [(ok, conds, show_got(), exp_txt)]


def check(facts, typ, W, selfdesc, Kval):
    out = []
    for b in facts["bodies"]:
        if not (b.get("impl_self", "").startswith("iter::%s<" % typ)): continue
        tr = b.get("impl_trait", "")
        if not any(x in tr for x in ("Iterator",)): continue
        m = b["name"]
        if m == "size_hint": continue
        try:
            ev_ = Eval(b, selfdesc); ev_.W = W; ev_.method = m
            res = ev_.run()
            verdicts = []
            for conds, actions, ret, final in res:
                try:
                    base = [c for c in BASE_FACTS if not any(k.key() == c.key() for k in conds)]
                    vs = judge(m, W, Kval, list(conds) + base, actions, ret, final)
                    if any(okv is False for okv, _, _, _ in vs) and m in ("next", "next_back", "nth", "nth_back"):
                        # a symbolic mismatch is only a candidate (the path may be infeasible for reasons the fact matcher does not
                        # see): report it when a concrete reachable cursor state witnesses the difference
                        wit = find_witness(m, W is C, [c for c in conds], actions, ret, final)
                        if wit is None and any(a[0] == "PANIC" and str(a[1]).startswith("bounds:") for a in actions):
                            # the access is out of bounds only in cursor states that do not exist (no state with up to 4 items
                            # of width <= 3 and gap <= 2 satisfies the path's facts): infeasible under the cursor invariant
                            vs = [(True, cs, got, "bounds failure unreachable from any cursor state tried") if okv is False else (okv, cs, got, exp) for okv, cs, got, exp in vs]
                        elif wit is None or wit == "unknown-atom":
                            vs = [(None, cs, got, "symbolic mismatch without a concrete witness among small cursor states (%s): undecided" % exp) if okv is False else (okv, cs, got, exp) for okv, cs, got, exp in vs]
                        else:
                            first = True
                            nv_ = []
                            for okv, cs, got, exp in vs:
                                if okv is False and first:
                                    nv_.append((False, cs, got, exp + "; witness: " + wit)); first = False
                                elif okv is False:
                                    continue
                                else:
                                    nv_.append((okv, cs, got, exp))
                            vs = nv_
                    # report with the path's own facts (plus the refinement), not the sign facts
                    verdicts += [(okv, [c for c in cs if not any(c.key() == k.key() for k in BASE_FACTS)], got, exp) for okv, cs, got, exp in vs]
                except Inconclusive as e:
                    verdicts.append((False if "no schema" not in str(e) else None, conds, "ret=%r final=%r" % (ret, final), "case split differs from the ideal: %s" % e))
            out.append((typ, m, verdicts))
        except Inconclusive as e:
            out.append((typ, m, [(None, [], "", "engine inconclusive: %s" % e)]))
    return out



def divmod_sym(conds, a, b):
    """(q, r) with a == q*b + r and 0 <= r < b provable from the path facts, for a few candidate quotients
    (polynomial part of a that is a multiple of b); None when nothing is provable"""
    if b.is_const() and b.cval() == 1:
        return a, ZERO
    cands = [ZERO, ONE]
    # candidate quotients: for every atom x, the cofactor q with a = q*b + rest (try x-multiples of b)
    atoms = sorted({x for mono in a.t for x in mono})
    for x in atoms:
        X = Poly.atom(x)
        cands += [X, X - ONE, X + ONE]
    for q in cands:
        r = a - q * b
        if decide(conds, Cond(">=", r)) is True and decide(conds, Cond("<", r - b)) is True:
            return q, r
        sat = saturate(conds)
        if decide(sat, Cond(">=", r)) is True and decide(sat, Cond("<", r - b)) is True:
            return q, r
    return None


def _div(a, b): return Poly.atom("(%r)/(%r)" % (a, b))
def _rem(a, b): return Poly.atom("(%r)%%(%r)" % (a, b))


def size_hint_schema(W, Kv, rows):
    den = W + Kv
    n = _div(L, den) + (_div(_rem(L, den), W) if rows else _rem(L, den))
    return n


def size_hint_semantic(b, desc, W, names, kind="size_hint"):
    """size_hint (kind="size_hint") / ExactSizeIterator::len (kind="len") decided semantically: substitute the cursor invariant for the slice length and require the result
    to be the number of remaining items in every case.  Cases: empty (L = 0); non-empty with gap K = 0
    (L = m*W); non-empty with K > 0 (L = (m-1)*(W+K) + W); rows additionally W = 0 (then m = 0, L = 0)."""
    Mm = Poly.atom("m")
    bad = []
    npaths = 0
    cases = []
    base = [Cond(">=", K), Cond(">=", Mm - ONE)]
    if W is C:
        base.append(Cond(">", C))
        cases.append(("zero-width rows (cols = 0, L = 0)", ZERO, [Cond("==", C), Cond(">=", K)], ZERO, {}))
    cases.append(("an exhausted cursor (L = 0)", ZERO, base, ZERO, {}))
    cases.append(("m items left and no gap (K = 0, L = m*W)", Mm * W, base + [Cond("==", K), Cond(">", Mm * W)], Mm, {"K": 0}))
    Lk = (Mm - ONE) * (W + K) + W
    cases.append(("m items left and a gap K > 0 (L = (m-1)*(W+K)+W)", Lk, base + [Cond(">", K), Cond(">", Lk)], Mm, {}))
    for name, Lval, conds, want, subst in cases:
        d2 = []
        for x in desc:
            if isinstance(x, Slice):
                d2.append(Slice(ZERO, Lval))
            elif isinstance(x, Poly) and subst.get("K") == 0 and x == K:
                d2.append(ZERO)
            else:
                d2.append(x)
        ev = Eval(b.d, d2)
        ev.div_strict = True
        ev.initial_conds = list(conds)
        ev.track_adds = []
        res = ev.run()
        # the slice of a cursor over zero-sized cells can be usize::MAX long: a plain `+` on the length itself may add at most the gap
        # K (the cells between this row and the next exist in the parent buffer, so L + K is a length too); anything more -
        # `(len + denom - 1) / denom` - overflows for such arrays (a panic in debug builds, a wrapped count in release builds)
        if Lval != ZERO:
            for a_, b_, pcs_, sp_ in ev.track_adds:
                other = b_ if a_ == Lval else (a_ if b_ == Lval else None)
                if other is None:
                    continue
                kk = ZERO if subst.get("K") == 0 else K
                if decide(saturate(list(conds) + list(pcs_)), Cond(">=", kk - other)) is not True:
                    bad.append((name + " [length overflow]", pcs_, "%r + %r" % (Lval, other), "a sum that cannot exceed usize::MAX: for zero-sized cells the slice can be usize::MAX long and only the gap K is known to fit on top of it"))
                    break
        for pc, actions, ret, final in res:
            npaths += 1
            got = repr(ret)
            expr = ("(%r, Some(%r))" % (want, want)) if kind == "size_hint" else repr(want)
            if got != expr:
                bad.append((name, pc, got, expr))
    return bad, npaths


def cursor_layout(f, typ):
    """self description [field values] for a cursor type from the ADT table (by field name)"""
    for a in f.adts:
        if a["id"].split("::")[-1] == typ:
            names = [x["name"] for x in a["fields"]]
            V = Slice(ZERO, L)
            m = {"v": V, "cols": C, "skip_cols": K, "skip": K}
            if not all(n in m for n in names):
                raise AnchorMissing("fields of %s are %s (expected v/cols/skip_cols or v/skip)" % (typ, names))
            return [m[n] for n in names], (C if "cols" in names else ONE), names
    raise AnchorMissing("cursor type " + typ)


# ---- overrides of provided iterator methods that have no schema of their own (R-CURSOR, clause "override") -------------------
FRONT_NAMES = {"next", "nth", "fold", "try_fold", "for_each", "try_for_each", "find", "find_map", "position", "all", "any", "advance_by",
               "count", "sum", "product", "min", "max", "min_by", "max_by", "min_by_key", "max_by_key", "reduce", "collect", "partition"}
BACK_NAMES = {"next_back", "nth_back", "rfold", "try_rfold", "rfind", "rposition", "advance_back_by", "last"}
FLIP_NAMES = {"rev"}
NEUTRAL_NAMES = {"len", "size_hint", "is_empty", "by_ref", "into_iter", "num_cols"}
ALIGNED_FROM_END = {"rchunks", "rchunks_mut", "rchunks_exact", "rchunks_exact_mut"}
DROPS_SHORT_TAIL = {"chunks_exact", "chunks_exact_mut", "windows", "array_chunks", "as_chunks"}
CHUNKERS = {"chunks", "chunks_mut"}


def _self_aliases(b):
    """locals that hold the receiver (by value, by copy, or as a reference to it)"""
    A = {1}
    ch = True
    while ch:
        ch = False
        for bi, si, st in b.stmts():
            if st["k"] != "assign" or st["p"]["proj"]:
                continue
            rv = st["rv"]
            src = None
            if rv["k"] == "use" and rv["o"]["k"] in ("copy", "move"):
                src = rv["o"]["p"]
            elif rv["k"] in ("ref", "rawptr"):
                src = rv["p"]
            if src is not None and src["local"] in A and all(pe["k"] == "deref" for pe in src["proj"]) and st["p"]["local"] not in A:
                A.add(st["p"]["local"]); ch = True
    return A


def _places(x):
    """every place mentioned in a statement / terminator (recursive walk over the JSON)"""
    if isinstance(x, dict):
        if "local" in x and "proj" in x:
            yield x
        for v in x.values():
            yield from _places(v)
    elif isinstance(x, list):
        for v in x:
            yield from _places(v)


def override_clause(f, b, typ, R):
    """An override of a provided Iterator / DoubleEndedIterator method that has no schema.  Decided structurally:
    (a) a *delegating* override touches the cursor only through the cursor's own judged methods (next, next_back, nth, nth_back,
        len, size_hint, count, last) or through std's provided methods on the cursor: then it is a composition of ideal steps, and
        the clause is direction: a front-family method (fold, for_each, count, min ..) never steps from the back and vice versa;
    (b) a *direct* override reads the cursor's fields itself: the recognised strided-iteration idioms are checked
        (`chunks(cols + skip_cols)`: right stride; `rchunks*` align rows from the wrong end, `chunks_exact*` / `windows` lose the
        final row, which carries no gap), anything else is listed as undecided."""
    from .dfx import Dfx, walk, show, strip
    m = b.name
    fam = "back" if b.trait_head == "DoubleEndedIterator" else "front"
    A = _self_aliases(b)
    bodies = [b] + b.closures()
    direct = False
    for bi, bl in enumerate(b.blocks):
        for pl in _places([bl["stmts"], bl["term"]]):
            if pl["local"] in A and any(pe["k"] == "field" for pe in pl["proj"]):
                direct = True
    used = []
    helper = None
    for bi, t, fn in b.calls():
        if not fn:
            continue
        takes_self = any(a.get("k") in ("copy", "move") and a["p"]["local"] in A and all(pe["k"] == "deref" for pe in a["p"]["proj"]) for a in t["args"])
        if not takes_self:
            continue
        cb = f.crate_fn_for_call(fn)
        if cb is not None and not (cb.self_head == typ and cb.name in ANCHORED + ("len",)):
            helper = cb.ident
        used.append(fn["name"])
    what = "override of the provided method %s" % m
    if helper:
        R.inconc(b.ident, "%s hands the cursor to the crate function %s: no schema for this override (undecided)" % (what, helper))
        return
    if not direct:
        wrong = sorted(n for n in used if (n in BACK_NAMES and fam == "front" and m != "last") or (n in FRONT_NAMES and fam == "back"))
        flips = sorted(n for n in used if n in FLIP_NAMES)
        if flips and not wrong:
            R.inconc(b.ident, "%s reverses the cursor (%s): direction not decided" % (what, ", ".join(flips)))
            return
        R.inst(b.ident, "%s only steps the cursor through its own judged methods (%s), all in the %s direction" % (what, ", ".join(sorted(set(used))) or "none", fam), not wrong)
        for n in wrong:
            R.fail(b.ident, "override:%s:steps-with:%s" % (m, n), "%s: the %s-family method %s consumes the cursor with %s, i.e. from the other end: its items come in the wrong order" % (b.ident, fam, m, n), b.where())
        return
    # direct access to the fields
    rows = typ in ("Rows", "RowsMut")
    found = []
    for bb in bodies:
        dx = Dfx(bb)
        for bi, t, fn in bb.calls():
            if not fn:
                continue
            n = fn["name"]
            if n in ALIGNED_FROM_END | DROPS_SHORT_TAIL | CHUNKERS | {"step_by"}:
                arg = show(strip(dx.expr(t["args"][1]))) if len(t["args"]) > 1 else "?"
                found.append((n, arg, bb.where(t["span"])))
    bad = False
    # the stride handed to chunks() / step_by(), as a polynomial over the cursor's own fields
    names_ = [x["name"] for a in f.adts if a["id"].split("::")[-1] == typ for x in a["fields"]]
    atom = {"cols": C, "skip_cols": K, "skip": K}

    def poly_of(e):
        e = strip(e)
        if e[0] == "field" and strip(e[1])[0] in ("param", "var") and strip(e[1])[1] in A and e[2] < len(names_) and names_[e[2]] in atom:
            return atom[names_[e[2]]]
        if e[0] == "const":
            mm = re.match(r"^(?:const )?(\d+)_usize$", e[1])
            return Poly.const(int(mm.group(1))) if mm else None
        if e[0] == "bin" and e[1] in ("Add", "AddWithOverflow", "AddUnchecked", "Mul", "MulWithOverflow", "Sub", "SubWithOverflow"):
            l, r = poly_of(e[2]), poly_of(e[3])
            if l is None or r is None:
                return None
            return l + r if e[1].startswith("Add") else (l * r if e[1].startswith("Mul") else l - r)
        return None
    if b.blocks:
        dx0 = Dfx(b)
        for bi, t, fn in b.calls():
            if fn and fn["name"] in CHUNKERS | {"step_by"} and len(t["args"]) > 1:
                pv = poly_of(dx0.expr(t["args"][1]))
                want = (C + K) if rows else (ONE + K)
                if pv is not None and pv != want:
                    bad = True
                    R.fail(b.ident, "override:%s:%s(%r)" % (m, fn["name"], pv), "%s: %s(%r) walks the cursor's slice with a step that is not the distance between consecutive items (%r)" % (b.ident, fn["name"], pv, want), b.where(t["span"]))
    # which end of each piece is taken as the row: `[..cols]` (RangeTo: the leading cells) or `[len - cols..]` (RangeFrom)
    takes = set()
    for bb in bodies:
        for bi, t, fn in bb.calls():
            if fn and fn["name"] in ("index", "index_mut", "get_unchecked", "get_unchecked_mut", "get", "get_mut"):
                txt = " ".join(fn.get("args") or [])
                if "RangeTo<" in txt and "RangeToInclusive" not in txt:
                    takes.add("lead")
                elif "RangeFrom<" in txt:
                    takes.add("trail")
                elif "Range<" in txt:
                    takes.add("other")
            elif fn and fn["name"] in ("split_at", "split_at_mut", "split_at_unchecked", "split_at_mut_unchecked", "split_at_checked") and t.get("dest") and not t["dest"]["proj"]:
                # `piece.split_at(k).0` are the leading cells of the piece, `.1` the trailing ones
                used_f = set()
                for bi2, bl2 in enumerate(bb.blocks):
                    for pl in _places([bl2["stmts"], bl2["term"]]):
                        if pl["local"] == t["dest"]["local"] and pl["proj"] and pl["proj"][0]["k"] == "field":
                            used_f.add(pl["proj"][0].get("i", pl["proj"][0].get("field")))
                takes.add({(0,): "lead", (1,): "trail"}.get(tuple(sorted(x for x in used_f if x is not None)), "other"))
            elif fn and fn["name"] in ("split_first", "split_last", "first", "last", "first_chunk", "last_chunk", "split_first_chunk", "split_last_chunk"):
                takes.add("other")
    for n, arg, where in found:
        if n in ALIGNED_FROM_END:
            # pieces aligned at the END of the slice are [gap][row] (the first row alone has no gap before it): the row is the
            # TRAILING `cols` cells of each piece
            if takes == {"lead"} and rows:
                bad = True
                R.fail(b.ident, "override:%s:%s" % (m, n), "%s: %s() cuts the cursor's slice into pieces aligned at its END, so each piece is the gap followed by the row; taking the leading `cols` cells of a piece yields the gap cells (cells outside the view) instead of the row whenever the view is narrower than its parent" % (b.ident, n), where)
        elif n in CHUNKERS and rows and takes == {"trail"}:
            bad = True
            R.fail(b.ident, "override:%s:%s" % (m, n), "%s: %s() cuts the cursor's slice into pieces aligned at its START, so each piece is the row followed by the gap; taking the trailing `cols` cells of a piece yields gap cells instead of the row whenever the view is narrower than its parent" % (b.ident, n), where)
        elif n in DROPS_SHORT_TAIL:
            bad = True
            R.fail(b.ident, "override:%s:%s" % (m, n), "%s: %s() drops a final piece shorter than the chunk size, and the last row of a strided cursor carries no gap after it: the last row would be lost" % (b.ident, n), where)
    if bad:
        R.inst(b.ident, what + " walks the cursor's slice with a recognised chunking idiom", False)
        return
    R.inconc(b.ident, "%s reads the cursor's fields directly (%s): no schema for this override (undecided)" % (what, ", ".join("%s(%s)" % (n, a) for n, a, _ in found) or "no recognised idiom"))


ANCHORED = ("next", "next_back", "nth", "nth_back", "last", "count", "size_hint")
REQUIRED_FNS = ("next", "next_back", "size_hint")     # the others are optional overrides of provided methods


def r_cursor(f):
    R = Result("R-CURSOR")
    raw = f.raw
    Eval.BODIES = {b["id"]: b for b in raw["bodies"] if b.get("blocks")}
    Eval.SHADOWS = {b.id: b.shadow_of for b in getattr(f, "shadows", []) if b.self_head in ("Rows", "RowsMut", "Col", "ColMut") and str(b.shadow_of).startswith("core::iter::")}
    nfun = 0
    ninc = 0
    for typ in ("Rows", "RowsMut", "Col", "ColMut"):
        desc, W, names = cursor_layout(f, typ)
        have = set()
        # size_hint separately
        for b in f.fn_bodies:
            if b.self_head != typ or not b.impl_trait or b.trait_head not in ("Iterator", "DoubleEndedIterator", "ExactSizeIterator"):
                continue
            m = b.name
            have.add(m)
            if m == "size_hint":
                nfun += 1
                try:
                    bad, npaths = size_hint_semantic(b, desc, W, names)
                    R.inst(b.ident, "size_hint equals the number of remaining items m on all %d paths, for L = 0 and L = (m-1)*(W+K)+W with K = 0 and K > 0 (cursor invariant)" % npaths, not bad)
                    for case, conds, got, exp in bad:
                        R.fail(b.ident, "size_hint[%s]:%s" % (case, got), ("%s: with %s the remaining-item count is %s but size_hint returns %s" % (b.ident, case, exp, got)) if not case.endswith("[length overflow]") else ("%s: size_hint computes %s, a plain `+` on the slice length itself (case: %s): for zero-sized cells the slice can be usize::MAX long and only the gap K is known to fit on top of it, so the sum can overflow - a panic in debug builds, a wrapped count in release builds" % (b.ident, got, case[:-len(" [length overflow]")])), b.where())
                except Inconclusive as e:
                    ninc += 1
                    R.inconc(b.ident, "engine inconclusive: %s" % e)
                except (KeyError, IndexError, TypeError, AttributeError) as e:
                    ninc += 1
                    R.inconc(b.ident, "engine error %s: %r" % (type(e).__name__, e))
            elif m == "len" and b.trait_head == "ExactSizeIterator":
                nfun += 1
                try:
                    bad, npaths = size_hint_semantic(b, desc, W, names, kind="len")
                    R.inst(b.ident, "len equals the number of remaining items m on all %d paths, for L = 0 and L = (m-1)*(W+K)+W with K = 0 and K > 0 (cursor invariant)" % npaths, not bad)
                    for case, conds, got, exp in bad:
                        R.fail(b.ident, "len[%s]:%s" % (case, got), ("%s: with %s the remaining-item count is %s but len returns %s" % (b.ident, case, exp, got)) if not case.endswith("[length overflow]") else ("%s: len computes %s, a plain `+` on the slice length itself (case: %s): for zero-sized cells the slice can be usize::MAX long and only the gap K is known to fit on top of it, so the sum can overflow - a panic in debug builds, a wrapped count in release builds" % (b.ident, got, case[:-len(" [length overflow]")])), b.where())
                except Inconclusive as e:
                    R.inconc(b.ident, "engine inconclusive: %s" % e)
                except (KeyError, IndexError, TypeError, AttributeError) as e:
                    R.inconc(b.ident, "engine error %s: %r" % (type(e).__name__, e))
            elif m not in ANCHORED:
                try:
                    override_clause(f, b, typ, R)
                except (KeyError, IndexError, TypeError, AttributeError) as e:
                    R.inconc(b.ident, "override of %s: engine error %s: %r" % (m, type(e).__name__, e))
        for req in REQUIRED_FNS:
            if req not in have:
                raise AnchorMissing("%s::%s (required method of the cursor's iterator impl)" % (typ, req))
        try:
            verd = check(raw, typ, W, desc, K)
        except (KeyError, IndexError, TypeError, AttributeError) as e:
            R.inconc(typ, "engine error %s: %r" % (type(e).__name__, e))
            verd = []
        for typ_, m, verdicts in verd:
            b = [x for x in f.fn_bodies if x.self_head == typ and x.name == m and x.impl_trait and x.trait_head in ("Iterator", "DoubleEndedIterator")]
            ident = b[0].ident if b else "%s::%s" % (typ, m)
            if m not in ANCHORED:
                continue
            nfun += 1
            if any(v[0] is None for v in verdicts) and not any(v[0] is False for v in verdicts):
                ninc += 1
                R.inconc(ident, "; ".join(v[3] for v in verdicts if v[0] is None))
                continue
            ok = all(v[0] is True for v in verdicts)
            R.inst(ident, "conforms to the ideal strided-cursor update on all %d paths (W=%r, K=%r)" % (len(verdicts), W, K), ok)
            for okv, conds, got, exp in verdicts:
                if okv is False:
                    cs = ", ".join(sorted(repr(c) for c in conds))
                    R.fail(ident, "path[%s]:%s" % (cs, got), "%s deviates from the ideal strided cursor on the path {%s}: got %s; %s" % (ident, cs, got, exp), b[0].where() if b else None)
    # indexing a column cursor: `col[i]` is the i-th remaining cell, i.e. the element at offset i*(1+skip) of the cursor's slice,
    # on every path that returns (the out-of-range paths end in the checked index's panic)
    for typ in ("Col", "ColMut"):
        desc, W, names = cursor_layout(f, typ)
        for b in f.fn_bodies:
            if b.self_head != typ or b.name not in ("index", "index_mut") or not (b.trait_head or "").startswith("Index"):
                continue
            nfun += 1
            try:
                ev_ = Eval(b.d, desc); ev_.W = W; ev_.method = "index"
                res = ev_.run()
            except Inconclusive as e:
                ninc += 1
                R.inconc(b.ident, "engine inconclusive: %s" % e)
                continue
            except (KeyError, IndexError, TypeError, AttributeError) as e:
                ninc += 1
                R.inconc(b.ident, "engine error %s: %r" % (type(e).__name__, e))
                continue
            want = N * (ONE + K)
            badp = []
            for conds, actions, ret, final in res:
                if any(a[0] == "PANIC" and str(a[1]) == "bounds:get_unchecked" for a in actions):
                    # an unchecked access that the path facts do not bound: no panic, undefined behaviour
                    badp.append((conds, Unknown("an unchecked access not bounded by the slice length")))
                    continue
                if any(a[0] == "PANIC" for a in actions):
                    continue
                if not (isinstance(ret, Elem) and ret.off == want):
                    badp.append((conds, ret))
            R.inst(b.ident, "returns the element at offset n*(1+K) of the cursor's slice on all %d returning paths" % sum(1 for r_ in res if not any(a[0] == "PANIC" for a in r_[1])), not badp)
            for conds, ret in badp[:1]:
                R.fail(b.ident, "index:%r" % (ret,), "%s returns %r for index n; the n-th remaining cell of a column cursor is the element at offset n*(1+skip) = %r of its slice" % (b.ident, ret, want), b.where())
    R.require_floor(nfun, 20, "cursor update functions")
    if ninc * 4 > max(nfun, 1):
        R.fail("<rule>", "engine-broken", "%d of %d cursor functions are inconclusive: the evaluator, not the code, is broken" % (ninc, nfun))
    return R, nfun
