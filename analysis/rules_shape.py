"""R-UNWIND / R-LEAK / R-LEAK-DRAIN / R-HIDE (DESIGN 3.3): typestate of (Vec length, num_rows, num_cols) of
the owned array at every point where control can leave a shape-writing function.

Abstract state = (len, rows, cols), components:
   O  untouched since entry          Z  known zero
   V  some other value               P  (len only) product of the *current* rows and cols values
consistent  <=>  (O,O,O) | (Z,Z,Z) | len == P.
Exit points judged: (i) may-unwind terminators while a shape write is still reachable on a normal path
(the state is intermediate), followed through cleanup blocks (drops of restorer types apply their
summary) up to `resume` / an `unwind continue` edge; (ii) `return` of a function whose return type has
drop glue that writes the shape (leak: evaluated as if the destructor never runs); (iii) plain returns
whose length component is O, Z or P.  Everything else is the declined arithmetic of DESIGN 2.4.
"""
import re
from .core import Result, AnchorMissing
from .facts import norm_ty, head, is_caller_code
from .dfx import Dfx, strip, const_usize, walk, show

NOUNWIND = re.compile(
    r"^(core::ptr::(copy|copy_nonoverlapping|write|read|swap|swap_nonoverlapping)"
    r"|core::ptr::mut_ptr::<impl \*mut T>::(add|sub|offset|cast|is_null)"
    r"|core::ptr::const_ptr::<impl \*const T>::(add|sub|offset|cast|is_null)"
    r"|alloc::vec::Vec::<T, A>::(set_len|as_mut_ptr|as_ptr|len|capacity|is_empty|as_slice|as_mut_slice)"
    r"|alloc::vec::Vec::<T>::new"
    r"|core::slice::<impl \[T\]>::(len|is_empty|as_mut_ptr|as_ptr|get_unchecked|get_unchecked_mut|split_first|split_first_mut|split_last|split_last_mut|first|last|first_mut|last_mut|iter|iter_mut|get|get_mut)"
    r"|core::slice::from_raw_parts(_mut)?"
    r"|core::mem::(swap|forget|take|replace|size_of|align_of|needs_drop|size_of_val|align_of_val|discriminant)"
    r"|core::ptr::NonNull::<T>::(as_mut|as_ref|as_ptr|new_unchecked)"
    r"|<core::ptr::NonNull<T> as core::convert::From<&mut T>>::from|<core::ptr::NonNull<T> as core::convert::From<&T>>::from"
    r"|core::num::<impl usize>::(checked_|overflowing_|wrapping_|saturating_)\w+"
    r"|core::option::Option::<T>::(is_some|is_none|as_ref|as_mut|take)"
    r"|<alloc::vec::Vec<T, A> as core::ops::DerefMut>::deref_mut|<alloc::vec::Vec<T, A> as core::ops::Deref>::deref"
    r"|core::intrinsics::\w+"
    r"|core::fmt::Arguments::<'a>::\w+|core::fmt::rt::\w+.*"
    r")$")
HIGHER_ORDER = re.compile(r"^(core::option::Option::<T>::(map|map_or|map_or_else|and_then|unwrap_or_else|ok_or_else|filter|is_some_and|inspect)"
                          r"|core::bool::<impl bool>::(then|then_some)|core::result::Result::<T, E>::(map|map_err|and_then|unwrap_or_else))$")
LEN_CHANGERS = {"set_len", "drain", "clear", "truncate", "push", "pop", "insert", "remove", "extend", "extend_from_slice", "resize",
                "resize_with", "append", "retain", "retain_mut", "split_off", "swap_remove", "dedup", "dedup_by", "dedup_by_key", "extend_from_within",
                "splice", "push_within_capacity", "extract_if"}
POST_STATE_UNWIND = {"clear", "truncate"}          # they lower the length before dropping elements
# they run caller code (an iterator, Clone, a predicate) while the length is part-way changed: a panic there leaves "some other length"
MIDWAY_UNWIND = {"extend", "extend_from_slice", "extend_from_within", "resize", "resize_with", "retain", "retain_mut", "dedup_by", "dedup_by_key", "splice", "extract_if"}
RAW_MOVES = ("core::ptr::read", "core::ptr::copy", "core::ptr::copy_nonoverlapping", "core::ptr::write", "core::ptr::read_unaligned",
             "core::ptr::write_unaligned", "core::mem::transmute_copy", "core::ptr::read_volatile", "core::ptr::write_volatile",
             "core::ptr::mut_ptr::<impl *mut T>::read", "core::ptr::mut_ptr::<impl *mut T>::write", "core::ptr::const_ptr::<impl *const T>::read",
             "core::ptr::mut_ptr::<impl *mut T>::copy_from", "core::ptr::mut_ptr::<impl *mut T>::copy_to", "core::ptr::mut_ptr::<impl *mut T>::copy_from_nonoverlapping",
             "core::ptr::mut_ptr::<impl *mut T>::copy_to_nonoverlapping", "core::ptr::drop_in_place", "core::ptr::mut_ptr::<impl *mut T>::drop_in_place")


def _orig_consistent(st):
    # ("A", "A", "A"): all three fields adopted from one freshly produced array value (`let TooDee { data, num_rows, num_cols } =
    # source.clone(); self.data = data; ..`), which is valid because every construction site is judged
    return st == ("O", "O", "O") or st == ("Z", "Z", "Z") or st[0] == "P" or st == ("A", "A", "A")


def consistent(st):
    # states tagged ("F", l, r, c) left the function from a committed (final) state: not judged (DESIGN 3.3 (a))
    if st and st[0] == "F":
        return True
    return _orig_consistent(st)


class Ctx:
    """crate-wide tables shared by the per-function dataflows"""

    def __init__(self, f):
        self.f = f
        td = [a for a in f.adts if a["id"].split("::")[-1] == "TooDee"]
        if not td:
            raise AnchorMissing("struct TooDee")
        names = [x["name"] for x in td[0]["fields"]]
        for n in ("data", "num_rows", "num_cols"):
            if n not in names:
                raise AnchorMissing("field TooDee.%s" % n)
        self.DATA, self.ROWS, self.COLS = names.index("data"), names.index("num_rows"), names.index("num_cols")
        self.toodee_path = td[0]["id"]
        self.fx = {}
        self.may_unwind_fn = {}
        self._compute_may_unwind()
        # Drop impls of crate types: adt name -> drop body
        self.drop_of = {}
        for b in f.fn_bodies:
            if b.name == "drop" and b.impl_trait and b.trait_head == "Drop":
                self.drop_of[_adt_path(b.impl_self)] = b
        self.summ = {}            # (body id, entry) -> Fn
        # guard types that hold `&mut Vec<T>` (a reborrow of the array's buffer) and act on it in their destructor
        self.holders = {}         # adt path -> index of the `&mut Vec` field
        self.live_holders = set() # those of them that some function builds around the array's buffer
        for a in f.adts:
            for i, fl in enumerate(a["fields"]):
                if re.match(r"^&('\S+ )?mut alloc::vec::Vec<", norm_ty(fl["ty"] if isinstance(fl.get("ty"), str) else str(fl.get("ty")))):
                    self.holders[norm_ty(a["id"])] = i
        self.helpers = set()      # ids of non-exported shape writers: judged at their call sites, not on their own
        self.entry_of_adt = {}    # adt path -> set of states at its construction sites

    def _compute_may_unwind(self):
        f = self.f
        mu = {b.id: False for b in f.fn_bodies}
        changed = True
        while changed:
            changed = False
            for b in f.fn_bodies:
                if mu[b.id]:
                    continue
                v = False
                for bi, bl in enumerate(b.blocks):
                    if bl["cleanup"]:
                        continue
                    t = bl["term"]
                    if t is None:
                        continue
                    if self.term_may_unwind(t, mu):
                        v = True
                        break
                if v:
                    mu[b.id] = True
                    changed = True
        self.may_unwind_fn = mu

    def _closure_by_mangled(self, c):
        """`toodee[704c]::toodee::{impl#7}::pop_col::{closure#0}` -> body, matched on the last two segments
        plus uniqueness"""
        segs = re.sub(r"^\w+\[\w+\]::", "", c).split("::")
        tail = "::".join(segs[-2:])
        cands = [b for b in self.f.fn_bodies if b.kind == "Closure" and b.id.endswith(tail)]
        mod = segs[0]
        cands2 = [b for b in cands if b.id.startswith(mod + "::") or ("<" + mod + "::") in b.id]
        if len(cands2) == 1:
            return cands2[0]
        return cands[0] if len(cands) == 1 else None

    def term_may_unwind(self, t, mu=None):
        mu = self.may_unwind_fn if mu is None else mu
        k = t["k"]
        if k == "assert":
            return not t["kind"].startswith("Overflow")
        if k == "drop":
            ty = t["ty"]
            if re.search(r"/#\d", ty):
                return True
            ap = _adt_path(ty)
            b = getattr(self, "drop_of", {}).get(ap)
            if b is not None:
                return mu.get(b.id, True)
            return False
        if k == "call":
            fn = t["func"].get("fn")
            if not fn:
                return True
            p = fn.get("resolved") or fn["path"]
            if NOUNWIND.match(fn["path"]):
                return False
            # slice primitives that panic only when their own index precondition fails: that is the function's internal
            # arithmetic (DESIGN 2.4, decided elsewhere or declined), not a point where caller code or a rejected call unwinds
            if re.match(r"^core::slice::<impl \[T\]>::(rotate_left|rotate_right|swap|reverse|split_at|split_at_mut|swap_with_slice|copy_within|chunks|chunks_mut|iter|iter_mut)$", fn["path"]):
                return False
            if fn["path"] in ("core::ops::Index::index", "core::ops::IndexMut::index_mut") and re.match(r"^(alloc::vec::Vec<|\[)", norm_ty(fn.get("self_ty") or "")) \
                    and re.search(r"(usize|core::ops::Range\w*<usize>|core::ops::RangeFull)$", norm_ty((fn.get("args") or [""])[-1])):
                return False
            ga0 = norm_ty(fn.get("self_ty") or " ".join(fn.get("args", [])))
            if fn.get("trait") in ("core::iter::Iterator", "core::iter::IntoIterator", "core::iter::DoubleEndedIterator", "core::iter::ExactSizeIterator") \
                    and fn["name"] in ("next", "next_back", "len", "size_hint", "into_iter", "rev") \
                    and re.match(r"^(&mut )?(core::iter::Rev<)?core::ops::Range(Inclusive)?<usize>>?$", ga0):
                return False
            if HIGHER_ORDER.match(fn["path"]):
                # unwinds iff a closure argument can: crate closures by summary, anything else is caller code
                ga = " ".join(fn.get("args", []))
                clos = re.findall(r"Closure\(DefId\([^)]*~ ([^)]*)\)", ga)
                if re.search(r"\b[A-Z]\w*/#\d+", re.sub(r"Closure\(DefId\([^\]]*\]\)", "", ga.split("Closure(")[0])) and not clos:
                    return True
                if not clos:
                    return "then_some" not in fn["path"] and bool(re.search(r"/#\d", ga)) and any("fn" in a or "Fn" in a for a in fn.get("args", []))
                for c in clos:
                    cb = self._closure_by_mangled(c)
                    if cb is None or mu.get(cb.id, True):
                        return True
                return False
            cb = self.f.crate_fn_for_call(fn)
            if cb is not None:
                return mu.get(cb.id, True)
            return True
        return False


def _init_holders(fnx, cx, body):
    """locals that are guards holding the buffer; in the destructor of such a guard type, `self` is one"""
    fnx.holder_locals = {}
    if body.name == "drop" and body.impl_trait and body.trait_head == "Drop" and _adt_path(body.impl_self or "") in cx.holders:
        # only when some shape writer actually builds this guard around the array's buffer
        if _adt_path(body.impl_self) in getattr(cx, "live_holders", set()):
            fnx.holder_locals[1] = cx.holders[_adt_path(body.impl_self)]



def closure_upvars(cx, body):
    """for a closure of the crate: which captured variables are (references to) the array, its buffer or one of its
    dimensions - read off the closure aggregate in the parent body: {upvar index: "toodee" | "data" | ROWS | COLS}"""
    memo = cx.__dict__.setdefault("_upvars", {})
    if body.id in memo:
        return memo[body.id]
    memo[body.id] = {}
    out = {}
    par = cx.f.by_id.get(body.d.get("parent") or "")
    if par is not None and body.kind == "Closure":
        pf = Fn.__new__(Fn)
        pf.cx, pf.b = cx, par
        pf.d = Dfx(par)
        pf.toodee_locals = {i for i, ty in enumerate(par.locals) if re.match(r"^&mut %s<" % re.escape(cx.toodee_path), norm_ty(ty))}
        pf.datarefs = set()
        _seed_refs(pf, cx, par, False)
        for bi, si, st in par.stmts():
            rv = st.get("rv") or {}
            if st["k"] == "assign" and rv.get("k") == "agg" and rv.get("agg") == "closure" and rv.get("def") == body.id:
                for i, o in enumerate(rv["fields"]):
                    if o["k"] not in ("copy", "move"):
                        continue
                    l = o["p"]["local"]
                    if o["p"]["proj"]:
                        continue
                    if l in pf.datarefs:
                        out[i] = "data"
                    elif l in pf.toodee_locals or l in pf.toodeerefs:
                        out[i] = "toodee"
                    elif l in pf.dimrefs:
                        out[i] = pf.dimrefs[l]
    memo[body.id] = out
    return out


def _seed_refs(fnx, cx, body, mark_live):
    """locals that hold a reference to the array's buffer (datarefs), to one of its dimensions (dimrefs), guards holding
    the buffer (holder_locals); for a closure, the captured variables that are such references (upv)"""
    fnx.dimrefs = {}
    fnx.toodeerefs = set()
    fnx.upv = {}
    _init_holders(fnx, cx, body)
    if body.kind == "Closure":
        fnx.upv = closure_upvars(cx, body)
    changed = True
    while changed:
        changed = False
        for bi, si, st in body.stmts():
            if st["k"] != "assign" or st["p"]["proj"]:
                continue
            l = st["p"]["local"]
            if l in fnx.datarefs or l in fnx.holder_locals or l in fnx.dimrefs or l in fnx.toodeerefs:
                continue
            rv = st["rv"]
            if rv["k"] == "agg" and rv.get("agg") == "adt" and norm_ty(rv["adt"]) in cx.holders:
                fi_ = cx.holders[norm_ty(rv["adt"])]
                o_ = rv["fields"][fi_] if fi_ < len(rv["fields"]) else None
                if o_ and o_["k"] in ("copy", "move") and (o_["p"]["local"] in fnx.datarefs or fnx.is_data_place(o_["p"])):
                    fnx.holder_locals[l] = fi_
                    if mark_live:
                        cx.live_holders.add(norm_ty(rv["adt"]))
                    changed = True
                continue
            src = rv["p"] if rv["k"] in ("ref", "rawptr") else (rv["o"]["p"] if rv["k"] == "use" and rv["o"]["k"] in ("copy", "move") else None)
            if src is None:
                continue
            uv = fnx._upvar_ref(src)
            if uv == "data" or fnx.is_data_place(src) or (src["local"] in fnx.datarefs and all(e["k"] == "deref" for e in src["proj"])):
                fnx.datarefs.add(l)
                changed = True
            elif uv == "toodee" or (src["local"] in fnx.toodeerefs and all(e["k"] == "deref" for e in src["proj"])) or (rv["k"] == "ref" and src["local"] in fnx.toodee_locals and not src["proj"]):
                fnx.toodeerefs.add(l)
                changed = True
            elif uv in (cx.ROWS, cx.COLS) or (src["local"] in fnx.dimrefs and all(e["k"] == "deref" for e in src["proj"])):
                fnx.dimrefs[l] = uv if uv in (cx.ROWS, cx.COLS) else fnx.dimrefs[src["local"]]
                changed = True
            elif rv["k"] in ("ref", "rawptr") and rv.get("mut") and fnx.dim_field(src) is not None:
                fnx.dimrefs[l] = fnx.dim_field(src)
                changed = True


def _adt_path(ty):
    t = norm_ty(ty)
    while True:
        m = re.match(r"^&(mut )?(.*)$", t)
        if not m:
            break
        t = m.group(2)
    # strip one trailing generic list
    if t.endswith(">"):
        depth = 0
        for i in range(len(t) - 1, -1, -1):
            if t[i] == ">":
                depth += 1
            elif t[i] == "<":
                depth -= 1
                if depth == 0:
                    return t[:i]
    return t


class Fn:
    def __init__(self, cx, body, entry=("O", "O", "O")):
        self.cx, self.b, self.entry = cx, body, entry
        self.d = Dfx(body)
        self.reports = []        # (kind, desc, msg, span)
        self.exit_states = set()
        self.agg_states = {}     # adt path -> set(states) at its aggregate construction
        self.raw_sites = []      # (span, path, state set)
        self.closure_sites = []  # (closure body id, state at the call that receives the closure)
        self.unwind_exits = set()  # (state with which the function is left by unwinding, intermediate?)
        self.instances = []
        b = body
        self.toodee_locals = {i for i, ty in enumerate(b.locals) if re.match(r"^&('\S+ )?mut %s<" % re.escape(cx.toodee_path), norm_ty(ty).replace("&mut ", "&mut ")) or re.match(r"^&mut %s<" % re.escape(cx.toodee_path), norm_ty(ty))}
        self.datarefs = set()
        _seed_refs(self, cx, b, False)
        self.writes = self._find_writes()

    # ---- places
    def _upvar_ref(self, p):
        """`(*_1).i` (the captured reference itself, nothing dereferenced after the field) -> what it refers to"""
        upv = getattr(self, "upv", None)
        if not upv or p["local"] != 1:
            return None
        pr = [e for e in p["proj"]]
        while pr and pr[0]["k"] == "deref":
            pr = pr[1:]
        if len(pr) == 1 and pr[0]["k"] == "field":
            return upv.get(pr[0]["i"])
        return None

    def _through_upvar(self, p):
        """a place reached through a captured reference: -> (what the capture refers to, projection below the referent)"""
        upv = getattr(self, "upv", None)
        if not upv or p["local"] != 1:
            return None, None
        pr = [e for e in p["proj"]]
        while pr and pr[0]["k"] == "deref":
            pr = pr[1:]
        if pr and pr[0]["k"] == "field" and pr[0]["i"] in upv and len(pr) > 1 and pr[1]["k"] == "deref":
            rest = pr[2:]
            while rest and rest[0]["k"] == "deref":
                rest = rest[1:]
            return upv[pr[0]["i"]], rest
        return None, None

    def is_data_place(self, p):
        what, rest = self._through_upvar(p)
        if what == "data" and not rest:
            return True
        if what == "toodee" or p["local"] in getattr(self, "toodeerefs", ()):
            fs = [e for e in (rest if what == "toodee" else p["proj"]) if e["k"] == "field"]
            return len(fs) == 1 and fs[0]["i"] == self.cx.DATA
        if p["local"] in self.toodee_locals:
            fs = [e for e in p["proj"] if e["k"] == "field"]
            return len(fs) == 1 and fs[0]["i"] == self.cx.DATA
        # the `&mut Vec` field of a guard that holds the array's buffer (a local guard, or `self` in the guard's destructor)
        hl = getattr(self, "holder_locals", {})
        if p["local"] in hl:
            fs = [e for e in p["proj"] if e["k"] == "field"]
            return len(fs) == 1 and fs[0]["i"] == hl[p["local"]]
        return False

    def dim_field(self, p):
        what, rest = self._through_upvar(p)
        if what in (self.cx.ROWS, self.cx.COLS) and not rest:
            return what
        if p["local"] in getattr(self, "dimrefs", {}) and p["proj"] and all(e["k"] == "deref" for e in p["proj"]):
            return self.dimrefs[p["local"]]
        if what == "toodee" or p["local"] in getattr(self, "toodeerefs", ()):
            pr = rest if what == "toodee" else p["proj"]
            fs = [e for e in pr if e["k"] == "field"]
            if len(fs) == 1 and fs[0]["i"] in (self.cx.ROWS, self.cx.COLS) and not [e for e in pr if e["k"] not in ("field", "deref")]:
                return fs[0]["i"]
        if p["local"] in self.toodee_locals:
            fs = [e for e in p["proj"] if e["k"] == "field"]
            if len(fs) == 1 and fs[0]["i"] in (self.cx.ROWS, self.cx.COLS) and len([e for e in p["proj"] if e["k"] not in ("field", "deref")]) == 0:
                return fs[0]["i"]
        return None

    def is_dim_expr(self, e):
        """expression is a read of a dimension field of the array -> which"""
        e = strip(e)
        if e[0] == "field" and e[2] in (self.cx.ROWS, self.cx.COLS):
            base = strip(e[1])
            if base[0] == "deref":
                base = strip(base[1])
            # base must be a &mut TooDee local / param
            if base[0] in ("param", "var") and base[1] in self.toodee_locals:
                return e[2]
            if base[0] == "call" and base[2] in ("as_mut", "as_ref"):
                return e[2]
            if base[0] in ("param", "var", "field", "call", "deref"):
                return e[2] if self._is_toodee_expr(base) else None
        return None

    def _is_toodee_expr(self, base):
        if base[0] in ("param", "var"):
            return base[1] in self.toodee_locals
        return True

    def classify_len_arg(self, o):
        e = strip(self.d.expr(o))
        if const_usize(e) == 0:
            return "Z"
        if e[0] == "bin" and e[1].startswith("Mul"):
            a, b2 = self.is_dim_expr(e[2]), self.is_dim_expr(e[3])
            if a is not None and b2 is not None and {a, b2} == {self.cx.ROWS, self.cx.COLS}:
                # both operands must be reads at the current values: single-def temps read right before; accept
                return "P"
            # .. or the two factors are the very values that the function stores into the two dimension fields (each field
            # stored exactly once): `toodee.num_cols = c; toodee.num_rows = r; vec.set_len(c * r)`
            stores = {}
            for bi_, si_, st_ in self.b.stmts():
                if st_["k"] == "assign" and not self.b.blocks[bi_]["cleanup"]:
                    which = self.dim_field(st_["p"])
                    if which is not None and st_["rv"]["k"] == "use":
                        stores.setdefault(which, []).append(show(strip(self.d.expr(st_["rv"]["o"]))))
            if set(stores) == {self.cx.ROWS, self.cx.COLS} and all(len(v) == 1 for v in stores.values()):
                if {stores[self.cx.ROWS][0], stores[self.cx.COLS][0]} == {show(strip(e[2])), show(strip(e[3]))} and stores[self.cx.ROWS][0] != stores[self.cx.COLS][0]:
                    return "P"
        return "V"

    # ---- which blocks contain shape writes (for the intermediate/committed distinction)
    def _is_write_stmt(self, st):
        return st["k"] == "assign" and (self.dim_field(st["p"]) is not None or self._whole_data_store(st))

    def _is_write_term(self, t, direct=False):
        if t is None:
            return False
        if t["k"] == "call":
            fn = t["func"].get("fn")
            if not fn:
                return False
            recv = t["args"][0] if t["args"] else None
            on_data = recv is not None and recv["k"] in ("copy", "move") and (recv["p"]["local"] in self.datarefs or self.is_data_place(recv["p"]))
            if on_data and (fn["path"].startswith("alloc::vec::Vec::<T, A>::") or (fn.get("trait") == "core::iter::Extend" and norm_ty(fn.get("self_ty") or "").startswith("alloc::vec::Vec<"))) and fn["name"] in LEN_CHANGERS:
                return True
            if fn["path"] == "core::mem::swap":
                for a in t["args"]:
                    e = strip(self.d.expr(a))
                    if e[0] in ("ref", "refmut") and self.is_dim_expr(e[1]) is not None:
                        return True
            if self._replace_dim(t) is not None or self._replace_data(t) is not None:
                return True
            cb = self.cx.f.crate_fn_for_call(fn)
            if not direct and cb is not None and cb.id != self.b.id and is_shape_writer(self.cx, cb):
                return True
        if t["k"] == "drop":
            ap = _adt_path(t["ty"])
            db = self.cx.drop_of.get(ap)
            if db is not None and db.id != self.b.id and is_shape_writer(self.cx, db):
                return True
        return False

    def _replace_data(self, t):
        """`mem::replace(&mut self.data, v)` / `mem::take(&mut self.data)` / `mem::swap(&mut self.data, ..)` -> new length class"""
        fn = t["func"].get("fn") or {}
        if fn.get("path") not in ("core::mem::replace", "core::mem::take", "core::mem::swap") or not t["args"]:
            return None
        hit = None
        for i, a in enumerate(t["args"][:2]):
            e = strip(self.d.expr(a))
            if e[0] in ("ref", "refmut"):
                inner = strip(e[1])
                if inner[0] == "field" and inner[2] == self.cx.DATA and self.is_dim_expr(("field", inner[1], self.cx.ROWS)) is not None:
                    hit = i
        if hit is None:
            return None
        if fn["path"] == "core::mem::take":
            return "Z"
        if fn["path"] == "core::mem::replace" and hit == 0 and len(t["args"]) > 1:
            return "A" if self._fresh_array_field(self.d.expr(t["args"][1])) == self.cx.DATA else "V"
        return "V"

    def _replace_dim(self, t):
        """`mem::replace(&mut self.dim, v)` / `mem::take(&mut self.dim)` -> (field, new value is zero?)"""
        fn = t["func"].get("fn") or {}
        if fn.get("path") not in ("core::mem::replace", "core::mem::take") or not t["args"]:
            return None
        e = strip(self.d.expr(t["args"][0]))
        if e[0] in ("ref", "refmut"):
            fld = self.is_dim_expr(e[1])
            if fld is not None:
                z = fn["path"] == "core::mem::take" or (len(t["args"]) > 1 and const_usize(strip(self.d.expr(t["args"][1]))) == 0)
                return fld, z
        return None

    def _find_writes(self):
        w = set()
        for bi, bl in enumerate(self.b.blocks):
            if any(self._is_write_stmt(st) for st in bl["stmts"]) or self._is_write_term(bl["term"]):
                w.add(bi)
        return w

    def write_reachable_after(self, bi, normal_succ):
        """is a shape write reachable on a normal (non-unwind) path starting at the normal successor?"""
        seen, work = set(), [normal_succ] if normal_succ is not None else []
        while work:
            x = work.pop()
            if x in seen:
                continue
            seen.add(x)
            if x in self.writes:
                return True
            work.extend(self.b.succs(x, unwind=False))
        return False

    # ---- transfer
    def transfer_stmt(self, st, state):
        if st["k"] != "assign":
            return state
        f = self.dim_field(st["p"])
        if f is not None:
            z = const_usize(self.d.rvalue(st["rv"])) == 0
            adopted = self._fresh_array_field(self.d.rvalue(st["rv"])) == f
            l, r, c = state
            if l == "P":
                l = "V"
            if f == self.cx.ROWS:
                r = "Z" if z else ("A" if adopted else "V")
            else:
                c = "Z" if z else ("A" if adopted else "V")
            return (l, r, c)
        if self._whole_data_store(st):
            l, r, c = state
            return ("A" if self._fresh_array_field(self.d.rvalue(st["rv"])) == self.cx.DATA else "V", r, c)
        return state

    def _fresh_array_field(self, e):
        """e is field i of an array VALUE that a call has just produced (`source.clone().num_rows`, destructured or not) -> i"""
        e = strip(e)
        if e[0] == "field" and isinstance(e[2], int):
            base = strip(e[1])
            if base[0] == "call" and len(base) > 4 and isinstance(base[4], dict):
                ret = norm_ty(str(base[4].get("ret") or ""))
                if base[2] in ("clone", "to_owned", "from", "into", "from_vec", "new", "init", "with_capacity", "default") or "TooDee<" in ret:
                    return e[2]
        return None

    def _whole_data_store(self, st):
        """`self.data = v` (the whole Vec replaced)"""
        p = st["p"]
        return st["k"] == "assign" and p["proj"] and p["proj"][-1]["k"] == "field" and self.is_data_place(p) and not [e for e in p["proj"] if e["k"] not in ("field", "deref")]

    def transfer_call(self, t, state):
        fn = t["func"].get("fn")
        if not fn:
            return state
        l, r, c = state
        recv = t["args"][0] if t["args"] else None
        on_data = recv is not None and recv["k"] in ("copy", "move") and (recv["p"]["local"] in self.datarefs or self.is_data_place(recv["p"]))
        if on_data and (fn["path"].startswith("alloc::vec::Vec::<T, A>::") or (fn.get("trait") == "core::iter::Extend" and norm_ty(fn.get("self_ty") or "").startswith("alloc::vec::Vec<"))) and fn["name"] in LEN_CHANGERS:
            if fn["name"] == "set_len":
                l = self.classify_len_arg(t["args"][1])
            elif fn["name"] == "clear":
                l = "Z"
            else:
                l = "V"
            return (l, r, c)
        if fn["path"] == "core::mem::swap":
            dims = []
            for a in t["args"]:
                e = strip(self.d.expr(a))
                if e[0] in ("ref", "refmut"):
                    dims.append(self.is_dim_expr(e[1]))
            if len(dims) == 2 and None not in dims and set(dims) == {self.cx.ROWS, self.cx.COLS}:
                return (l, c, r) if (r, c) != ("O", "O") else state     # exchanging the two dimensions keeps the product
        rdat = self._replace_data(t)
        if rdat is not None:
            return (rdat, r, c)
        rd = self._replace_dim(t)
        if rd is not None:
            if l == "P":
                l = "V"
            if rd[0] == self.cx.ROWS:
                r = "Z" if rd[1] else "V"
            else:
                c = "Z" if rd[1] else "V"
            return (l, r, c)
        cb = self.cx.f.crate_fn_for_call(fn)
        if cb is not None and cb.id != self.b.id and is_shape_writer(self.cx, cb):
            sub = analyse_fn(self.cx, cb, state)
            outs = sorted(sub.exit_states)
            return tuple(outs) if len(outs) > 1 else (outs[0] if outs else state)
        return state

    def describe(self, t):
        if t["k"] == "call":
            fn = t["func"].get("fn") or {}
            p = fn.get("resolved") or fn.get("path", "<indirect>")
            return "call of %s%s" % (norm_ty(p), " [caller code]" if is_caller_code(fn or None) else "")
        if t["k"] == "drop":
            return "drop of a value of type %s%s" % (norm_ty(t["ty"]), " [caller code]" if re.search(r"/#\d", t["ty"]) else "")
        return "assertion (%s)" % t.get("kind")

    def point_key(self, t):
        """stable descriptor of a program point (no line numbers): what is called/dropped + ordinal"""
        if t["k"] == "call":
            fn = t["func"].get("fn") or {}
            return "call:" + norm_ty(fn.get("resolved") or fn.get("path", "indirect")).split("::")[-1] + ("<caller>" if is_caller_code(fn or None) else "")
        if t["k"] == "drop":
            return "drop:" + norm_ty(t["ty"])
        return "assert:" + str(t.get("kind"))

    # ---- drop flags: bool locals that are only ever assigned constants
    def _flag_locals(self):
        b = self.b
        cand = {i for i, ty in enumerate(b.locals) if ty == "bool"}
        for bi, si, st in b.stmts():
            if st["k"] == "assign" and st["p"]["local"] in cand:
                rv = st["rv"]
                if st["p"]["proj"] or not (rv["k"] == "use" and rv["o"]["k"] == "const" and rv["o"]["val"] in ("const true", "const false", "true", "false")):
                    cand.discard(st["p"]["local"])
        for bi, t, fn in b.calls(include_cleanup=True):
            cand.discard(t["dest"]["local"])
        return cand

    def _flag_stmt(self, st, fl):
        if st["k"] == "assign" and st["p"]["local"] in self.flags and not st["p"]["proj"]:
            d = dict(fl)
            d[st["p"]["local"]] = st["rv"]["o"]["val"] in ("const true", "true")
            return tuple(sorted(d.items()))
        return fl

    def _switch_targets(self, t, fl):
        d = t["discr"]
        if d["k"] in ("copy", "move") and not d["p"]["proj"] and d["p"]["local"] in self.flags:
            v = dict(fl).get(d["p"]["local"])
            if v is not None:
                tm = dict((int(a), b2) for a, b2 in t["targets"])
                return [tm.get(1 if v else 0, t["otherwise"])]
        return [z[1] for z in t["targets"]] + [t["otherwise"]]

    def unwind_outcome(self, bb, state, fl, is_drop_impl):
        """states with which the function is left when unwinding enters cleanup block bb in `state`"""
        b = self.b
        outs, seen, work = set(), set(), [(bb, state, fl)]
        while work:
            x, st, fl = work.pop()
            if (x, st, fl) in seen:
                continue
            seen.add((x, st, fl))
            bl = b.blocks[x]
            for s_ in bl["stmts"]:
                st = self.transfer_stmt(s_, st)
                fl = self._flag_stmt(s_, fl)
            t = bl["term"]
            if t is None:
                continue
            k = t["k"]
            if k == "resume":
                outs.add(st)
            elif k == "goto":
                work.append((t["target"], st, fl))
            elif k == "switch":
                for y in self._switch_targets(t, fl):
                    work.append((y, st, fl))
            elif k == "drop":
                ap = _adt_path(t["ty"])
                db = self.cx.drop_of.get(ap)
                afters = [st]
                if db is not None and db.id != b.id and is_shape_writer(self.cx, db):
                    sub = analyse_fn(self.cx, db, st)
                    afters = sorted(sub.exit_states) or [st]
                    self.restorer_drops.add(ap)
                for a in afters:
                    work.append((t["target"], a, fl))
            elif k == "call":
                fn = t["func"].get("fn") or {}
                if fn.get("name") == "set_len" and not is_drop_impl and self._is_write_term(t):
                    self.reports.append(("R-HIDE", "restore-on-unwind", "restores the vector length on an unwind path (would expose duplicated / moved-out elements to Vec's destructor)", t["span"]))
                a = self.transfer_call(t, st)
                for a2 in (list(a) if a and isinstance(a[0], tuple) else [a]):
                    if t.get("target") is not None:
                        work.append((t["target"], a2, fl))
            elif k == "assert":
                work.append((t["target"], st, fl))
        return outs

    def run(self):
        b = self.b
        n = len(b.blocks)
        self.flags = self._flag_locals()
        IN = [set() for _ in range(n)]
        IN[0].add((self.entry, ()))
        work = [0]
        seen_reports = set()
        self.restorer_drops = set()
        self.points = []          # (point key, state, judged?, outcome) for the evidence
        is_drop_impl = b.name == "drop" and b.trait_head == "Drop"
        while work:
            bb = work.pop()
            bl = b.blocks[bb]
            if bl["cleanup"]:
                continue
            for (state, fl) in list(IN[bb]):
                s8 = state
                for st in bl["stmts"]:
                    if st["k"] == "assign" and st["rv"]["k"] == "agg" and st["rv"].get("agg") == "adt":
                        self.agg_states.setdefault(norm_ty(st["rv"]["adt"]), set()).add(s8)
                    s8 = self.transfer_stmt(st, s8)
                    fl = self._flag_stmt(st, fl)
                t = bl["term"]
                if t is None:
                    continue
                succs = []
                k = t["k"]
                if k == "return":
                    self.exit_states.add(s8)
                    continue
                if k == "goto":
                    succs = [(t["target"], s8)]
                elif k == "switch":
                    succs = [(x, s8) for x in self._switch_targets(t, fl)]
                elif k in ("call", "drop", "assert"):
                    fn = (t["func"].get("fn") or {}) if k == "call" else {}
                    after = s8
                    if k == "call":
                        after = self.transfer_call(t, s8)
                    afters = list(after) if after and isinstance(after[0], tuple) else [after]
                    if k == "drop":
                        ap = _adt_path(t["ty"])
                        db = self.cx.drop_of.get(ap)
                        if db is not None and db.id != b.id and is_shape_writer(self.cx, db):
                            sub = analyse_fn(self.cx, db, s8)
                            afters = sorted(sub.exit_states) or [s8]
                            self.restorer_drops.add(ap)
                    if k == "call" and fn.get("path") in RAW_MOVES and re.search(r"/#\d", " ".join(fn.get("args", []))):
                        self.raw_sites.append((t["span"], fn["path"], s8, bb))
                    if k == "call":
                        for c in re.findall(r"Closure\(DefId\([^)]*~ ([^)]*)\)", " ".join(fn.get("args", []))):
                            cb = self.cx._closure_by_mangled(c)
                            if cb is not None:
                                self.closure_sites.append((cb.id, s8))
                        hb0 = self.cx.f.crate_fn_for_call(fn)
                        if hb0 is not None and hb0.id != b.id:
                            # a crate function called from a writer runs in the writer's state (used for raw moves in helpers)
                            self.closure_sites.append((hb0.id, s8))
                    if k == "drop" and s8[0] in ("Z", "V") and re.match(r"^[A-Z]\w*/#\d+$", t["ty"]) and any(e["k"] == "deref" for e in t["p"]["proj"]):
                        # `*slot = e` / drop_in_place through a pointer while the buffer is hidden: the slot holds a bitwise
                        # duplicate (or nothing), dropping it drops a live element a second time
                        self.reports.append(("R-HIDE", "drop-in-place", "drops an element in place through a reference into the buffer while the Vec length is lowered (assignment `*slot = x` instead of ptr::write): the slot holds a bitwise copy of a live element", t["span"]))
                    if self.cx.term_may_unwind(t):
                        cands = [(s8, False)]
                        if k == "call" and (fn.get("name") in POST_STATE_UNWIND or fn.get("name") in MIDWAY_UNWIND) and self._is_write_term(t) and afters:
                            cands = [(afters[0], False)]
                        if k == "call":
                            hb = self.cx.f.crate_fn_for_call(fn)
                            if hb is not None and hb.id in self.cx.helpers and hb.id != b.id:
                                # a private helper: the array is left as the helper leaves it at its own may-unwind points
                                cands = sorted(analyse_fn(self.cx, hb, s8).unwind_exits) or cands
                        uw = t.get("unwind")
                        for unwind_state, inner in cands:
                            intermediate = inner or self.write_reachable_after(bb, t.get("target"))
                            if t.get("target") is None and unwind_state != self.entry:
                                # a call that never returns (a failed assertion): the function is left exactly here, with
                                # whatever it has written so far
                                intermediate = True
                            if isinstance(uw, int):
                                outs = self.unwind_outcome(uw, unwind_state, fl, is_drop_impl)
                            elif uw == "terminate" or uw == "unreachable":
                                outs = set()
                            else:
                                outs = {unwind_state}
                            for o in outs:
                                self.unwind_exits.add((o, intermediate))
                            bad = sorted(o for o in outs if not _orig_consistent(o))
                            self.points.append((self.point_key(t), unwind_state, intermediate, sorted(outs)))
                            if bad and intermediate:
                                key = (self.point_key(t), unwind_state)
                                if key not in seen_reports:
                                    seen_reports.add(key)
                                    self.reports.append(("R-UNWIND", "%s@%s" % (self.point_key(t), ",".join(unwind_state)),
                                                         "%s may unwind while (len,rows,cols)=%s and the function is left with %s: the array keeps dimensions that do not match its contents" % (self.describe(t), unwind_state, bad), t["span"]))
                    if t.get("target") is not None:
                        for a in afters:
                            succs.append((t["target"], a))
                for nb, ns in succs:
                    if (ns, fl) not in IN[nb]:
                        IN[nb].add((ns, fl))
                        work.append(nb)
        return self


def _strip_final(st):
    return st[1:] if st and st[0] == "F" else st


_WRITER_MEMO = {}


def is_shape_writer(cx, body, direct=False):
    key = (id(cx), body.id, direct)
    if key in _WRITER_MEMO:
        return _WRITER_MEMO[key]
    _WRITER_MEMO[key] = False
    fnx = Fn.__new__(Fn)
    fnx.cx, fnx.b = cx, body
    fnx.d = Dfx(body)
    fnx.toodee_locals = {i for i, ty in enumerate(body.locals) if re.match(r"^&mut %s<" % re.escape(cx.toodee_path), norm_ty(ty))}
    fnx.datarefs = set()
    _seed_refs(fnx, cx, body, True)
    w = False
    for bi, bl in enumerate(body.blocks):
        if any(fnx._is_write_stmt(st) for st in bl["stmts"]) or fnx._is_write_term(bl["term"], direct=direct):
            w = True
            break
    _WRITER_MEMO[key] = w
    return w


def analyse_fn(cx, body, entry=("O", "O", "O")):
    entry = _strip_final(entry)
    key = (body.id, entry)
    if key in cx.summ:
        return cx.summ[key]
    placeholder = Fn.__new__(Fn)
    placeholder.exit_states = {entry}
    placeholder.reports = []
    placeholder.agg_states = {}
    placeholder.raw_sites = []
    placeholder.closure_sites = []
    placeholder.unwind_exits = set()
    cx.summ[key] = placeholder
    fnr = Fn(cx, body, entry).run()
    fnr.exit_states = {_strip_final(s) for s in fnr.exit_states}
    cx.summ[key] = fnr
    return fnr


def returns_leakable(cx, body):
    """return type has drop glue that writes the borrowed array's shape: a crate ADT whose Drop is a shape
    writer, or std's vec::Drain"""
    rt = norm_ty(body.locals[0]) if body.locals else ""
    if "alloc::vec::Drain<" in rt:
        return "vec::Drain"
    for ap, db in cx.drop_of.items():
        if re.search(r"(^|[ (<])%s<" % re.escape(ap), rt) and is_shape_writer(cx, db):
            return ap
    return None


def r_shape(f):
    """runs R-UNWIND, R-LEAK, R-LEAK-DRAIN, R-HIDE; returns one Result per rule"""
    _WRITER_MEMO.clear()
    cx = Ctx(f)
    if cx.holders:
        # first pass: find the guard types that are actually built around the array's buffer, then start afresh
        for b0 in f.fn_bodies:
            is_shape_writer(cx, b0, direct=True)
        _WRITER_MEMO.clear()
    RU, RL, RD, RH = Result("R-UNWIND"), Result("R-LEAK"), Result("R-LEAK-DRAIN"), Result("R-HIDE")
    def exported(b):
        return b.kind != "Closure" and (b.d.get("vis") == "Public" or bool(b.impl_trait) or bool(b.trait_provided))
    # private helpers that write the shape may legitimately return in an intermediate state: they are analysed in the
    # context of every caller (transfer through the call, unwind states propagated), and their callers are writers
    cx.helpers = {b.id for b in f.fn_bodies if b.kind != "Closure" and not exported(b) and not b.d.get("derived") and is_shape_writer(cx, b)}
    # a closure that writes the shape through captured references and is called directly by the crate is a helper as well
    called = {f.crate_fn_for_call(fn).id for b in f.fn_bodies for _, _, fn in b.calls(include_cleanup=True) if fn and f.crate_fn_for_call(fn) is not None}
    cx.helpers |= {b.id for b in f.fn_bodies if b.kind == "Closure" and b.id in called and is_shape_writer(cx, b)}

    def calls_helper(b):
        return any(fn and (f.crate_fn_for_call(fn) is not None) and f.crate_fn_for_call(fn).id in cx.helpers and f.crate_fn_for_call(fn).id != b.id for _, _, fn in b.calls(include_cleanup=True))
    writers = [b for b in f.fn_bodies if (is_shape_writer(cx, b, direct=True) or calls_helper(b)) and not b.d.get("derived") and b.id not in cx.helpers]
    helper_bodies = [b for b in f.fn_bodies if b.id in cx.helpers]
    delegators = [b for b in f.fn_bodies if is_shape_writer(cx, b) and not is_shape_writer(cx, b, direct=True) and b.id not in cx.helpers and not calls_helper(b)]
    # order: functions that construct guard/drain types first, so that destructors get their entry states
    adt_entry = {}
    done = {}
    drop_bodies = {db.id: ap for ap, db in cx.drop_of.items()}
    pending = [b for b in writers if b.id not in drop_bodies]
    for b in pending:
        fnr = analyse_fn(cx, b)
        done[b.id] = [fnr]
        for adt, sts in fnr.agg_states.items():
            adt_entry.setdefault(adt, set()).update(sts)
    # destructors: entry = states at the construction sites of their type (struct invariant), iterate to a fixpoint
    for _ in range(4):
        progress = False
        for ap, db in cx.drop_of.items():
            if not is_shape_writer(cx, db):
                continue
            entries = adt_entry.get(ap) or set()
            for e in sorted(entries):
                e = _strip_final(e)
                if (db.id, e) in [(x.b.id, x.entry) for x in done.get(db.id, [])]:
                    continue
                fnr = analyse_fn(cx, db, e)
                done.setdefault(db.id, []).append(fnr)
                progress = True
                for adt, sts in fnr.agg_states.items():
                    before = len(adt_entry.get(adt, set()))
                    adt_entry.setdefault(adt, set()).update(sts)
                    if len(adt_entry[adt]) != before:
                        progress = True
        if not progress:
            break
    cx.entry_of_adt = adt_entry
    for hb in helper_bodies:
        runs = [fnr for (bid, e), fnr in list(cx.summ.items()) if bid == hb.id and isinstance(fnr, Fn) and hasattr(fnr, "points")]
        done[hb.id] = runs
        RU.inst(hb.ident, "private helper that writes the shape: not judged on its own, analysed in the context of its callers (entries seen: %s)" % sorted({x.entry for x in runs}), True)
        seen = set()
        for fnr in runs:
            for (rule, desc, msg, span) in fnr.reports:
                if rule == "R-HIDE" and (rule, desc) not in seen:
                    seen.add((rule, desc))
                    RH.fail(hb.ident, desc, "%s: %s" % (hb.ident, msg), hb.where(span), {"entry": fnr.entry})
    n_fn = 0
    for b in writers:
        runs = done.get(b.id)
        if not runs:
            # a destructor of a type that is never constructed in a shape-relevant state
            runs = [analyse_fn(cx, b)]
        n_fn += 1
        allrep = []
        for fnr in runs:
            for rep in fnr.reports:
                allrep.append((fnr.entry, rep))
        unw = [(e, r) for e, r in allrep if r[0] == "R-UNWIND"]
        RU.inst(b.ident, "every may-unwind point with a pending shape write leaves (len,rows,cols) untouched, all-zero or in product form (entries analysed: %s)" % sorted({x.entry for x in runs}), not unw)
        seen = set()
        for e, (rule, desc, msg, span) in allrep:
            R = RU if rule == "R-UNWIND" else RH
            if (rule, desc) in seen:
                continue
            seen.add((rule, desc))
            R.fail(b.ident, desc, "%s: %s" % (b.ident, msg), b.where(span), {"entry": e})
        # leak / return
        lk = returns_leakable(cx, b)
        exits = set()
        for fnr in runs:
            exits |= fnr.exit_states
        if lk:
            if lk == "vec::Drain":
                pass
            else:
                bad = sorted(s for s in exits if not _orig_consistent(s))
                RL.inst(b.ident, "returns %s: state at return, as if its destructor never runs, is consistent: %s" % (lk.split("::")[-1], sorted(exits)), not bad)
                for s in bad:
                    RL.fail(b.ident, "leak:%s" % ",".join(s), "%s returns a %s while (len,rows,cols)=%s; if the drain is leaked (mem::forget) the array keeps dimensions that do not match its (emptied) buffer" % (b.ident, lk.split("::")[-1], s), b.where())
        else:
            bad = sorted(s for s in exits if s[0] in ("Z", "P", "O") and not _orig_consistent(s))
            judged = sorted(s for s in exits if s[0] in ("Z", "P", "O"))
            RU.inst(b.ident, "returns with a consistent triple where the length is untouched / zero / product form: %s (declined arithmetic: %s)" % (judged, sorted(exits - set(judged))), not bad)
            for s in bad:
                RU.fail(b.ident, "return:%s" % ",".join(s), "%s returns with (len,rows,cols)=%s" % (b.ident, s), b.where())
    # R-LEAK-DRAIN: a returned vec::Drain over the data vector must be a tail drain
    n_drain = 0
    for b in f.fn_bodies:
        for bi, t, fn in b.calls():
            if fn and fn["path"].startswith("alloc::vec::Vec::<T, A>::drain"):
                fnx = Fn(cx, b)
                recv = t["args"][0]
                on_data = recv["k"] in ("copy", "move") and (recv["p"]["local"] in fnx.datarefs or fnx.is_data_place(recv["p"]))
                if not on_data:
                    continue
                n_drain += 1
                rty = fn["args"][2] if len(fn.get("args", [])) > 2 else "?"
                ok = "RangeFrom" in rty or "RangeFull" in rty
                why = rty
                if not ok and "ops::Range<" in rty:
                    # end of the range is, as a value graph, Vec::len of the same vector at the call
                    e = strip(fnx.d.expr(t["args"][1]))
                    if e[0] == "agg" and len(e[2]) == 2:
                        end = strip(e[2][1])
                        if end[0] == "call" and end[2] == "len":
                            ok = True
                            why = "Range whose end is Vec::len()"
                RD.inst(b.ident, "Vec::drain over the array's buffer is a tail drain (%s)" % norm_ty(why), ok)
                if not ok:
                    RD.fail(b.ident, "not-tail-drain", "%s removes elements with Vec::drain(%s) over a middle range of the buffer and returns the Drain: if it is leaked, Vec keeps only the prefix (len = range.start) while the dimensions were already updated" % (b.ident, norm_ty(rty)), b.where(t["span"]))
    # R-HIDE: raw moves of elements only inside a hidden window
    n_raw = 0
    for b in f.fn_bodies:
        raw = [(bi, t, fn) for bi, t, fn in b.calls(include_cleanup=True) if fn and fn["path"] in RAW_MOVES and re.search(r"/#\d", " ".join(fn.get("args", [])))]
        if not raw:
            continue
        root = f.by_id.get(b.d["root"], b)
        # T: Copy in scope -> harmless
        preds = norm_ty(" ".join(root.d.get("preds", []) or []))
        if re.search(r"<T as core::marker::Copy>", preds):
            continue
        # entry states: own analysis if writer, else the struct invariant of the self type
        states_at = {}
        if is_shape_writer(cx, root) and root.id == b.id:
            for fnr in done.get(b.id, []) or [analyse_fn(cx, b)]:
                for span, path, st, bb in fnr.raw_sites:
                    states_at.setdefault((span["lo"], span["col"], path), set()).add(st)
        # a closure of a writer runs where the writer hands it to a higher-order call: the states there
        clo_states = None
        if b.kind == "Closure" and root.id != b.id and is_shape_writer(cx, root, direct=True):
            clo_states = set()
            for fnr in done.get(root.id, []) or [analyse_fn(cx, root)]:
                clo_states |= {st for cid, st in fnr.closure_sites if cid == b.id}
        if clo_states is None and b.kind != "Closure" and not b.impl_self and not is_shape_writer(cx, b):
            # a free helper function (no receiver, hence no struct invariant): it runs in the state of the writers that call it
            hs = set()
            for wb in f.fn_bodies:
                if wb.id != b.id and is_shape_writer(cx, wb, direct=True):
                    for fnr in done.get(wb.id, []) or [analyse_fn(cx, wb)]:
                        hs |= {st for cid, st in fnr.closure_sites if cid == b.id}
            if hs:
                clo_states = hs
                root = b
        for bi, t, fn in raw:
            n_raw += 1
            sts = states_at.get((t["span"]["lo"], t["span"]["col"], fn["path"]))
            if sts is None and clo_states:
                sts = clo_states
                src = ("states at the call sites in %s that receive this closure" % root.ident) if b.kind == "Closure" else "states at the call sites of this helper in the shape writers"
            elif sts is None:
                # not a writer itself: use the invariant of the type it is a method of
                ap = _adt_path(root.impl_self) if root.impl_self else None
                sts = {_strip_final(s) for s in adt_entry.get(ap, set())} if ap else set()
                src = "struct invariant of %s established at its construction sites" % (ap.split("::")[-1] if ap else "?")
            else:
                src = "dataflow"
            if sts and all(tuple(_strip_final(s_)) == ("O", "O", "O") for s_ in sts) and root.impl_self:
                # untouched since entry, in a method of a type that is only built while the buffer is hidden (the drain): the
                # entry state is that type's struct invariant
                ap0 = _adt_path(root.impl_self)
                inv0 = {_strip_final(s_) for s_ in adt_entry.get(ap0, set())} if ap0 else set()
                if inv0:
                    sts = inv0
                    src = "struct invariant of %s (state untouched since entry)" % ap0.split("::")[-1]
            hidden = bool(sts) and all(_strip_final(s)[0] in ("Z", "V") for s in sts)
            if not hidden and is_shape_writer(cx, b, direct=True) and not b.blocks[bi]["cleanup"]:
                # moved while still visible, but hidden straight afterwards: accepted when every path from the move reaches a
                # `set_len` on the buffer before any point where control can leave (may-unwind call / drop, return)
                fnxh = Fn(cx, b)
                seen_h, work_h, okh = set(), [t.get("target")], True
                while work_h and okh:
                    x = work_h.pop()
                    if x is None:
                        okh = False; break
                    if x in seen_h:
                        continue
                    seen_h.add(x)
                    tt = b.blocks[x]["term"]
                    if tt is None or tt["k"] in ("return", "resume", "unreachable"):
                        okh = tt is not None and tt["k"] == "unreachable"
                        if not okh:
                            break
                        continue
                    if tt["k"] == "call" and fnxh._is_write_term(tt, direct=True) and (tt["func"].get("fn") or {}).get("name") == "set_len":
                        continue
                    if tt["k"] in ("call", "drop", "assert") and cx.term_may_unwind(tt):
                        okh = False; break
                    work_h.extend(b.succs(x))
                if okh and seen_h:
                    hidden = True
                    src = "moved first, hidden by set_len before any exit point; " + src
            RH.inst(b.ident, "%s on elements happens while the Vec length is lowered (%s: %s)" % (fn["path"].split("::")[-1], src, sorted(sts)), hidden)
            if not hidden:
                RH.fail(b.ident, "exposed:%s" % fn["path"].split("::")[-1], "%s moves elements bitwise with %s while the buffer is still visible to Vec (len state %s): a panic or early return here double-drops or exposes a moved-out element" % (b.ident, fn["path"], sorted(sts)), b.where(t["span"]))
        # the window must be opened by *forgetting* the elements (set_len), never by a call that drops or moves them out: the
        # raw moves that follow would bring dropped elements back to life
        if is_shape_writer(cx, b, direct=True):
            fnx0 = Fn(cx, b)
            raw_blocks0 = {bi for bi, t, fn in raw}
            for bi, t, fn in b.calls():
                if fn and fnx0._is_write_term(t, direct=True) and fn["name"] in LEN_CHANGERS and fn["name"] in ("truncate", "clear", "drain", "pop", "remove", "swap_remove", "retain", "retain_mut", "dedup", "dedup_by", "dedup_by_key", "split_off", "resize", "resize_with"):
                    after = set(b.reachable(bi))
                    if any(rb in after and rb != bi for rb in raw_blocks0):
                        RH.inst(b.ident, "the window is opened with set_len, not with a call that drops elements", False)
                        RH.fail(b.ident, "drops-then-moves:%s" % fn["name"], "%s lowers the Vec length with %s, which drops (or hands out) the elements, and afterwards moves the same cells bitwise and restores the length: dropped elements are resurrected and dropped again later" % (b.ident, fn["name"]), b.where(t["span"]))
        # closing: every normal path from a raw move to `return` passes a length write (restore) or the function returns a guard
        if is_shape_writer(cx, b):
            fnx = Fn(cx, b)
            lk = returns_leakable(cx, b)
            for bi, t, fn in raw:
                if b.blocks[bi]["cleanup"]:
                    continue
                # search for a path to return avoiding len writes
                seen, work, leak = set(), [t["target"]], False
                while work:
                    x = work.pop()
                    if x is None or x in seen:
                        continue
                    seen.add(x)
                    tt = b.blocks[x]["term"]
                    if tt and tt["k"] == "call" and fnx._is_write_term(tt) and (tt["func"].get("fn") or {}).get("name") in LEN_CHANGERS:
                        continue
                    if tt and tt["k"] == "return":
                        leak = True
                        break
                    work.extend(b.succs(x))
                ok = (not leak) or bool(lk) or (b.name == "drop")
                RH.inst(b.ident, "every normal path from %s to return restores the length" % fn["path"].split("::")[-1], ok)
                if not ok:
                    RH.fail(b.ident, "no-restore:%s" % fn["path"].split("::")[-1], "%s can return after %s without restoring the Vec length" % (b.ident, fn["path"]), b.where(t["span"]))
    # R-RESTORE: the destructor of a drain type handed to the caller must complete its restore also when caller
    # code (an element's Drop) panics inside it: every may-unwind point of that destructor, while the restore
    # is pending, is covered by a restorer guard (unwind outcome in product form, like the normal exit)
    RR = Result("R-RESTORE")
    for ap, db in cx.drop_of.items():
        if not is_shape_writer(cx, db):
            continue
        # handed to the caller: some exported function returns it
        handed = any(returns_leakable(cx, b) == ap for b in f.fn_bodies if b.kind != "Closure")
        if not handed:
            continue
        for fnr in done.get(db.id, []):
            normal = {s_ for s_ in fnr.exit_states}
            restores = bool(normal) and all(s_[0] == "P" for s_ in normal)
            if not restores:
                continue
            for (pk, st, intermediate, outs) in getattr(fnr, "points", []):
                if not intermediate or "<caller>" not in pk and not pk.startswith("call:drop") and not pk.startswith("drop:") and not pk.startswith("call:for_each"):
                    continue
                ok = bool(outs) and all(o[0] == "P" for o in outs)
                RR.inst(db.ident, "caller code at %s (state %s) is covered by a restorer guard: unwind outcome %s" % (pk, st, outs), ok)
                if not ok:
                    RR.fail(db.ident, "unguarded:%s" % pk, "%s runs caller code (%s) with the restore still pending and no live guard: if it panics, the compaction never happens and the array is left empty instead of 'the original without the removed line'" % (db.ident, pk), db.where())
    # ... and no normal path through that destructor skips the restorer (an early `return` leaves the elements undropped and
    # the array emptied)
    for ap, db in cx.drop_of.items():
        if not is_shape_writer(cx, db):
            continue
        if not any(returns_leakable(cx, b) == ap for b in f.fn_bodies if b.kind != "Closure"):
            continue
        wblocks = [bi for bi, bl in enumerate(db.blocks) if not bl["cleanup"] and (any(Fn(cx, db)._is_write_stmt(st) for st in bl["stmts"]) or Fn(cx, db)._is_write_term(bl["term"]))]
        rets = [rb for rb, bl in enumerate(db.blocks) if bl["term"] and bl["term"]["k"] == "return" and not bl["cleanup"] and rb in db.reachable(0)]
        def passes(rb):
            seen, work = set(), [0]
            while work:
                x = work.pop()
                if x in seen or x in wblocks:
                    continue
                seen.add(x)
                if x == rb:
                    return False
                work.extend(db.succs(x))
            return True
        skipping = [rb for rb in rets if not passes(rb)]
        RR.inst(db.ident, "every normal path through the destructor performs the restore (%d shape-writing blocks)" % len(wblocks), bool(wblocks) and not skipping)
        if wblocks and skipping:
            RR.fail(db.ident, "restore-skipped", "%s can return without restoring the array (an early return bypasses the compaction / the drop of the remaining elements): the removed line's unconsumed elements are never dropped and the array stays empty" % db.ident, db.where())
    # ... and the remaining elements of the drain are dropped before its cells are overwritten, under cover of the restorer:
    #  (a) every block move of the compaction is dominated, on the normal path, by an exhaustion of the drain's cursor - a
    #      consuming call (for_each / fold ..) in the function that moves, or the `None` exit of a `next()` loop dominating every
    #      normal drop of the restorer guard (else the unconsumed elements are overwritten without being dropped: a leak in a
    #      history where nothing panics);
    #  (b) a restorer whose own drop still steps the cursor (its unwind duty: finish dropping after a panic) runs that caller
    #      code with nothing above it; on the normal path it may therefore only be entered with the cursor exhausted.
    for ap, db in cx.drop_of.items():
        if not is_shape_writer(cx, db):
            continue
        if not any(returns_leakable(cx, b) == ap for b in f.fn_bodies if b.kind != "Closure"):
            continue
        tname = ap.split("::")[-1]

        def on_drain(fn):
            txt = " ".join([fn.get("self_ty") or "", fn.get("resolved") or "", fn.get("path") or ""] + list(fn.get("args") or []))
            return re.search(r"\b%s<" % re.escape(tname), txt) is not None
        STEP1 = ("next", "next_back")
        CONSUME = ("for_each", "fold", "rfold", "count", "last", "try_fold", "try_for_each", "for_each_mut")
        movers = []
        for gb in f.fn_bodies:
            if gb.name == "drop" and gb.kind != "Closure" and (gb.id == db.id or db.id in gb.id or db.id.strip("<>") in (gb.impl_self or "")):
                mv = [bi for bi, t, fn in gb.calls() if fn and fn["path"] in RAW_MOVES and fn["path"].split("::")[-1] in ("copy", "copy_nonoverlapping")]
                if mv:
                    movers.append((gb, mv))

        def none_exits(bb_):
            """blocks entered through the `None` edge of a next()/next_back() on the drain"""
            out = []
            dxx = Dfx(bb_)
            for bi, bl in enumerate(bb_.blocks):
                tt = bl["term"]
                if bl["cleanup"] or not tt or tt["k"] != "switch":
                    continue
                e = strip(dxx.expr(tt["discr"]))
                if e[0] == "discr":
                    src = strip(e[1])
                    if src[0] == "call" and src[2] in STEP1 and len(src) > 4 and isinstance(src[4], dict) and on_drain(src[4]):
                        vals_ = [str(val) for val, tgt in tt["targets"]]
                        for val, tgt in tt["targets"]:
                            if str(val) == "0":
                                out.append(tgt)
                        if vals_ == ["1"]:
                            out.append(tt["otherwise"])     # Option has two variants: not Some is None
            return out
        def no_glue_edges(bb_):
            """edges taken when `mem::needs_drop::<T>()` is false: on them no element has anything to drop, so the remaining
            elements may be abandoned where they are"""
            out = set()
            dxx = Dfx(bb_)
            for bi, bl in enumerate(bb_.blocks):
                tt = bl["term"]
                if bl["cleanup"] or not tt or tt["k"] != "switch":
                    continue
                e = strip(dxx.expr(tt["discr"]))
                neg = False
                while e[0] == "un" and e[1] == "Not":
                    neg = not neg; e = strip(e[2])
                if e[0] == "call" and e[2] == "needs_drop" and str(e[1]).startswith("core::mem::"):
                    tm_ = [(int(a_), b2) for a_, b2 in tt["targets"]]
                    for val, tgt in tm_ + [(None, tt["otherwise"])]:
                        truth = (val == 1) or (val is None and any(v_ == 0 for v_, _ in tm_))
                        if neg:
                            truth = not truth
                        if not truth:
                            out.add((bi, tgt))
            return out

        def covered(bb_, targets, points):
            """every normal path from the entry to a target passes an exhaustion point or a no-drop-glue edge"""
            cut = no_glue_edges(bb_)
            seen, work = set(), [0]
            while work:
                x = work.pop()
                if x in seen:
                    continue
                seen.add(x)
                if x in points:
                    continue
                for y in bb_.succs(x):
                    if (x, y) not in cut and not bb_.blocks[y]["cleanup"]:
                        work.append(y)
            return all(t_ not in seen or t_ in points for t_ in targets)
        for gb, mv in movers:
            domg = gb.dominators()
            cons = [bi for bi, t, fn in gb.calls() if fn and fn["name"] in CONSUME and on_drain(fn)] + none_exits(gb)
            steps_cursor = any(fn and fn["name"] in CONSUME + STEP1 and on_drain(fn) for bi, t, fn in gb.calls())
            inner_ok = any(all(c in domg.get(m, set()) for m in mv) for c in cons) or ((bool(cons) or bool(no_glue_edges(gb))) and covered(gb, mv, set(cons)))
            outer_ok = None
            if gb.id != db.id:
                gname = (gb.self_head or "").split("::")[-1]
                drops = [bi for bi, bl in enumerate(db.blocks) if not bl["cleanup"] and bl["term"] and bl["term"]["k"] == "drop" and re.search(r"\b%s<" % re.escape(gname), bl["term"].get("ty", "")) and bi in db.reachable(0)]
                # exhaustion points of the outer destructor: the None exit of a next() loop, or a consuming call on the drain
                # (`guard.0.by_ref().for_each(drop)` under the live guard)
                ne = none_exits(db) + [t_["target"] for bi_, t_, fn_ in db.calls() if fn_ and fn_["name"] in CONSUME and (on_drain(fn_) or "by_ref" in [f2_["name"] for _, _, f2_ in db.calls() if f2_]) and t_.get("target") is not None]
                domd = db.dominators()
                outer_ok = bool(drops) and (all(any(n_ in domd.get(d_, set()) for n_ in ne) for d_ in drops) or ((bool(ne) or bool(no_glue_edges(db))) and covered(db, drops, set(ne))))
            ok_a = inner_ok or bool(outer_ok)
            RR.inst(gb.ident, "(a) the compaction's block moves are preceded by an exhaustion of the drain's cursor on the normal path", ok_a)
            if not ok_a:
                RR.fail(gb.ident, "moves-before-exhaustion", "%s overwrites the removed line's cells (block moves of the compaction) without first dropping the elements the caller did not consume: in a history where nothing panics and nothing is leaked they are never dropped" % gb.ident, gb.where())
            if gb.id != db.id and steps_cursor:
                RR.inst(gb.ident, "(b) the restorer, which itself drops remaining elements with nothing above it, is entered on the normal path only after the cursor is exhausted", bool(outer_ok))
                if not outer_ok:
                    RR.fail(db.ident, "restorer-entered-unexhausted", "%s hands the restorer %s a cursor that may still hold elements on the normal path: the restorer drops them (caller code) with no guard above it, so a panicking element destructor skips the compaction and leaves the array empty" % (db.ident, gb.ident), db.where())
    # R-DRAINSTEP: the iterator impls of a hand-made drain only single-step the embedded cursor and read out exactly
    # the element stepped over (anything that jumps - nth, nth_back, skip, advance_by, last - forgets elements)
    RS = Result("R-DRAINSTEP")
    for ap, db in cx.drop_of.items():
        if not is_shape_writer(cx, db):
            continue
        tyhead = ap.split("::")[-1]
        for b in f.fn_bodies:
            if b.self_head != tyhead or not b.impl_trait or b.trait_head not in ("Iterator", "DoubleEndedIterator", "ExactSizeIterator") or b.kind != "AssocFn":
                continue
            bad = []
            steps = 0
            # blocks that only run for element types without drop glue (`if mem::needs_drop::<T>() { .. return }`): skipping such
            # elements loses nothing
            dfx_ = Dfx(b)
            dom_ = b.dominators()
            nodrop_succ = []
            for sb, bl in enumerate(b.blocks):
                tt = bl["term"]
                if bl["cleanup"] or not tt or tt["k"] != "switch":
                    continue
                e_ = strip(dfx_.expr(tt["discr"]))
                neg_ = False
                while e_[0] == "un" and e_[1] == "Not":
                    neg_ = not neg_; e_ = strip(e_[2])
                if e_[0] == "call" and e_[1] == "core::mem::needs_drop":
                    tm_ = dict((int(a), b2) for a, b2 in tt["targets"])
                    f_succ, t_succ = tm_.get(0, tt["otherwise"]), (tt["otherwise"] if 0 in tm_ else tm_.get(1))
                    nodrop_succ.append(t_succ if neg_ else f_succ)
            for bi, t, fn in b.calls():
                if not fn:
                    continue
                st_ = fn.get("self_ty") or ""
                on_cursor = re.search(r"iter::(Col|ColMut|Rows|RowsMut)<", st_) is not None or re.search(r"iter::(Col|ColMut|Rows|RowsMut)<", fn.get("resolved") or "") is not None
                if not on_cursor:
                    continue
                if fn["name"] in ("next", "next_back"):
                    steps += 1
                    want_dir = {"next": "next", "nth": "next", "next_back": "next_back", "nth_back": "next_back", "last": "next_back", "rfold": "next_back", "fold": "next"}.get(b.name)
                    if want_dir and fn["name"] != want_dir:
                        bad.append(("direction:" + fn["name"], t["span"]))
                elif fn["name"] in ("size_hint", "len", "is_empty", "by_ref"):
                    pass
                elif fn["name"] in ("fold", "rfold", "for_each") and b.name in ("fold", "rfold", "for_each") and \
                        any(fn2 and fn2["path"] in ("core::ptr::read", "core::ptr::const_ptr::<impl *const T>::read", "core::ptr::mut_ptr::<impl *mut T>::read") for c in b.closures() for _, _, fn2 in c.calls()):
                    # a whole traversal of the remaining elements whose closure reads each one out: nothing is stepped over unread
                    steps += 1
                    want_t = {"fold": ("fold", "for_each"), "for_each": ("fold", "for_each"), "rfold": ("rfold",)}[b.name]
                    if fn["name"] not in want_t:
                        bad.append(("direction:" + fn["name"], t["span"]))
                elif any(ns is not None and (ns == bi or ns in dom_.get(bi, set())) for ns in nodrop_succ):
                    steps += 1          # a jump taken only when T has no drop glue; its result must still be read out
                else:
                    bad.append((fn["name"], t["span"]))
            # every step's result is read out with ptr::read in this body, its closures, or a crate function handed to map()
            READS = ("core::ptr::read", "core::ptr::const_ptr::<impl *const T>::read", "core::ptr::mut_ptr::<impl *mut T>::read")
            reads = sum(1 for c in [b] + b.closures() for _, _, fn2 in c.calls() if fn2 and fn2["path"] in READS)
            for _, t2, fn2 in b.calls():
                for a in t2["args"]:
                    if a["k"] == "const" and a.get("fn"):
                        hb2 = f.crate_fn_for_call(a["fn"])
                        if hb2 is not None and any(fn3 and fn3["path"] in READS for _, _, fn3 in hb2.calls()):
                            reads += 1
            if steps or bad:
                ok = not bad and reads >= steps
                RS.inst(b.ident, "advances the embedded cursor only by single steps (%d) and reads out each stepped-over element (%d ptr::read)" % (steps, reads), ok)
                for nm, sp in bad:
                    if nm.startswith("direction:"):
                        RS.fail(b.ident, nm, "%s steps the embedded cursor with %s: the drain yields its elements from the wrong end" % (b.ident, nm.split(":")[1]), b.where(sp))
                        continue
                    RS.fail(b.ident, "jump:%s" % nm, "%s advances the drain's embedded cursor with %s: the elements jumped over are neither yielded nor dropped, and the destructor then overwrites them (leak)" % (b.ident, nm), b.where(sp))
                if not bad and reads < steps:
                    RS.fail(b.ident, "no-read", "%s steps the embedded cursor without reading the element out" % b.ident, b.where())
    # R-DRAINORDER: once the restorer has started moving elements, nothing may step the drain's cursor any more
    # (the cursor still points at old-layout slots that the compaction refills)
    RO = Result("R-DRAINORDER")
    for ap, db in cx.drop_of.items():
        if not is_shape_writer(cx, db):
            continue
        raw_blocks = [bi for bi, t, fn in db.calls() if fn and fn["path"] in RAW_MOVES and re.search(r"/#\d", " ".join(fn.get("args", [])))]
        if not raw_blocks:
            continue
        steppers = []
        for bi, t, fn in db.calls():
            if not fn:
                continue
            st_ = (fn.get("self_ty") or "") + " " + " ".join(fn.get("args", []))
            if (fn.get("trait") or "").endswith("Iterator") and re.search(r"(toodee::DrainCol<|iter::(Col|ColMut|Rows|RowsMut)<)", st_) and fn["name"] not in ("size_hint", "len"):
                steppers.append((bi, t, fn))
        bad = []
        for bi, t, fn in steppers:
            for rb in raw_blocks:
                if bi in db.reachable(rb) and bi != rb:
                    bad.append((fn["name"], t["span"]))
        RO.inst(db.ident, "the drain's cursor is only stepped before the first block move (%d stepping calls, %d raw moves)" % (len(steppers), len(raw_blocks)), not bad)
        for nm, sp in bad[:1]:
            RO.fail(db.ident, "step-after-move:%s" % nm, "%s steps the drain (%s) after it has started compacting the buffer: the cursor still addresses the old layout, so un-yielded elements are overwritten undropped and live elements are read out and dropped" % (db.ident, nm), db.where(sp))
    # R-STALE: buffer addressing must not be computed from a dimension field that the function has already overwritten
    RT = Result("R-STALE")
    ADDR = ("drain", "rotate_left", "rotate_right", "index", "index_mut", "split_at", "split_at_mut", "add", "sub", "copy", "copy_nonoverlapping",
            "from_raw_parts", "from_raw_parts_mut", "truncate", "get_unchecked", "get_unchecked_mut", "split_off")
    for b in writers:
        fnx = Fn(cx, b)
        stores = {}          # field -> [(block, stmt index)]
        for bi, si, st in b.stmts():
            if st["k"] == "assign":
                fld = fnx.dim_field(st["p"])
                if fld is not None:
                    stores.setdefault(fld, []).append((bi, si))
        if not stores:
            continue
        tainted = {}         # local -> (field, span)
        for bi, si, st in b.stmts():
            if st["k"] == "assign" and st["rv"]["k"] == "use" and st["rv"]["o"]["k"] in ("copy", "move"):
                fld = fnx.dim_field(st["rv"]["o"]["p"])
                if fld is not None and not st["p"]["proj"]:
                    after = any((sb == bi and ss < si) or (sb != bi and bi in b.reachable(sb)) for (sb, ss) in stores.get(fld, []))
                    if after:
                        tainted[st["p"]["local"]] = (fld, st["span"])
        # propagate through arithmetic on single-definition temporaries
        changed = True
        while changed:
            changed = False
            for bi, si, st in b.stmts():
                if st["k"] != "assign" or st["p"]["proj"] or st["p"]["local"] in tainted:
                    continue
                rv = st["rv"]
                ops = [rv.get("o"), rv.get("l"), rv.get("r")] + list(rv.get("fields", []))
                for o in ops:
                    if o and o["k"] in ("copy", "move") and o["p"]["local"] in tainted:
                        tainted[st["p"]["local"]] = tainted[o["p"]["local"]]
                        changed = True
                        break
        nread = len(tainted)
        bad = []
        for bi, t, fn in b.calls():
            if not fn or fn["name"] not in ADDR:
                continue
            for a in t["args"]:
                if a["k"] in ("copy", "move") and a["p"]["local"] in tainted:
                    bad.append((fn["name"], tainted[a["p"]["local"]], t["span"]))
        # ... nor decide *whether* such a call happens
        addr_blocks = [bi for bi, t, fn in b.calls() if fn and fn["name"] in ADDR]
        for sb, bl in enumerate(b.blocks):
            tt = bl["term"]
            if bl["cleanup"] or not tt or tt["k"] != "switch" or tt["discr"]["k"] not in ("copy", "move") or tt["discr"]["p"]["local"] not in tainted:
                continue
            succs = set(b.succs(sb))
            if len(succs) < 2:
                continue
            reach = {x: set(b.reachable(x)) for x in succs}
            for ab in addr_blocks:
                hit = [x for x in succs if ab in reach[x]]
                if hit and len(hit) < len(succs):
                    nm = [fn["name"] for bi, t, fn in b.calls() if bi == ab and fn][0]
                    bad.append((nm + " (whether it runs)", tainted[tt["discr"]["p"]["local"]], tt.get("span") or b.d["span"]))
                    break
        fname = {cx.ROWS: "num_rows", cx.COLS: "num_cols"}
        RT.inst(b.ident, "no buffer-addressing call (drain / rotate / index / pointer arithmetic) takes a dimension read after the function overwrote it (%d such reads, all feeding set_len products or comparisons only)" % nread, not bad)
        seen_b = set()
        for nm, (fld, rsp), sp in bad:
            if (nm, fld) in seen_b:
                continue
            seen_b.add((nm, fld))
            RT.fail(b.ident, "stale:%s->%s" % (fname.get(fld, fld), nm), "%s computes the argument of %s from self.%s read after the function has already changed that field: the removed / inserted line's extent is then computed from the new dimension (e.g. an empty range when the last line is removed)" % (b.ident, nm, fname.get(fld, fld)), b.where(sp))
    RU.require_floor(n_fn, 6, "shape-writing functions")
    RH.require_floor(n_raw, 6, "raw-move call sites")
    RD.require_floor(n_drain, 1, "Vec::drain sites over the array buffer")
    return [RU, RL, RD, RH, RR, RS, RO, RT], {"writers": [b.ident for b in writers], "raw_sites": n_raw, "delegators": [b.ident for b in delegators], "adt_entry": {k: sorted(v) for k, v in adt_entry.items() if "toodee" in k or "iter::" in k}}
