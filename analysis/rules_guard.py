"""R-GUARD (dominator mode) and R-ARITH (DESIGN 3.4).

For every caller-supplied index with a role (element: must be < dim; endpoint: must be <= dim) there is a
guard - a switchInt on a comparison one of whose successors can only reach a panic - of the right
strictness against the dimension of the same unit (or against another parameter that is itself guarded),
and the surviving edge of that guard dominates every sensitive use of the index (arithmetic, unchecked
access, call argument).  R-ARITH: no `+` / `*` (plain or WithOverflow - the language overflow assertion
vanishes in release builds) on a role-carrying caller value before its guard.
"""
import re
from .core import Result, AnchorMissing
from .facts import norm_ty, is_caller_code
from .dfx import Dfx, strip, const_usize, walk, show

ROW, COL = "ROW", "COL"
GETTER = {"num_rows": ROW, "num_cols": COL}
DIMF = {"num_rows": ROW, "num_cols": COL}
PANIC = ("core::panicking::", "core::option::unwrap_failed", "core::option::expect_failed", "core::result::unwrap_failed", "core::slice::index::")

# role table: (fn name, filter) -> [(param path, unit, role)]
#   filter: None (any body with that name), "provided:<Trait>", "impl:<SelfHead>"
T = {
    ("insert_row", "impl:TooDee"): [(("index",), ROW, "endpoint")],
    ("insert_col", "impl:TooDee"): [(("index",), COL, "endpoint")],
    ("remove_row", "impl:TooDee"): [(("index",), ROW, "element")],
    ("remove_col", "impl:TooDee"): [(("index",), COL, "element")],
    ("swap_cols", None): [(("c1",), COL, "element"), (("c2",), COL, "element")],
    ("swap", "provided:TooDeeOpsMut"): [(("cell1", 0), COL, "element"), (("cell2", 0), COL, "element"), (("cell1", 1), ROW, "element"), (("cell2", 1), ROW, "element")],
    ("swap", "impl:TooDee"): [(("#1", 0), COL, "element"), (("#2", 0), COL, "element"), (("#1", 1), ROW, "element"), (("#2", 1), ROW, "element")],
    ("swap_rows", None): [(("r1",), ROW, "element"), (("r2",), ROW, "element")],
    ("row_pair_mut", None): [(("r1",), ROW, "element"), (("r2",), ROW, "element")],
    ("sort_by_row", None): [(("row",), ROW, "element")],
    ("sort_unstable_by_row", None): [(("row",), ROW, "element")],
    ("sort_by_col", None): [(("col",), COL, "element")],
    ("sort_unstable_by_col", None): [(("col",), COL, "element")],
    ("translate_with_wrap", None): [(("mid", 0), COL, "endpoint"), (("mid", 1), ROW, "endpoint")],
    ("copy_within", None): [(("src", 1, 0), COL, "endpoint"), (("src", 1, 1), ROW, "endpoint"), (("src", 0, 0), COL, "endpoint"), (("src", 0, 1), ROW, "endpoint"),
                            (("dest", 0), COL, "endpoint"), (("dest", 1), ROW, "endpoint")],
    ("view", None): [(("end", 0), COL, "endpoint"), (("end", 1), ROW, "endpoint"), (("start", 0), COL, "endpoint"), (("start", 1), ROW, "endpoint")],
    ("view_mut", None): [(("end", 0), COL, "endpoint"), (("end", 1), ROW, "endpoint"), (("start", 0), COL, "endpoint"), (("start", 1), ROW, "endpoint")],
    ("from_toodee", None): [(("end", 0), COL, "endpoint"), (("end", 1), ROW, "endpoint"), (("start", 0), COL, "endpoint"), (("start", 1), ROW, "endpoint")],
    ("col", "impl:TooDee"): [(("col",), COL, "element")],
    ("col_mut", "impl:TooDee"): [(("col",), COL, "element")],
    ("col", "impl:TooDeeView"): [(("col",), COL, "element")],
    ("col", "impl:TooDeeViewMut"): [(("col",), COL, "element")],
    ("col_mut", "impl:TooDeeViewMut"): [(("col",), COL, "element")],
    ("index", "index:usize"): [(("row",), ROW, "element")],
    ("index_mut", "index:usize"): [(("row",), ROW, "element")],
    ("index", "index:coord"): [(("coord", 0), COL, "element"), (("coord", 1), ROW, "element")],
    ("index_mut", "index:coord"): [(("coord", 0), COL, "element"), (("coord", 1), ROW, "element")],
}
REQUIRED = [("insert_row", "impl:TooDee"), ("insert_col", "impl:TooDee"), ("remove_row", "impl:TooDee"), ("remove_col", "impl:TooDee"),
            ("swap_cols", None), ("swap_rows", None), ("row_pair_mut", None), ("col", "impl:TooDee"), ("col_mut", "impl:TooDee"),
            ("index", "index:usize"), ("index", "index:coord"), ("index_mut", "index:usize"), ("index_mut", "index:coord")]
CHECKED_IDIOM_CALLS = ("nth", "nth_back", "index", "index_mut", "split_at", "split_at_mut", "copy_within", "cmp", "partial_cmp", "lt", "le", "gt", "ge", "eq", "ne",
                       "checked_mul", "checked_add", "checked_sub", "overflowing_mul", "overflowing_add", "saturating_mul", "saturating_add", "min", "max")
ARRAYS = ("TooDee", "TooDeeView", "TooDeeViewMut")


def matches(b, name, flt):
    if b.name != name or b.kind == "Closure":
        return False
    if flt is None:
        return True
    kind, what = flt.split(":", 1)
    if kind == "impl":
        return b.self_head == what
    if kind == "provided":
        return b.trait_provided is not None and b.trait_head == what
    if kind == "index":
        if b.self_head not in ARRAYS or not b.trait_head or not b.trait_head.startswith("Index"):
            return False
        is_coord = "(usize, usize)" in b.trait_head
        return is_coord == (what == "coord")
    return False


class G:
    def __init__(self, body, f):
        self.body, self.f = body, f
        self.d = Dfx(body)
        self.dom = body.dominators()
        self.names = {}
        for loc, nm in body.param_names().items():
            self.names[nm] = loc
        self._div = {}
        self._alias = {}
        self._sorted = None
        self._phi = None
        # parameters that are only ever re-assigned by exchanging them with one another (`(a, b) = (b, a)`): their current value
        # is still one of the two caller values, so they keep standing for "a parameter" in guards
        self.exchange_params = {}
        ds = self.d
        for l in range(1, body.arg_count + 1):
            wd = ds.whole_defs(l)
            if not wd or len(ds.defs.get(l, [])) != len(wd):
                continue
            partners = {l}
            okx = True
            for dd in wd:
                if dd[0] != "stmt":
                    okx = False; break
                e_ = strip(ds.rvalue(dd[3]["rv"]))
                if e_[0] in ("var", "param") and 1 <= e_[1] <= body.arg_count and e_[1] != l:
                    partners.add(e_[1])
                else:
                    okx = False; break
            if okx and len(partners) == 2:
                self.exchange_params[l] = partners
        # field index -> unit for array receivers
        self.dimf = {}
        for a in f.adts:
            nm = a["id"].split("::")[-1]
            if nm in ARRAYS:
                self.dimf[nm] = {i: DIMF[fl["name"]] for i, fl in enumerate(a["fields"]) if fl["name"] in DIMF}

    @property
    def redispatch_blocks(self):
        if not hasattr(self, "_redis"):
            self._redis = set()
        return self._redis

    def diverges(self, bb, seen=None):
        if bb in self._div:
            return self._div[bb]
        seen = seen if seen is not None else set()
        if bb in seen:
            return True
        seen.add(bb)
        t = self.body.blocks[bb]["term"]
        if t is None:
            return True
        r = None
        if t["k"] == "return":
            r = False
        elif t["k"] == "unreachable":
            r = True
        elif t["k"] == "call":
            fn = t["func"].get("fn") or {}
            if t["target"] is None or fn.get("path", "").startswith(PANIC):
                r = True
        if r is None:
            ss = self.body.succs(bb)
            r = all(self.diverges(x, seen) for x in ss) if ss else True
        self._div[bb] = r
        return r

    def diverges_flag(self, bb, env=None, seen=None):
        """like diverges(), but follows boolean flags: a block that stores a constant into a bool local and later reaches a
        switch on that local takes only the matching edge (`assert!(matches!(x, P if c))`, `let ok = ..; assert!(ok)`)"""
        env = dict(env or {})
        seen = seen if seen is not None else set()
        key = (bb, tuple(sorted(env.items())))
        if key in seen:
            return True
        seen.add(key)
        bl = self.body.blocks[bb]
        for st in bl["stmts"]:
            if st["k"] == "assign" and not st["p"]["proj"]:
                l = st["p"]["local"]
                rv = st["rv"]
                if rv["k"] == "use" and rv["o"]["k"] == "const" and rv["o"].get("ty") == "bool":
                    env[l] = rv["o"]["val"] in ("true", "const true")
                else:
                    env.pop(l, None)
        t = bl["term"]
        if t is None:
            return True
        if t["k"] == "return":
            return False
        if t["k"] == "unreachable":
            return True
        if t["k"] == "call":
            fn = t["func"].get("fn") or {}
            if t["target"] is None or fn.get("path", "").startswith(PANIC):
                return True
            env.pop(t["dest"]["local"], None)
        if t["k"] == "switch" and t["discr"]["k"] in ("copy", "move") and not t["discr"]["p"]["proj"] and t["discr"]["p"]["local"] in env:
            v = env[t["discr"]["p"]["local"]]
            tm = dict((int(a), b2) for a, b2 in t["targets"])
            nxt = (t["otherwise"] if 0 in tm else tm.get(1)) if v else tm.get(0, t["otherwise"])
            return True if nxt is None else self.diverges_flag(nxt, env, seen)
        ss = self.body.succs(bb)
        return all(self.diverges_flag(x, env, seen) for x in ss) if ss else True

    def _flag_target(self, bb):
        """follow `flag = const; goto ..; switch flag` from bb: the block entered on the matching edge, or None"""
        b = self.body
        env = {}
        x, hops = bb, 0
        while hops < 8:
            hops += 1
            bl = b.blocks[x]
            for st in bl["stmts"]:
                if st["k"] == "assign" and not st["p"]["proj"] and st["rv"]["k"] == "use" and st["rv"]["o"]["k"] == "const" and st["rv"]["o"].get("ty") == "bool":
                    env[st["p"]["local"]] = st["rv"]["o"]["val"] in ("true", "const true")
            t = bl["term"]
            if t and t["k"] == "goto":
                x = t["target"]
                continue
            if t and t["k"] == "switch" and t["discr"]["k"] in ("copy", "move") and not t["discr"]["p"]["proj"] and t["discr"]["p"]["local"] in env:
                L = t["discr"]["p"]["local"]
                v = env[L]
                # the flag takes this value only below bb
                for bi2, si2, st2 in b.stmts():
                    if st2["k"] == "assign" and not st2["p"]["proj"] and st2["p"]["local"] == L and st2["rv"]["k"] == "use" and st2["rv"]["o"]["k"] == "const":
                        if (st2["rv"]["o"]["val"] in ("true", "const true")) == v and not (bi2 == bb or bb in self.dom.get(bi2, set())):
                            return None
                    elif st2["k"] == "assign" and not st2["p"]["proj"] and st2["p"]["local"] == L and st2["rv"]["k"] != "use":
                        return None
                tm = dict((int(a), b2) for a, b2 in t["targets"])
                return (t["otherwise"] if 0 in tm else tm.get(1)) if v else tm.get(0, t["otherwise"])
            return None
        return None

    # ---- classification of expressions
    def param_path(self, e):
        """('param', local, fields) if e is a projection of a parameter"""
        e = strip(e)
        fields = []
        while e[0] == "field":
            fields.append(e[2])
            e = strip(e[1])
        if e[0] == "param":
            return (e[1], tuple(reversed(fields)))
        if e[0] == "var" and e[1] in self.exchange_params:
            return (e[1], tuple(reversed(fields)))
        if e[0] == "var" and fields and e[1] in self.phi_vars():
            # component of a local that holds a branch-dependent arrangement of parameters: a pseudo parameter
            return (("v", e[1]), tuple(reversed(fields)))
        return None

    def phi_vars(self):
        """locals with two or more whole definitions, each a tuple of parameter paths (`if c { (q, p) } else { (p, q) }`):
        local -> [ [param path of component 0, of component 1, ..] per definition ]"""
        if self._phi is not None:
            return self._phi
        self._phi = {}
        b = self.body
        for l in range(b.arg_count + 1, len(b.locals)):
            ds = self.d.whole_defs(l)
            if len(ds) < 2 or any(dd[0] != "stmt" for dd in ds) or len(self.d.defs.get(l, [])) != len(ds):
                continue
            arms = []
            for dd in ds:
                e = strip(self.d.rvalue(dd[3]["rv"]))
                if e[0] == "agg" and e[1] == "tuple" and e[2]:
                    leaves = []
                    for c in e[2]:
                        c = strip(c)
                        fields = []
                        while c[0] == "field":
                            fields.append(c[2]); c = strip(c[1])
                        leaves.append((c[1], tuple(reversed(fields))) if c[0] == "param" else None)
                    if all(x is not None for x in leaves):
                        arms.append(leaves)
            if len(arms) == len(ds):
                self._phi[l] = arms
        return self._phi

    def phi_components(self, pp):
        """[(local, [component path per definition])] for phi locals every definition of which holds parameter component pp"""
        out = []
        for l, arms in self.phi_vars().items():
            comps = []
            for leaves in arms:
                c = None
                for i, pa in enumerate(leaves):
                    if pa[0] == pp[0] and pp[1][:len(pa[1])] == pa[1]:
                        c = (i,) + pp[1][len(pa[1]):]
                comps.append(c)
            if all(c is not None for c in comps):
                out.append((l, comps))
        return out

    def dim_unit(self, e):
        """unit if e reads a dimension of an array object (field or getter or size() component)"""
        e = strip(e)
        if e[0] == "call" and e[2] in GETTER and len(e[3]) == 1:
            return GETTER[e[2]]
        if e[0] == "field":
            base = strip(e[1])
            if base[0] == "call" and base[2] == "size":
                return COL if e[2] == 0 else ROW
            if base[0] == "deref":
                base = strip(base[1])
            ty = None
            if base[0] in ("param", "var"):
                ty = self.body.locals[base[1]]
            if ty:
                from .facts import head
                h = head(ty).replace("&mut ", "").replace("&", "")
                if h in self.dimf and e[2] in self.dimf[h]:
                    return self.dimf[h][e[2]]
        return None

    def var_alias(self, l, at_block):
        """param path a multi-definition local stands for at block `at_block`: one of its definitions copies the
        parameter component and dominates the block, and no other definition can reach the block"""
        key = (l, at_block)
        if key in self._alias:
            return self._alias[key]
        self._alias[key] = None
        ds = self.d.whole_defs(l)
        cands = []
        for dd in ds:
            if dd[0] != "stmt":
                continue
            e = strip(self.d.rvalue(dd[3]["rv"]))
            pp = self.param_path(e) if e[0] in ("field", "param") else None
            if pp is not None and (dd[1] in self.dom.get(at_block, set())):
                cands.append((dd, pp))
        if len(cands) == 1:
            dd, pp = cands[0]
            ok = True
            for other in ds:
                if other is dd:
                    continue
                ob = other[1]
                if at_block in self.body.reachable(ob) and not (ob == at_block):
                    ok = False
                if ob == at_block:
                    ok = False
            # partial definitions (field stores) disqualify
            if len(self.d.defs.get(l, [])) != len(ds):
                ok = False
            if ok:
                self._alias[key] = pp
        return self._alias[key]

    def sorted_pair_vars(self):
        """locals holding (min, max) of two parameter components: assigned `(q, p)` on the arm where `q < p` and
        `(p, q)` on the other arm of one comparison of p and q.  var -> (param path of .0 on the arm a<b ... ) resolved
        to {"min": set of params, "max": set of params} (both components range over {p, q})"""
        if self._sorted is not None:
            return self._sorted
        self._sorted = {}
        b = self.body
        for l in range(len(b.locals)):
            ds = self.d.whole_defs(l)
            if len(ds) != 2 or any(dd[0] != "stmt" for dd in ds) or len(self.d.defs.get(l, [])) != 2:
                continue
            tups = []
            for dd in ds:
                e = strip(self.d.rvalue(dd[3]["rv"]))
                if e[0] == "agg" and e[1] == "tuple" and len(e[2]) == 2:
                    pa, pb = self.param_path(strip(e[2][0])), self.param_path(strip(e[2][1]))
                    if pa is not None and pb is not None:
                        tups.append((dd[1], pa, pb))
            if len(tups) != 2 or tups[0][1] != tups[1][2] or tups[0][2] != tups[1][1]:
                continue
            # the deciding comparison
            for bi, bl in enumerate(b.blocks):
                t = bl["term"]
                if not t or t["k"] != "switch":
                    continue
                e = strip(self.d.expr(t["discr"]))
                if e[0] == "discr" and strip(e[1])[0] == "call" and strip(e[1])[2] == "cmp" and len(strip(e[1])[3]) == 2:
                    # match X.cmp(&Y) { Less => (X, Y), Greater => (Y, X), Equal => .. }
                    cx_ = strip(e[1])
                    def peel_(z):
                        z = strip(z)
                        while z[0] in ("ref", "refmut", "deref"):
                            z = strip(z[1])
                        return z
                    X, Y = self.param_path(peel_(cx_[3][0])), self.param_path(peel_(cx_[3][1]))
                    if X is None or Y is None or {X, Y} != {tups[0][1], tups[0][2]}:
                        continue
                    tmc = {}
                    for a, b2 in t["targets"]:
                        v_ = int(a)
                        tmc[-1 if v_ in (255, -1, 18446744073709551615) else v_] = b2
                    less_b, greater_b = tmc.get(-1), tmc.get(1, t["otherwise"])
                    okc = less_b is not None and greater_b is not None
                    for (db_, p0, p1) in tups:
                        on_l = db_ == less_b or less_b in self.dom.get(db_, set())
                        on_g = db_ == greater_b or greater_b in self.dom.get(db_, set())
                        if on_l and not on_g:
                            okc = okc and (p0, p1) == (X, Y)
                        elif on_g and not on_l:
                            okc = okc and (p0, p1) == (Y, X)
                        else:
                            okc = False
                    if okc:
                        self._sorted[l] = {"params": {X, Y}}
                    continue
                if e[0] != "bin" or e[1] not in ("Lt", "Gt", "Le", "Ge"):
                    continue
                X, Y = self.param_path(e[2]), self.param_path(e[3])
                if {X, Y} != {tups[0][1], tups[0][2]}:
                    continue
                tm = dict((int(a), b2) for a, b2 in t["targets"])
                true_succ = t["otherwise"] if 0 in tm else tm.get(1)
                false_succ = tm.get(0, t["otherwise"])
                small, big = (X, Y) if e[1] in ("Lt", "Le") else (Y, X)     # on the true arm small <(=) big
                ok = True
                for (db_, p0, p1) in tups:
                    on_true = true_succ is not None and (db_ == true_succ or true_succ in self.dom.get(db_, set()))
                    on_false = db_ == false_succ or false_succ in self.dom.get(db_, set())
                    if on_true and not on_false:
                        ok = ok and (p0, p1) == (small, big)
                    elif on_false and not on_true:
                        ok = ok and (p0, p1) == (big, small)
                    else:
                        ok = False
                if ok:
                    self._sorted[l] = {"params": {X, Y}}
        return self._sorted

    def equal_regions(self, pp):
        """[(block, other parameter)]: from that block on, pp == other (the true edge of `pp == other`, the Equal arm of
        `pp.cmp(&other)`)"""
        out = []
        b = self.body
        for bi, bl in enumerate(b.blocks):
            t = bl["term"]
            if bl["cleanup"] or not t or t["k"] != "switch":
                continue
            e = strip(self.d.expr(t["discr"]))
            tm = dict((int(a), b2) for a, b2 in t["targets"])
            if e[0] == "bin" and e[1] in ("Eq", "Ne"):
                X, Y = self.param_path(e[2]), self.param_path(e[3])
                eqs = (t["otherwise"] if 0 in tm else tm.get(1)) if e[1] == "Eq" else tm.get(0, t["otherwise"])
            elif e[0] == "discr" and strip(e[1])[0] == "call" and strip(e[1])[2] == "cmp" and len(strip(e[1])[3]) == 2:
                def peel_(z):
                    z = strip(z)
                    while z[0] in ("ref", "refmut", "deref"):
                        z = strip(z[1])
                    return z
                X, Y = self.param_path(peel_(strip(e[1])[3][0])), self.param_path(peel_(strip(e[1])[3][1]))
                eqs = tm.get(0)
            else:
                continue
            if X is None or Y is None or eqs is None or pp not in (X, Y):
                continue
            out.append((eqs, Y if X == pp else X))
        return out

    def mentions_param(self, e, pp, at_block=None):
        sp = self.sorted_pair_vars()
        for x in walk(e):
            # the max component of a sorted pair bounds both of its parameters
            if sp and x[0] == "field" and x[2] == 1 and strip(x[1])[0] == "var" and strip(x[1])[1] in sp and pp in sp[strip(x[1])[1]]["params"]:
                return True
            if x[0] in ("field", "param") and self.param_path(x) == pp:
                return True
            if x[0] == "var" and at_block is not None and self.var_alias(x[1], at_block) == pp:
                return True
            if x[0] == "field" and at_block is not None:
                # component of a tuple-typed alias: (var).i
                base, fields = x, []
                while base[0] == "field":
                    fields.append(base[2]); base = strip(base[1])
                if base[0] == "var":
                    al = self.var_alias(base[1], at_block)
                    if al is not None and (al[0], al[1] + tuple(reversed(fields))) == pp:
                        return True
        return False

    def dims_in(self, e):
        out = set()
        for x in walk(e):
            u = self.dim_unit(x)
            if u:
                out.add(u)
        return out

    def any_param(self, e):
        return any(x[0] == "param" for x in walk(e))

    def _inline_predicate(self, e):
        """call of a crate fn `fn p(a, b) -> bool { a <= b }` (one comparison of parameters / constants, no other effect) ->
        the comparison over the call's arguments"""
        if len(e) < 5 or not isinstance(e[4], dict):
            return None
        hb = self.f.crate_fn_for_call(e[4])
        if hb is None or hb.kind == "Closure" or not hb.blocks or hb.has_loop() or str(hb.locals[0]) != "bool" or any(True for _ in hb.calls()):
            return None
        hd = Dfx(hb)
        rets = [strip(hd.rvalue(st["rv"])) for _, _, st in hb.stmts() if st["k"] == "assign" and st["p"]["local"] == 0 and not st["p"]["proj"]]
        if len(rets) != 1:
            return None
        r = rets[0]
        neg = False
        while r[0] == "un" and r[1] == "Not":
            neg = not neg; r = strip(r[2])
        if r[0] != "bin" or r[1] not in ("Lt", "Le", "Gt", "Ge", "Eq", "Ne"):
            return None

        def sub(x):
            x = strip(x)
            if x[0] == "param" and 1 <= x[1] <= len(e[3]):
                return e[3][x[1] - 1]
            if x[0] == "const":
                return x
            return None
        l, rr = sub(r[2]), sub(r[3])
        if l is None or rr is None:
            return None
        out = ("bin", r[1], l, rr)
        return ("un", "Not", out) if neg else out

    def guards(self):
        """(block, op, lhs expr, rhs expr, ok successor) for comparisons one of whose edges can only panic;
        op is normalised to the fact that holds on the surviving edge"""
        out = []
        b = self.body
        # `x.checked_sub(y).unwrap()` / `.expect(..)`: the call returns only when y <= x
        for bi, t, fn in b.calls():
            if fn and fn["name"] in ("unwrap", "expect") and t["args"] and t.get("target") is not None and (fn.get("path") or "").startswith("core::option::"):
                e0 = strip(self.d.expr(t["args"][0]))
                if e0[0] == "call" and e0[2] == "checked_sub" and len(e0[3]) == 2:
                    out.append((bi, "Le", e0[3][1], e0[3][0], t["target"]))
        for bi, bl in enumerate(b.blocks):
            if bl["cleanup"]:
                continue
            t = bl["term"]
            if not t or t["k"] != "switch":
                continue
            e = strip(self.d.expr(t["discr"]))
            if e[0] == "discr" and strip(e[1])[0] == "call" and strip(e[1])[2] == "checked_sub" and len(strip(e[1])[3]) == 2:
                # `x.checked_sub(y)` whose None arm can only panic: y <= x on the Some arm
                tm0 = dict((int(a), b2) for a, b2 in t["targets"])
                none_succ, some_succ = tm0.get(0), tm0.get(1, t["otherwise"])
                if none_succ is not None and some_succ is not None and self.diverges(none_succ) and not self.diverges(some_succ):
                    cs_ = strip(e[1])
                    out.append((bi, "Le", cs_[3][1], cs_[3][0], some_succ))
                continue
            neg = False
            while e[0] == "un" and e[1] == "Not":
                neg = not neg
                e = strip(e[2])
            if e[0] == "call":
                # `assert!(is_within(end_col, parent_cols))`: a crate predicate whose body is one comparison of its parameters
                e = self._inline_predicate(e) or e
                while e[0] == "un" and e[1] == "Not":
                    neg = not neg
                    e = strip(e[2])
            if e[0] != "bin" or e[1] not in ("Lt", "Le", "Gt", "Ge", "Eq", "Ne"):
                continue
            tm = dict((int(a), b2) for a, b2 in t["targets"])
            false_succ = tm.get(0, t["otherwise"])
            true_succ = t["otherwise"] if 0 in tm else tm.get(1)
            if true_succ is None:
                continue
            tdiv, fdiv = self.diverges(true_succ), self.diverges(false_succ)
            if tdiv == fdiv:
                tdiv, fdiv = self.diverges_flag(true_succ), self.diverges_flag(false_succ)
                if tdiv != fdiv:
                    # the surviving edge records the outcome in a bool flag that a later switch tests: the fact holds from that
                    # switch's matching edge on, provided the flag gets this value only where the comparison survived
                    surv = false_succ if tdiv else true_succ
                    eff = self._flag_target(surv)
                    if eff is None:
                        continue
                    if tdiv:
                        false_succ = eff
                    else:
                        true_succ = eff
            if tdiv == fdiv:
                continue
            op = e[1]
            holds_true = not tdiv          # comparison is true on the surviving edge
            if neg:
                holds_true = not holds_true
            if not holds_true:
                op = {"Lt": "Ge", "Le": "Gt", "Gt": "Le", "Ge": "Lt", "Eq": "Ne", "Ne": "Eq"}[op]
            out.append((bi, op, e[2], e[3], false_succ if tdiv else true_succ))
            # `x.checked_add(k)` as Some(s) with s <= dim (resp. <): then x <= dim and k <= dim as well (the sum did not wrap)
            for side, other in ((e[2], e[3]), (e[3], e[2])):
                sd = strip(side)
                if sd[0] == "field" and sd[2] == 0 and strip(sd[1])[0] == "downcast" and strip(sd[1])[2] == "Some":
                    cc = strip(strip(sd[1])[1])
                    if cc[0] == "call" and cc[2] == "checked_add" and len(cc[3]) == 2:
                        for part in cc[3]:
                            if side is e[2] and op in ("Le", "Lt"):
                                out.append((bi, op, part, other, false_succ if tdiv else true_succ))
                            elif side is e[3] and op in ("Ge", "Gt"):
                                out.append((bi, op, other, part, false_succ if tdiv else true_succ))
        return out

    def ordered_pairs(self):
        """[(small, big)] parameter components ordered by `if X < Y { mem::swap(&mut X, &mut Y) }`"""
        out = []
        b = self.body
        for bi, bl in enumerate(b.blocks):
            t = bl["term"]
            if bl["cleanup"] or not t or t["k"] != "switch":
                continue
            e = strip(self.d.expr(t["discr"]))
            if e[0] != "bin" or e[1] not in ("Lt", "Gt"):
                continue
            X, Y = (e[2], e[3]) if e[1] == "Lt" else (e[3], e[2])       # X < Y on the true edge
            px, py = self.param_path(X), self.param_path(Y)
            if px is None or py is None:
                continue
            tm = dict((int(a), b2) for a, b2 in t["targets"])
            true_succ = t["otherwise"] if 0 in tm else tm.get(1)
            if true_succ is None:
                continue
            tt = b.blocks[true_succ]["term"]
            # exchange by tuple assignment on the true edge: `(P, Q) = (Q, P)`
            if px[0] in self.exchange_params and py[0] in self.exchange_params and self.exchange_params[px[0]] == {px[0], py[0]}:
                stores = {st["p"]["local"] for st in b.blocks[true_succ]["stmts"] if st["k"] == "assign" and not st["p"]["proj"]}
                if {px[0], py[0]} <= stores:
                    out.append((py, px))
                    continue
            # ordering by re-dispatch: `if X < Y { return self.f(.., Y, X) }` - the same function with the two exchanged; below
            # it Y <= X holds, and the re-dispatched call is judged by the very guards of this body
            hops = 0
            cur = true_succ
            tt2 = tt
            while tt2 and hops < 4:
                if tt2["k"] == "call":
                    fnr = tt2["func"].get("fn") or {}
                    if (fnr.get("resolved") or fnr.get("path")) == b.id or fnr.get("path") == b.id:
                        aps = [self.param_path(strip(self.d.expr(a))) for a in tt2["args"]]
                        ok_x = isinstance(px[0], int) and isinstance(py[0], int) and px[0] != py[0] and px[0] - 1 < len(aps) and py[0] - 1 < len(aps) and aps[px[0] - 1] == py and aps[py[0] - 1] == px
                        if ok_x:
                            out.append((py, px))
                            self.redispatch_blocks.add(cur)
                    break
                if tt2["k"] == "goto":
                    cur = tt2["target"]; tt2 = b.blocks[cur]["term"]; hops += 1
                else:
                    break
            # the swap may be a few straight-line blocks away
            hops = 0
            cur = true_succ
            while tt and hops < 4:
                if tt["k"] == "call" and (tt["func"].get("fn") or {}).get("path") == "core::mem::swap":
                    args = [strip(self.d.expr(a)) for a in tt["args"]]
                    roots = set()
                    for a in args:
                        if a[0] in ("ref", "refmut"):
                            pa = self.param_path(a[1])
                            if pa:
                                roots.add(pa)
                    # swapping the whole tuples cell1/cell2 swaps their components too
                    def covers(p, roots):
                        return any(r[0] == p[0] and p[1][:len(r[1])] == r[1] for r in roots)
                    if covers(px, roots) and covers(py, roots) and len(roots) == 2:
                        out.append((py, px))      # after: Y <= X
                    break
                if tt["k"] == "goto":
                    cur = tt["target"]; tt = b.blocks[cur]["term"]; hops += 1
                else:
                    break
        return out

    def sensitive_uses(self, pp):
        """blocks (and spans) where the parameter component is used in arithmetic or passed to a call"""
        out = []
        b = self.body
        for bi, si, st in b.stmts():
            if b.blocks[bi]["cleanup"] or st["k"] != "assign":
                continue
            rv = st["rv"]
            if rv["k"] == "binop" and re.match(r"^(Mul|Add|Sub|Shl|Offset)", rv["op"]):
                for o in (rv["l"], rv["r"]):
                    if o["k"] in ("copy", "move") and self.mentions_param(self.d.expr(o), pp, bi):
                        out.append((bi, st["span"], "arith:" + rv["op"].replace("WithOverflow", ""), rv))
                        break
        for bi, t, fn in b.calls():
            nm = fn["name"] if fn else "<indirect>"
            for a in t["args"]:
                if a["k"] in ("copy", "move") and self.mentions_param(self.d.expr(a), pp, bi):
                    if nm in CHECKED_IDIOM_CALLS or (fn and fn["path"] == "core::mem::swap"):
                        continue
                    if fn and t.get("dest") and self._inline_predicate(("call", fn.get("path"), nm, [self.d.expr(a_) for a_ in t["args"]], fn)) is not None:
                        continue      # a pure comparison predicate: the guard itself, not a use
                    out.append((bi, t["span"], "call:" + nm, None))
                    break
        return out


def _pname(pnames, pp):
    base = pnames.get(pp[0], "_%d" % pp[0]) if isinstance(pp[0], int) else "_%d" % pp[0][1]
    return base + "".join(".%d" % i for i in pp[1])


def check_body(R, b, f, entries, RA, depth=0):
    g = G(b, f)
    gs = g.guards()
    pnames = b.param_names()
    for (ppath, unit, role) in entries:
        if ppath[0].startswith("#"):
            l = int(ppath[0][1:]) + (1 if depth == 0 else 1)
        else:
            l = g.names.get(ppath[0])
        if l is None:
            R.inconc(b.ident, "parameter %s not found by name (renamed?)" % ppath[0])
            continue
        pp = (l, tuple(ppath[1:]))
        pdesc = ".".join(map(str, ppath))
        r1, ra1 = Result(R.rule), Result(RA.rule)
        _check_pp(r1, ra1, g, gs, b, f, pp, pdesc, unit, role, depth, pnames)
        if r1.findings and not g.sensitive_uses(pp):
            # the parameter is only used through a branch-dependent arrangement `(q, p)` / `(p, q)`: it is bounded when
            # every component that can hold it is bounded
            for (vl, comps) in g.phi_components(pp):
                subs = []
                for comp in sorted(set(comps)):
                    r2, ra2 = Result(R.rule), Result(RA.rule)
                    _check_pp(r2, ra2, g, gs, b, f, (("v", vl), comp), pdesc, unit, role, depth, pnames)
                    subs.append((comp, r2, ra2))
                if subs and all(r2.instances and all(i["ok"] for i in r2.instances) and not r2.findings and not ra2.findings for _, r2, ra2 in subs):
                    r1, ra1 = Result(R.rule), Result(RA.rule)
                    for comp, r2, ra2 in subs:
                        for i in r2.instances:
                            r1.inst(b.ident, "%s [held by _%d%s of the ordered arrangement]" % (i["what"], vl, "".join(".%d" % c for c in comp)), True)
                    break
        for src, dst in ((r1, R), (ra1, RA)):
            for i in src.instances:
                dst.inst(i["fn"], i["what"], i["ok"])
            for fd in src.findings:
                if not any(x.key == fd.key for x in dst.findings):
                    dst.findings.append(fd)
            dst.inconclusive += src.inconclusive


def _check_pp(R, RA, g, gs, b, f, pp, pdesc, unit, role, depth, pnames):
    if True:
        overstrict, nonstrict_seen, wrongdir = [], [], []
        found, wrong = None, []
        founds = []          # every acceptable guard: different arms of a `match` may each carry their own
        for (bi, op, lo, ro, ok) in gs:
            pl, pr = g.mentions_param(lo, pp, bi), g.mentions_param(ro, pp, bi)
            if not (pl or pr) or op in ("Eq", "Ne"):
                continue
            other = ro if pl else lo
            mine = lo if pl else ro
            opn = op if pl else {"Lt": "Gt", "Le": "Ge", "Gt": "Lt", "Ge": "Le"}[op]
            if opn not in ("Lt", "Le"):
                # the comparison survives only for values ABOVE the dimension: the function then proceeds exactly for the
                # out-of-range indices and rejects every valid one
                if opn in ("Gt", "Ge") and strip(mine)[0] != "bin" and strip(other)[0] != "bin" and unit in g.dims_in(other) and depth == 0:
                    wrongdir.append(show(("bin", op, lo, ro), pnames))
                continue
            dims = g.dims_in(other)
            direct_param_bound = g.any_param(other)
            if not dims and not direct_param_bound:
                continue
            if dims and unit not in dims:
                wrong.append("compared with a %s dimension: %s" % ("/".join(sorted(dims)), show(("bin", op, lo, ro), pnames)))
                continue
            so = strip(other)
            if so[0] == "bin" and re.match(r"^(Add|Mul)", so[1]) and dims:
                # `i <= dim + k` / `i <= dim * k` bounds nothing by the dimension
                wrong.append("compared with more than the dimension: %s" % show(("bin", op, lo, ro), pnames))
                continue
            # `i <= dim - k` with k >= 1 is as good as strict
            strict_ok = opn == "Lt" or role == "endpoint" or (so[0] == "bin" and so[1].startswith("Sub"))
            # the parameter side may be `p + extent`: still an upper bound for p
            if not strict_ok:
                wrong.append("guard is `<=` but the index addresses an element (needs `<`): %s" % show(("bin", op, lo, ro), pnames))
                continue
            fnd_ = (bi, opn, "its dimension" if dims else "another guarded parameter", ok, show(("bin", op, lo, ro), pnames))
            founds.append(fnd_)
            if found is None:
                found = fnd_
            # an endpoint may equal its bound (an insertion after the last line, an empty window / rectangle, a shift by the
            # whole extent): a strict comparison of the bare value with the bare bound rejects that valid call
            if role == "endpoint" and opn == "Lt" and strip(mine)[0] != "bin" and so[0] != "bin":
                overstrict.append(show(("bin", op, lo, ro), pnames))
            elif role == "endpoint" and opn == "Le" and strip(mine)[0] != "bin" and so[0] != "bin":
                nonstrict_seen.append(1)
        if wrongdir and depth == 0:
            R.inst(b.ident, "%s (%s): no guard keeps only the values above the dimension" % (pdesc, unit), False)
            R.fail(b.ident, "%s:reversed-guard" % pdesc, "%s: the guard `%s` lets %s through only when it is at or beyond its dimension: every valid call is rejected (or every rejected one accepted)" % (b.ident, wrongdir[0], pdesc), b.where())
        if overstrict and depth == 0:
            R.inst(b.ident, "%s (%s endpoint): the bound itself is accepted (no strict comparison of the bare value with its bound)" % (pdesc, unit), False)
            R.fail(b.ident, "%s:over-strict" % pdesc, "%s: %s is an endpoint - it may equal its bound (an insertion after the last line, an empty window or rectangle, a shift by the whole extent) - but it is compared strictly (`%s`): a valid call is rejected with a panic" % (b.ident, pdesc, overstrict[0]), b.where())
        via = None
        if not found and not wrong:
            # (a) ordered partner: `if X < Y { swap(&mut X, &mut Y) }` leaves Y <= X; a strict guard on X then bounds Y
            for (small, big) in g.ordered_pairs():
                if small == pp:
                    for (bi, op, lo, ro, ok) in gs:
                        pl = g.mentions_param(lo, big, bi)
                        pr = g.mentions_param(ro, big, bi)
                        if not (pl or pr) or op in ("Eq", "Ne"):
                            continue
                        other = ro if pl else lo
                        opn = op if pl else {"Lt": "Gt", "Le": "Ge", "Gt": "Lt", "Ge": "Le"}[op]
                        dims = g.dims_in(other)
                        if opn in ("Lt", "Le") and unit in dims and (opn == "Lt" or role == "endpoint"):
                            via = "ordered below %s by the swap idiom, which is guarded by `%s`" % (_pname(pnames, big), show(("bin", op, lo, ro), pnames))
                            found = (bi, opn, "its ordered partner", ok, show(("bin", op, lo, ro), pnames))
            # (b) the guard lives in a crate-local callee that receives the index unchanged
            if not found:
                for bi, t, fn in b.calls():
                    cb = f.crate_fn_for_call(fn) if fn else None
                    if cb is None and fn and (fn.get("krate") == f.raw["crate"]):
                        cands = [x for x in f.fn_bodies if x.name == fn["name"] and x.trait_provided]
                        cb = cands[0] if len(cands) == 1 else None
                    if cb is None or cb.id == b.id:
                        continue
                    for ai, a in enumerate(t["args"]):
                        ea_ = strip(g.d.expr(a)) if a["k"] in ("copy", "move") else None
                        whole_ = ea_ is not None and isinstance(pp[0], int) and pp[1] and ea_ == ("param", pp[0])     # the whole tuple is handed over
                        if ea_ is not None and (ea_ == _pexpr(pp) or whole_):
                            sub = Result("R-GUARD")
                            subA = Result("R-ARITH")
                            check_body(sub, cb, f, [(("#%d" % ai,) + (tuple(pp[1]) if whole_ else ()), unit, role)], subA, depth + 1) if depth < 3 else None
                            if sub.instances and all(i["ok"] for i in sub.instances) and not sub.findings:
                                via = "guard in callee %s: %s" % (cb.ident, sub.instances[0]["what"])
                                found = (bi, "Lt", "callee " + cb.ident, t["target"], "in " + cb.ident)
                                for fd in subA.findings:
                                    RA.findings.append(fd)
        idiom = False
        if not found:
            for bi, t, fn in b.calls():
                if fn and fn["name"] in ("nth", "nth_back") and len(t["args"]) == 2 and g.mentions_param(g.d.expr(t["args"][1]), pp):
                    # result must be unwrapped / expected
                    idiom = True
                if fn and fn["path"] in ("core::ops::Index::index", "core::ops::IndexMut::index_mut") and len(t["args"]) == 2 and strip(g.d.expr(t["args"][1])) == _pexpr(pp):
                    idiom = True
        if found:
            # domination of sensitive uses
            undominated = []
            g.ordered_pairs()
            for (ubi, span, what, rv) in g.sensitive_uses(pp):
                if ubi in g.redispatch_blocks:
                    continue          # handing the exchanged pair to the same function: judged by this body's own guards
                oks_ = [x[3] for x in (founds or [found])]
                if found[3] not in g.dom.get(ubi, set()) and ubi != found[0] and not (len(oks_) > 1 and _all_paths_pass(b, oks_, ubi)):
                    undominated.append((what, span))
                elif ubi == found[0] and what.startswith("arith:"):
                    # use in the guard block itself: part of the guard expression (e.g. `dest.0 + cols <= num_cols`)
                    undominated.append((what + "(in guard)", span))
            R.inst(b.ident, "%s (%s %s): guard `%s` against %s dominates all %d sensitive uses" % (pdesc, unit, role, found[4], found[2], len(g.sensitive_uses(pp))), not undominated)
            # "any out-of-range index panics": no normal return may bypass the guard (also inside the callee that carries it)
            if depth >= 0:
                byp = []
                for rbi, rbl in enumerate(b.blocks):
                    tt = rbl["term"]
                    if tt and tt["k"] == "return" and not rbl["cleanup"] and rbi in g.body.reachable(0):
                        if any(rd == rbi or rd in g.dom.get(rbi, set()) for rd in g.redispatch_blocks):
                            continue      # the return of the re-dispatched call
                        oks_ = [x[3] for x in (founds or [found])] + sorted(g.redispatch_blocks)      # a path through the re-dispatched call is checked by the callee = this body
                        # where the parameter is known to equal another one (`a == b`, `a.cmp(&b) == Equal`), that one's guards count
                        for (eqb, other) in g.equal_regions(pp):
                            if True:
                                for (gbi, gop, glo, gro, gok) in gs:
                                    if not (gok == eqb or eqb in g.dom.get(gok, set())):
                                        continue          # only guards taken inside the region where the two are equal
                                    pl_, pr_ = g.mentions_param(glo, other, gbi), g.mentions_param(gro, other, gbi)
                                    if not (pl_ or pr_) or gop in ("Eq", "Ne"):
                                        continue
                                    oth_ = gro if pl_ else glo
                                    opn_ = gop if pl_ else {"Lt": "Gt", "Le": "Ge", "Gt": "Lt", "Ge": "Le"}[gop]
                                    if opn_ in ("Lt", "Le") and unit in g.dims_in(oth_) and (opn_ == "Lt" or role == "endpoint"):
                                        oks_.append(gok)
                        if found[3] not in g.dom.get(rbi, set()) and not (len(oks_) > 1 and _all_paths_pass(b, oks_, rbi)):
                            byp.append(rbi)
                R.inst(b.ident, "%s: every normal return is dominated by the guard (an out-of-range value cannot return normally)" % pdesc, not byp)
                if byp:
                    R.fail(b.ident, "%s:return-bypasses-guard" % pdesc, "%s can return normally without having checked %s against %s (an early return precedes the bounds check): an out-of-range index is accepted silently instead of panicking" % (b.ident, pdesc, found[2]), b.where())
            for what, span in undominated:
                if what.startswith("arith:") and ("Add" in what or "Mul" in what or "Shl" in what):
                    RA.inst(b.ident, "%s: no `+`/`*` before the guard" % pdesc, False)
                    RA.fail(b.ident, "%s:%s" % (pdesc, what), "%s computes `%s` on the caller-supplied %s before (or inside) its bounds guard; with overflow checks off this wraps and the guard passes for an out-of-range value" % (b.ident, what[6:], pdesc), b.where(span))
                elif what.startswith("call:"):
                    R.fail(b.ident, "%s:undominated:%s" % (pdesc, what), "%s passes %s to %s on a path that does not go through its bounds guard" % (b.ident, pdesc, what[5:]), b.where(span))
        elif idiom and not wrong:
            R.inst(b.ident, "%s (%s %s): checked idiom nth(..).unwrap() / slice index" % (pdesc, unit, role), True)
            if depth == 0:
                # the checking call must lie on every path to a normal return
                chk_blocks = [bi for bi, t, fn in b.calls() if fn and ((fn["name"] in ("nth", "nth_back") and len(t["args"]) == 2 and g.mentions_param(g.d.expr(t["args"][1]), pp, bi)) or (fn["path"] in ("core::ops::Index::index", "core::ops::IndexMut::index_mut") and len(t["args"]) == 2 and strip(g.d.expr(t["args"][1])) == _pexpr(pp)))]
                byp = []
                for rbi, rbl in enumerate(b.blocks):
                    tt = rbl["term"]
                    if tt and tt["k"] == "return" and not rbl["cleanup"] and rbi in g.body.reachable(0):
                        if not any(cb in g.dom.get(rbi, set()) for cb in chk_blocks):
                            # two checking calls on the two arms of a branch: accept if every path passes one of them
                            if not _all_paths_pass(b, chk_blocks, rbi):
                                # equal to another component that did go through a checking call on this path?
                                okeq = False
                                for gb in range(len(b.blocks)):
                                    tt2 = b.blocks[gb]["term"]
                                    if not tt2 or tt2["k"] != "switch":
                                        continue
                                    e2 = strip(g.d.expr(tt2["discr"]))
                                    tm2 = dict((int(a), b2) for a, b2 in tt2["targets"])
                                    # `a == b` / `a != b`, or `match a - b { 0 => .. }`
                                    diff0 = e2[0] == "bin" and e2[1].startswith("Sub") and 0 in tm2
                                    if e2[0] != "bin" or not (e2[1] in ("Eq", "Ne") or diff0):
                                        continue
                                    pa, pb = g.param_path(e2[2]), g.param_path(e2[3])
                                    if pp not in (pa, pb) or pa is None or pb is None:
                                        continue
                                    other = pb if pa == pp else pa
                                    if diff0:
                                        eq_succ = tm2[0]
                                    else:
                                        eq_succ = (tt2["otherwise"] if 0 in tm2 else tm2.get(1)) if e2[1] == "Eq" else tm2.get(0, tt2["otherwise"])
                                    if eq_succ is None:
                                        continue
                                    ochk = [bi for bi, t, fn in b.calls() if fn and fn["name"] in ("nth", "nth_back") and len(t["args"]) == 2 and g.mentions_param(g.d.expr(t["args"][1]), other, bi)]
                                    # every path either passes pp's own check or goes through the equal branch, and `other` is checked on all paths
                                    if ochk and _all_paths_pass(b, ochk, rbi) and _all_paths_pass(b, chk_blocks + [eq_succ], rbi):
                                        okeq = True
                                if not okeq:
                                    byp.append(rbi)
                R.inst(b.ident, "%s: every normal return passes the checking call" % pdesc, not byp)
                if byp:
                    R.fail(b.ident, "%s:return-bypasses-guard" % pdesc, "%s can return normally without %s having gone through the checked nth(..).unwrap() / index (an early return precedes it): an out-of-range index is accepted silently instead of panicking" % (b.ident, pdesc), b.where())
        else:
            R.inst(b.ident, "%s (%s %s): dominating upper-bound guard" % (pdesc, unit, role), False)
            why = "; ".join(wrong) or "no guard `%s %s <%s dim>` whose failing edge panics" % (pdesc, "<" if role == "element" else "<=", unit)
            R.fail(b.ident, "%s:%s" % (pdesc, "wrong-guard" if wrong else "no-guard"), "%s: caller index %s (%s, %s) is not properly bounded before use: %s" % (b.ident, pdesc, unit, role, why), b.where())


def _all_paths_pass(b, chk_blocks, target):
    """no path from entry to `target` avoids all of chk_blocks"""
    seen, work = set(), [0]
    avoid = set(chk_blocks)
    while work:
        x = work.pop()
        if x in seen or x in avoid:
            continue
        seen.add(x)
        if x == target:
            return False
        work.extend(b.succs(x))
    return True


def _all_paths_pass_from(b, start, chk_blocks, target):
    """no path from `start` to `target` avoids all of chk_blocks"""
    seen, work = set(), [start]
    avoid = set(chk_blocks)
    while work:
        x = work.pop()
        if x in seen or (x in avoid and x != start):
            continue
        seen.add(x)
        if x == target:
            return False
        work.extend(b.succs(x))
    return True


def _pexpr(pp):
    e = ("param", pp[0]) if isinstance(pp[0], int) else ("var", pp[0][1])
    for f_ in pp[1]:
        e = ("field", e, f_)
    return e


def r_guard(f):
    R, RA = Result("R-GUARD"), Result("R-ARITH")
    n = 0
    feats = {b.trait_head for b in f.fn_bodies if b.trait_provided}
    for (name, flt), entries in T.items():
        bodies = [b for b in f.fn_bodies if matches(b, name, flt)]
        if not bodies:
            if (name, flt) in REQUIRED:
                raise AnchorMissing("%s [%s] (public API named in the property)" % (name, flt))
            continue
        for b in bodies:
            n += len(entries)
            check_body(R, b, f, entries, RA)
    # R-ARITH for the column cursors' Index impls: idx is a caller value with no dimension guard at all; the
    # only accepted arithmetic is checked_/overflowing_/saturating_ whose failure is consumed, the result
    # then goes through a checked slice index
    for b in f.fn_bodies:
        if b.self_head in ("Col", "ColMut") and b.name in ("index", "index_mut") and b.trait_head and b.trait_head.startswith("Index"):
            n += 1
            d = Dfx(b)
            bad = None
            for bi, si, st in b.stmts():
                if st["k"] == "assign" and st["rv"]["k"] == "binop" and re.match(r"^(Mul|Add|Shl)", st["rv"]["op"]):
                    for o in (st["rv"]["l"], st["rv"]["r"]):
                        if any(x == ("param", 2) for x in walk(d.expr(o))):
                            bad = (st["span"], st["rv"]["op"])
            for bi, t_, fn_ in b.calls():
                if fn_ and fn_["path"].startswith("core::num::") and re.match(r"^(wrapping_|unchecked_)(mul|add|shl)", fn_["name"]) and any(x == ("param", 2) for a_ in t_["args"] for x in walk(d.expr(a_))):
                    bad = (t_["span"], fn_["name"])
            if bad:
                # accepted alternative: a plain product dominated by `idx < self.len()` (the number of remaining cells):
                # then idx*(1+skip) <= (len-1)*(1+skip) < slice length, which cannot wrap
                gg = G(b, f)
                for (gbi, op, lo, ro, ok) in gg.guards():
                    if op == "Lt" and strip(lo) == ("param", 2) and any(x[0] == "call" and x[2] in ("len", "size_hint") for x in walk(ro)):
                        mul_blocks = [bi for bi, si, st in b.stmts() if st["k"] == "assign" and st["rv"]["k"] == "binop" and st["span"] == bad[0]]
                        if all(ok in gg.dom.get(mb, set()) for mb in mul_blocks):
                            bad = None
                            break
            checked_index = any(fn and fn["path"] in ("core::ops::Index::index", "core::ops::IndexMut::index_mut") for _, _, fn in b.calls()) or \
                any(bl["term"] and bl["term"]["k"] == "assert" and bl["term"]["kind"] == "BoundsCheck" for bl in b.blocks)
            # the index may be handed to crate helpers: the same discipline applies there, to the parameter that receives it
            scan = [(b, 2)]
            for hb_, hp_ in list(scan):
                hd_ = Dfx(hb_)
                for _, t_, fn_ in hb_.calls():
                    cb_ = f.crate_fn_for_call(fn_) if fn_ else None
                    if cb_ is None or cb_.kind == "Closure" or any(cb_ is x for x, _ in scan) or len(scan) > 4:
                        continue
                    for ai_, a_ in enumerate(t_["args"]):
                        if a_["k"] in ("copy", "move") and strip(hd_.expr(a_)) == ("param", hp_):
                            scan.append((cb_, ai_ + 1))
            # the checked slice index may live in one of those helpers (the helper's callees included)
            for hb_, _ in list(scan):
                for hb2_ in [hb_] + [x for x in (f.crate_fn_for_call(fn_) for _, _, fn_ in hb_.calls() if fn_) if x is not None and x.kind != "Closure"]:
                    if any(fn_ and fn_["path"] in ("core::ops::Index::index", "core::ops::IndexMut::index_mut") for _, _, fn_ in hb2_.calls()) or \
                            any(bl["term"] and bl["term"]["k"] == "assert" and bl["term"]["kind"] == "BoundsCheck" for bl in hb2_.blocks):
                        checked_index = True
            for hb_, hp_ in scan:
                hd_ = Dfx(hb_)
                if hb_ is not b:
                    for bi, si, st in hb_.stmts():
                        if st["k"] == "assign" and st["rv"]["k"] == "binop" and re.match(r"^(Mul|Add|Shl)", st["rv"]["op"]):
                            if any(x == ("param", hp_) for o in (st["rv"]["l"], st["rv"]["r"]) for x in walk(hd_.expr(o))) and bad is None:
                                bad = (st["span"], st["rv"]["op"])
                # an overflowing_* product of the index: the flag alone must send every overflowing call to a panic
                for bi, t_, fn_ in hb_.calls():
                    if not (fn_ and fn_["path"].startswith("core::num::") and fn_["name"].startswith("overflowing_")):
                        continue
                    if not any(x == ("param", hp_) for a_ in t_["args"] for x in walk(hd_.expr(a_))):
                        continue
                    gg_ = G(hb_, f)
                    flag_blocks = []      # (switch block, successor taken when the flag is false)
                    for sb, bl in enumerate(hb_.blocks):
                        tt = bl["term"]
                        if bl["cleanup"] or not tt or tt["k"] != "switch":
                            continue
                        e_ = strip(hd_.expr(tt["discr"]))
                        neg_ = False
                        while e_[0] == "un" and e_[1] == "Not":
                            neg_ = not neg_; e_ = strip(e_[2])
                        if e_[0] == "field" and e_[2] == 1 and strip(e_[1])[0] == "call" and strip(e_[1])[2] == fn_["name"]:
                            tm_ = dict((int(a), b2) for a, b2 in tt["targets"])
                            f_succ, t_succ = tm_.get(0, tt["otherwise"]), (tt["otherwise"] if 0 in tm_ else tm_.get(1))
                            if neg_:
                                f_succ, t_succ = t_succ, f_succ
                            if t_succ is not None and gg_.diverges(t_succ):
                                flag_blocks.append(sb)
                    # every path from the product to a normal return passes one of those switches
                    rets = [rb for rb, bl in enumerate(hb_.blocks) if bl["term"] and bl["term"]["k"] == "return" and not bl["cleanup"] and rb in hb_.reachable(bi)]
                    leaks = [rb for rb in rets if not _all_paths_pass_from(hb_, bi, flag_blocks, rb)]
                    okf = bool(flag_blocks) and not leaks
                    RA.inst(b.ident, "the overflow flag of %s in %s sends every overflowing index to a panic before any return" % (fn_["name"], hb_.ident), okf)
                    if not okf:
                        RA.fail(b.ident, "idx:flag-not-decisive:%s" % fn_["name"], "%s: the overflow flag of %s(idx, ..) in %s does not by itself lead to a panic on every path (it is only tested together with another condition, or not at all): an index whose product wraps to an in-range position returns a wrong cell" % (b.ident, fn_["name"], hb_.ident), hb_.where(t_["span"]))
            if not checked_index:
                # an explicit bounds assertion followed by an unchecked access is decided path-wise by R-CURSOR (index
                # conformance: an unchecked access that the path facts do not bound is a violation there)
                for hb_, _ in scan:
                    if any(fn_ and fn_["name"] in ("get_unchecked", "get_unchecked_mut") for _, _, fn_ in hb_.calls()):
                        checked_index = True
            RA.inst(b.ident, "idx only enters checked arithmetic and a checked slice index", bad is None and checked_index)
            if bad:
                RA.fail(b.ident, "idx:%s" % bad[1].replace("WithOverflow", ""), "%s multiplies the caller's index with a plain `%s`: with overflow checks off a huge index wraps to an in-range position and a wrong cell is returned instead of a panic" % (b.ident, bad[1].replace("WithOverflow", "")), b.where(bad[0]))
            if not checked_index:
                RA.fail(b.ident, "idx:unchecked-access", "%s no longer reaches the cell through a checked slice index" % b.ident, b.where())
    # the window validator's stride assertion: the row pitch handed in by a constructor is at least the parent's width; a guard of
    # the opposite direction rejects every window of a narrow view (and lets an undersized pitch through)
    for b in f.fn_bodies:
        pn0 = b.param_names()
        sp = [loc for loc, nm in pn0.items() if nm == "stride" and b.locals[loc] == "usize"]
        if not sp or b.kind == "Closure" or "view" not in b.file:
            continue
        g = G(b, f)
        for (gbi, op, lo, ro, okb) in g.guards():
            sl_, sr_ = strip(lo), strip(ro)
            for mine, other, opn in ((sl_, sr_, op), (sr_, sl_, {"Lt": "Gt", "Le": "Ge", "Gt": "Lt", "Ge": "Le"}.get(op, op))):
                if mine == ("param", sp[0]) and other[0] == "call" and other[2] == "num_cols":
                    n += 1
                    okd = opn in ("Ge", "Gt", "Eq")
                    R.inst(b.ident, "the stride handed to the window validator is kept when it is >= the parent's width (%s)" % opn, okd)
                    if not okd:
                        R.fail(b.ident, "stride:reversed-guard", "%s keeps a stride only when it is %s the parent's num_cols(): a view of a narrow view (stride > width) is rejected and an undersized stride accepted" % (b.ident, "below" if opn in ("Lt",) else "at most"), b.where())
    # insert_row / insert_col: on a non-empty array the supplied line must have exactly the existing width / height: an equality
    # guard between the iterator's claimed length (ExactSizeIterator::len on the caller's iterator) and the dimension of the other
    # axis, whose failing edge panics, precedes the window (the exhaustion debug_assert at the end only exists in debug builds)
    for nm_, dimname_ in (("insert_row", "num_cols"), ("insert_col", "num_rows")):
        for b in f.fn_bodies:
            if not (b.self_head == "TooDee" and b.name == nm_ and not b.impl_trait and b.kind == "AssocFn"):
                continue
            n += 1
            g = G(b, f)
            tdf_ = [a for a in f.adts if a["id"].split("::")[-1] == "TooDee"]
            fidx_ = {x["name"]: i for i, x in enumerate(tdf_[0]["fields"])} if tdf_ else {}
            found_ = []
            wrongdim_ = []
            for (gbi, op, lo, ro, okb) in g.guards():
                if op != "Eq":
                    continue
                sides = [strip(lo), strip(ro)]
                has_len = [any(x[0] == "call" and x[2] == "len" and len(x) > 4 and isinstance(x[4], dict) and (is_caller_code(x[4]) or ((x[4].get("trait") or "").endswith("ExactSizeIterator") and re.search(r"/#\d", " ".join(x[4].get("args") or []) + (x[4].get("self_ty") or "")))) for x in walk(sd)) for sd in sides]
                if not any(has_len):
                    continue
                other = sides[1] if has_len[0] else sides[0]
                def is_dim(e, nm):
                    e = strip(e)
                    return (e[0] == "field" and e[2] == fidx_.get(nm) and strip(e[1]) in (("deref", ("param", 1)), ("param", 1))) or (e[0] == "call" and e[2] == nm)
                if is_dim(other, dimname_):
                    found_.append(gbi)
                elif is_dim(other, "num_rows" if dimname_ == "num_cols" else "num_cols"):
                    wrongdim_.append(gbi)
            # the window opens at the first length-lowering call
            lower = [bi for bi, t, fn in b.calls() if fn and fn["name"] in ("set_len", "truncate", "clear") and "alloc::vec::Vec" in fn["path"]]
            ok_ = bool(found_)
            R.inst(b.ident, "the line's claimed length is compared (==, failing edge panics) with self.%s before the window" % dimname_, ok_)
            if not ok_:
                R.fail(b.ident, "line-length:%s" % ("wrong-dimension" if wrongdim_ else "no-guard"), "%s does not reject a line whose length differs from self.%s on a non-empty array (%s): with overflow / debug assertions off a longer line is silently truncated where the call must panic" % (b.ident, dimname_, "the length is compared with the other dimension" if wrongdim_ else "no equality guard on the iterator's len() whose failing edge panics"), b.where())
    # the capacity calls take an unbounded caller count (insert_row / insert_col pass an iterator's claimed length through
    # them): any plain or wrapping sum / product of it can wrap (zero-sized elements make lengths near usize::MAX real), and the
    # "capacity overflow" panic that the insert functions rely on is lost
    for b in f.fn_bodies:
        if b.self_head == "TooDee" and b.name in ("reserve", "reserve_exact") and not b.impl_trait and b.kind == "AssocFn":
            n += 1
            d = Dfx(b)
            badc = None
            for bi, si, st in b.stmts():
                if st["k"] == "assign" and st["rv"]["k"] == "binop" and re.match(r"^(Mul|Add|Shl)", st["rv"]["op"]):
                    if any(x == ("param", 2) for o in (st["rv"]["l"], st["rv"]["r"]) for x in walk(d.expr(o))):
                        badc = (st["span"], st["rv"]["op"].replace("WithOverflow", ""))
            for bi, t_, fn_ in b.calls():
                if fn_ and fn_["path"].startswith("core::num::") and re.match(r"^(wrapping_|unchecked_)(mul|add|shl)", fn_["name"]) and any(x == ("param", 2) for a_ in t_["args"] for x in walk(d.expr(a_))):
                    badc = (t_["span"], fn_["name"])
            RA.inst(b.ident, "the requested capacity only enters Vec's own (checked) arithmetic", badc is None)
            if badc:
                RA.fail(b.ident, "capacity:%s" % badc[1], "%s combines the caller's count with a plain `%s`: for zero-sized elements (lengths near usize::MAX) the sum wraps with overflow checks off, Vec::reserve is skipped and its capacity-overflow panic - which insert_row / insert_col rely on before they lower the length - is lost" % (b.ident, badc[1]), b.where(badc[0]))
            # Vec::reserve(n) is relative to the LENGTH ("capacity for n more elements"): the wrapper must hand the caller's count
            # on as it is.  A count reduced by something (spare capacity, `min`, a subtraction) reserves too little, and insert_row /
            # insert_col then write past the allocation
            less = None
            for bi, t_, fn_ in b.calls():
                if fn_ and fn_["name"] in ("reserve", "reserve_exact", "try_reserve", "try_reserve_exact") and "alloc::vec::Vec" in (fn_.get("path") or "") and len(t_["args"]) > 1:
                    e = strip(d.expr(t_["args"][1]))
                    if e == ("param", 2):
                        continue
                    mentions = any(x == ("param", 2) for x in walk(e))
                    if mentions and ((e[0] == "call" and re.search(r"(saturating_sub|wrapping_sub|checked_sub|min|abs_diff)$", str(e[1]))) or (e[0] == "bin" and str(e[1]).startswith(("Sub", "Div", "Shr", "BitAnd", "Rem")))):
                        less = (t_["span"], show(e))
            # .. and the reservation either succeeds or panics: insert_row / insert_col write behind the old length right after it.
            # A fallible `try_reserve*` whose failure is dropped (`let _ = ..`, `.ok()`) turns "capacity overflow" into a silent no-op
            hard = [bi for bi, t_, fn_ in b.calls() if fn_ and fn_["name"] in ("reserve", "reserve_exact") and "alloc::vec::Vec" in (fn_.get("path") or "")]
            soft = [(bi, t_) for bi, t_, fn_ in b.calls() if fn_ and fn_["name"] in ("try_reserve", "try_reserve_exact") and "alloc::vec::Vec" in (fn_.get("path") or "")]
            domr = b.dominators()
            rets_ = [rb for rb, bl in enumerate(b.blocks) if bl["term"] and bl["term"]["k"] == "return" and not bl["cleanup"] and rb in b.reachable(0)]
            g_ = G(b, f)
            # the Ok edges of try_reserve results whose Err edge can only panic (`.expect(..)`, `match .. { Err(_) => panic!() }`)
            ok_edges = [t_["target"] for bi, t_, fn_ in b.calls() if fn_ and fn_["name"] in ("unwrap", "expect") and (fn_.get("path") or "").startswith("core::result::") and t_.get("target") is not None
                        and any(isinstance(x, tuple) and x[0] == "call" and x[2] in ("try_reserve", "try_reserve_exact") for x in walk(d.expr(t_["args"][0])))]
            for sb_, bl_ in enumerate(b.blocks):
                tt_ = bl_["term"]
                if tt_ and tt_["k"] == "switch" and not bl_["cleanup"]:
                    e_ = strip(d.expr(tt_["discr"]))
                    if e_[0] == "discr" and any(isinstance(x, tuple) and x[0] == "call" and x[2] in ("try_reserve", "try_reserve_exact") for x in walk(e_)):
                        tm_ = dict((int(a_), b2) for a_, b2 in tt_["targets"])
                        err_t, ok_t = tm_.get(1, tt_["otherwise"]), tm_.get(0)
                        if ok_t is not None and err_t is not None and g_.diverges(err_t) and not g_.diverges(ok_t):
                            ok_edges.append(ok_t)
            # `if v.try_reserve(n).is_err() { fallback }`: the `false` edge of is_err (the `true` edge of is_ok) is the Ok edge
            for sb_, bl_ in enumerate(b.blocks):
                tt_ = bl_["term"]
                if tt_ and tt_["k"] == "switch" and not bl_["cleanup"]:
                    e_ = strip(d.expr(tt_["discr"]))
                    neg_ = False
                    while e_[0] == "un" and e_[1] == "Not":
                        neg_ = not neg_; e_ = strip(e_[2])
                    if e_[0] == "call" and e_[2] in ("is_err", "is_ok") and any(isinstance(x, tuple) and x[0] == "call" and x[2] in ("try_reserve", "try_reserve_exact") for x in walk(e_)):
                        tm_ = dict((int(a_), b2) for a_, b2 in tt_["targets"])
                        t_true, t_false = (tt_["otherwise"] if 0 in tm_ else tm_.get(1)), tm_.get(0, tt_["otherwise"])
                        ok_is_true = (e_[2] == "is_ok") != neg_
                        ok_t = t_true if ok_is_true else t_false
                        if ok_t is not None:
                            ok_edges.append(ok_t)
            # a crate helper whose own body goes through a panicking Vec::reserve* on every path counts as one
            for bi, t_, fn_ in b.calls():
                hb_ = f.crate_fn_for_call(fn_) if fn_ else None
                if hb_ is not None and hb_.kind != "Closure" and hb_.id != b.id and hb_.blocks:
                    hh = [x for x, t2, f2 in hb_.calls() if f2 and f2["name"] in ("reserve", "reserve_exact") and "alloc::vec::Vec" in (f2.get("path") or "")]
                    hr = [rb for rb, bl in enumerate(hb_.blocks) if bl["term"] and bl["term"]["k"] == "return" and not bl["cleanup"] and rb in hb_.reachable(0)]
                    hd_ = hb_.dominators()
                    if hh and all(any(x == rb or x in hd_.get(rb, set()) for x in hh) for rb in hr):
                        hard.append(bi)
            points = hard + ok_edges
            guaranteed = bool(points) and all(any(p_ == rb or p_ in domr.get(rb, set()) for p_ in points) or _all_paths_pass(b, points, rb) for rb in rets_)
            if soft or not hard:
                RA.inst(b.ident, "every normal return has the room reserved (a panicking Vec::reserve*, or a try_reserve* whose failure panics)", guaranteed)
                if not guaranteed:
                    RA.fail(b.ident, "capacity:fallible-ignored", "%s can return normally without the room having been reserved (%s): insert_row / insert_col lower the length and write the new line behind the old cells right after this call, i.e. past the allocation" % (b.ident, "the Result of Vec::try_reserve* is dropped" if soft else "no reserving call on some path"), b.where(soft[0][1]["span"]) if soft else b.where())
            RA.inst(b.ident, "the caller's count reaches Vec::%s undiminished" % b.name, less is None)
            if less:
                RA.fail(b.ident, "capacity:reduced", "%s hands Vec::%s a count that is smaller than the one asked for (%s): Vec::reserve is already relative to the length, so with some spare capacity the buffer is not grown enough and insert_row / insert_col write the new line past the allocation" % (b.ident, b.name, less[1][:120]), b.where(less[0]))
    # a dimension (or a length) never passes through an integer type that cannot hold every usize: `num_cols as i32` is a
    # different number for 2^31 columns and more (zero-sized cells make such arrays real, large byte buffers make them plausible)
    NARROW = ("u8", "u16", "u32", "i8", "i16", "i32")
    DIMF = ("num_cols", "num_rows", "stride", "cols", "skip_cols", "skip")
    adt_fields = {a["id"].split("::")[-1]: [x["name"] for x in a["fields"]] for a in f.adts}

    def dim_derived(b_, d_, o):
        e = d_.expr(o)
        for x in walk(e):
            if not isinstance(x, tuple):
                continue
            if x[0] == "field" and strip(x[1]) in (("deref", ("param", 1)), ("param", 1)) and b_.self_head in adt_fields:
                fl_ = adt_fields[b_.self_head]
                if x[2] < len(fl_) and fl_[x[2]] in DIMF:
                    return fl_[x[2]]
            if x[0] == "call" and x[2] in ("num_cols", "num_rows", "len", "size") and x[3] and any(y == ("param", 1) for y in walk(x[3][0])):
                return x[2] + "()"
        return None
    narrow_casts = {}      # body id -> [(span, operand expr, target type)]
    for b_ in f.fn_bodies:
        if not b_.blocks or "/tests" in b_.file.replace("\\", "/"):
            continue
        for bi, si, st in b_.stmts():
            if st["k"] == "assign" and st["rv"]["k"] == "cast" and str(st["rv"].get("ty")) in NARROW:
                o = st["rv"]["o"]
                if o["k"] in ("copy", "move") and not o["p"]["proj"] and str(b_.locals[o["p"]["local"]]) == "usize":
                    narrow_casts.setdefault(b_.id, []).append((st["span"], o, str(st["rv"]["ty"])))
    ntr = 0
    trunc = []
    for bid, lst in narrow_casts.items():
        b_ = f.by_id[bid]
        d_ = Dfx(b_)
        for sp, o, ty in lst:
            dn = dim_derived(b_, d_, o)
            if dn:
                trunc.append((b_, b_, sp, dn, ty))
                continue
            e = strip(d_.expr(o))
            if e[0] == "param":
                # which callers hand a dimension to this parameter?
                for c_ in f.fn_bodies:
                    for bi, t_, fn_ in c_.calls():
                        cb_ = f.crate_fn_for_call(fn_) if fn_ else None
                        if cb_ is not None and cb_.id == bid and e[1] - 1 < len(t_["args"]):
                            dn = dim_derived(c_, Dfx(c_), t_["args"][e[1] - 1])
                            if dn:
                                trunc.append((c_, b_, t_["span"], dn, ty))
    n += 1
    RA.inst("<crate>", "no dimension or length is converted to an integer type narrower than usize (%d narrowing casts of usize values looked at)" % sum(len(v) for v in narrow_casts.values()), not trunc)
    for c_, b_, sp, dn, ty in trunc:
        RA.fail(c_.ident, "truncates:%s:%s" % (dn, ty), "%s converts %s to %s%s: for %s of 2^%d and more the value is a different number, so in-range coordinates are mapped to the wrong cell (or a remainder by zero panics)" % (c_.ident, dn, ty, "" if c_ is b_ else " (in %s)" % b_.ident, dn, 31 if ty == "i32" else int(re.sub(r"\D", "", ty)) - (1 if ty.startswith("i") else 0)), c_.where(sp))
    from .rules_struct import cfg_features
    R.require_floor(n, 40 if len(cfg_features(f)) == 4 else 28, "role instances")
    return [R, RA], n
