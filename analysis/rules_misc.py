"""Remaining structural clauses of DESIGN section 4 that are simple shape checks over resolved callees and
def-use expressions: R-COPYSHAPE (C14), R-FLIPSHAPE (C15), R-CONV (C05/C20: conversions, From<view>, derive provenance),
R-INTOITER (C10), R-SORTKEY (C16/C17 s3), R-FILL (C13), R-DRAINLIT (C07)."""
import re
from .core import Result, AnchorMissing
from .facts import norm_ty, is_caller_code, head
from .dfx import Dfx, strip, const_usize, const_str, walk, show
from .rules_struct import cfg_features

WRITE_CALLS = ("rows_mut", "data_mut", "index_mut", "col_mut", "cells_mut", "row_pair_mut", "view_mut", "swap_rows", "swap", "fill", "get_unchecked_row_mut", "get_unchecked_mut")


def cursor_steps(b, tyname):
    """names of the iterator methods called on cursors of type `tyname` (e.g. RowsMut) in body b"""
    out = []
    for bi, t, fn in b.calls():
        if not fn:
            continue
        st = (fn.get("self_ty") or "") + " " + (fn.get("resolved") or "") + " " + " ".join(fn.get("args", []))
        if (fn.get("trait") or "").endswith("Iterator") and re.search(r"iter::%s<" % tyname, st):
            out.append(fn["name"])
    return out


def r_copyshape(f):
    R = Result("R-COPYSHAPE")
    if "copy" not in cfg_features(f):
        return R, 0
    n = 0
    names = ("copy_from_slice", "clone_from_slice", "copy_from_toodee", "clone_from_toodee")
    for b in f.fn_bodies:
        if b.name not in names or b.kind != "AssocFn" or not ((b.trait_provided and b.trait_head == "CopyOps") or (b.impl_trait and b.trait_head == "CopyOps")):
            continue
        n += 1
        d = Dfx(b)
        dom = b.dominators()
        from .rules_guard import G
        g = G(b, f)
        # (i) a diverging size guard dominates the first write, or the whole job is one std slice copy (which checks lengths)
        writes = [bi for bi, t, fn in b.calls() if fn and fn["name"] in WRITE_CALLS and (fn.get("krate") == f.raw["crate"] or fn.get("resolved_krate") == f.raw["crate"])]
        std_copy = [(bi, t, fn) for bi, t, fn in b.calls() if fn and fn["path"] in ("core::slice::<impl [T]>::copy_from_slice", "core::slice::<impl [T]>::clone_from_slice")]
        guard_blocks = []
        for (gbi, op, lo, ro, ok) in g.guards():
            txt = show(lo) + " " + show(ro)
            if op == "Eq" and ("len(" in txt or "size(" in txt):
                guard_blocks.append((gbi, ok, txt))
        # PartialEq::eq on tuples (size() == size()) appears as a call feeding a switch
        for bi, bl in enumerate(b.blocks):
            t = bl["term"]
            if t and t["k"] == "switch" and not bl["cleanup"]:
                e = strip(d.expr(t["discr"]))
                if e[0] == "call" and e[2] == "eq" and any(x[0] == "call" and x[2] == "size" for x in walk(e)):
                    tm = dict((int(a), b2) for a, b2 in t["targets"])
                    false_succ, true_succ = tm.get(0, t["otherwise"]), (t["otherwise"] if 0 in tm else tm.get(1))
                    if g.diverges(false_succ) and not g.diverges(true_succ):
                        guard_blocks.append((bi, true_succ, "size() == size()"))
        whole = False
        if std_copy and len(std_copy) == 1 and not b.has_loop():
            # data_mut().copy_from_slice(src): the destination is the whole buffer and the source the parameter
            t = std_copy[0][1]
            dst = strip(d.expr(t["args"][0]))
            src = strip(d.expr(t["args"][1]))
            whole = any(x[0] == "call" and x[2] == "data_mut" for x in walk(dst)) and any(x == ("param", 2) for x in walk(src))
        first_writes = writes
        ok = whole or (bool(guard_blocks) and all(any(gok in dom.get(w, set()) for _, gok, _ in guard_blocks) for w in first_writes) and bool(first_writes))
        if not ok and guard_blocks and first_writes:
            # a mutable borrow / cursor taken BEFORE the guard (`let dest = self.data_mut(); assert_eq!(dest.len(), src.len())`) writes
            # nothing by itself: what must lie behind the guard is every loop, std slice copy and other write
            ACCESSORS = ("rows_mut", "data_mut", "cells_mut", "col_mut", "view_mut")
            wname = {bi: fn["name"] for bi, t, fn in b.calls() if fn}
            early = [w for w in first_writes if wname.get(w) in ACCESSORS and any(w in dom.get(gbi, set()) for gbi, _, _ in guard_blocks)]
            if early:
                first_writes = [w for w in first_writes if w not in early]
        if not ok and guard_blocks and not first_writes:
            # no write CALL of the crate: the cells are stored through std iterators (`for (d, s) in dest.iter_mut().zip(src) { *d = *s }`)
            # or a std slice copy per piece; then every loop and every std copy must lie behind the guard
            reach0 = b.reachable(0)
            loops_ = [x for x in reach0 if not b.blocks[x]["cleanup"] and any(x in b.reachable(y) for y in b.succs(x))]
            stores_ = loops_ + [bi for bi, _, _ in std_copy]
            ok = bool(stores_) and all(any(gok in dom.get(w, set()) or gok == w for _, gok, _ in guard_blocks) for w in stores_)
            first_writes = stores_
        if not ok and not guard_blocks:
            # the whole job forwarded to one private helper that receives (self, src): judge the helper's own guard and writes
            fw = [(t, f.crate_fn_for_call(fn)) for _, t, fn in b.calls() if fn and f.crate_fn_for_call(fn) is not None and f.crate_fn_for_call(fn).kind != "Closure"]
            fw = [(t, hb) for t, hb in fw if not hb.trait_provided and not hb.impl_trait]
            if len(fw) == 1 and not b.has_loop():
                t, hb = fw[0]
                def peeled(e):
                    e = strip(e)
                    while e[0] in ("ref", "refmut", "deref"):
                        e = strip(e[1])
                    return e
                pos = {peeled(d.expr(a))[1]: i + 1 for i, a in enumerate(t["args"]) if peeled(d.expr(a))[0] == "param"}
                if 1 in pos and 2 in pos:
                    hd, hg, hdom = Dfx(hb), G(hb, f), hb.dominators()
                    hguards = []
                    for (gbi, op, lo, ro, okb) in hg.guards():
                        txt = show(lo) + " " + show(ro)
                        if op == "Eq" and ("len(" in txt or "size(" in txt) and any(x == ("param", pos[2]) for x in list(walk(lo)) + list(walk(ro))):
                            hguards.append((gbi, okb, txt))
                    hwrites = [bi for bi, t2, fn2 in hb.calls() if fn2 and fn2["name"] in WRITE_CALLS and (fn2.get("krate") == f.raw["crate"] or fn2.get("resolved_krate") == f.raw["crate"])]
                    hrets = [rb for rb, bl in enumerate(hb.blocks) if bl["term"] and bl["term"]["k"] == "return" and not bl["cleanup"] and rb in hb.reachable(0)]
                    if hguards and hwrites and all(any(gok in hdom.get(w, set()) for _, gok, _ in hguards) for w in hwrites) \
                            and all(any(gok in hdom.get(rb, set()) or gok == rb for _, gok, _ in hguards) for rb in hrets):
                        ok = True
                        guard_blocks = [(g0, g1, g2 + " [in helper %s]" % hb.ident) for g0, g1, g2 in hguards]
                        first_writes = hwrites
        if ok and not whole and not any("[in helper" in x[2] for x in guard_blocks):
            # a mismatch must panic for every input: no normal return bypasses the guard (an early return for the empty case
            # placed before the assertion accepts a non-empty source)
            rets = [rb for rb, bl in enumerate(b.blocks) if bl["term"] and bl["term"]["k"] == "return" and not bl["cleanup"] and rb in b.reachable(0)]
            ok = all(any(gok in dom.get(rb, set()) or gok == rb for _, gok, _ in guard_blocks) for rb in rets)
        R.inst(b.ident, "size guard %s dominates every write and every normal return (%d write calls)%s" % ([x[2] for x in guard_blocks], len(first_writes), " [single std slice copy of the whole buffer: std checks the lengths]" if whole else ""), ok)
        if not ok:
            R.fail(b.ident, "no-size-guard", "%s writes to the destination without a dominating check that the source has the same size (or a std slice copy of the whole buffer): a size mismatch must panic before anything is overwritten" % b.ident, b.where())
        # (ii) element-wise transfer: the destination comes from the receiver's rows, the source from the parameter
        for bi, t, fn in std_copy:
            if whole:
                continue
            dst = strip(d.expr(t["args"][0]))
            src = strip(d.expr(t["args"][1]))
            # within a zip loop the pair comes out of Option<(d, s)>: field 0 -> destination, field 1 -> source
            def fld(e):
                for x in walk(e):
                    if x[0] == "field" and x[1][0] in ("field", "downcast") :
                        return x[2]
                return None
            fd, fs = fld(dst), fld(src)
            zips = [tt for _, tt, ff in b.calls() if ff and ff["name"] == "zip"]
            if zips and fd is not None and fs is not None:
                okp = (fd, fs) == (0, 1)
                z0 = strip(d.expr(zips[0]["args"][0]))
                okz = any(x[0] == "call" and x[2] == "rows_mut" for x in walk(z0))
                R.inst(b.ident, "rows are transferred destination <- source: zip(rows_mut(), source) item .%s <- .%s" % (fd, fs), okp and okz)
                if not (okp and okz):
                    R.fail(b.ident, "direction", "%s copies in the wrong direction or zips the wrong cursors" % b.ident, b.where(t["span"]))
    # copy_within: every arm visits exactly the source rectangle's rows [src.0.1, src.1.1)
    cw = [b for b in f.fn_bodies if b.name == "copy_within" and b.kind == "AssocFn" and (b.trait_provided or b.impl_trait) and b.trait_head == "CopyOps"]
    for b in cw:
        d = Dfx(b)
        pn = b.param_names()
        src = None
        for loc, nm in pn.items():
            if b.locals[loc] == "((usize, usize), (usize, usize))":
                src = loc

        def is_src(e, i, j):
            e = strip(e)
            # src.i.j possibly through the destructured locals `top_left` / `bottom_right`
            return e == ("field", ("field", ("param", src), i), j)
        if src is None:
            R.inconc(b.ident, "source rectangle parameter not found")
            continue
        sets = []
        for bi, t, fn in b.calls():
            if not fn:
                continue
            if fn["name"] in ("into_iter", "rev") and t["args"]:
                e = strip(d.expr(t["args"][0]))
                if e[0] == "agg" and e[1].endswith("Range::Range") and len(e[2]) == 2:
                    sets.append(("range", e[2][0], e[2][1], t["span"]))
                elif e[0] == "call" and e[2] == "new" and "RangeInclusive" in e[1] and len(e[3]) == 2:
                    # a..=b visits b as well: the end of the visited set is b + 1
                    sets.append(("range", e[3][0], ("bin", "Add", e[3][1], ("const", "1_usize", "usize")), t["span"]))
            if fn["name"] == "take" and t["args"]:
                recv = strip(d.expr(t["args"][0]))
                if recv[0] == "call" and recv[2] == "skip" and any(x[0] == "call" and x[2] in ("rows_mut", "rows") for x in walk(recv)):
                    a = strip(recv[3][1])
                    nn = strip(d.expr(t["args"][1]))
                    sets.append(("skip-take", a, ("bin", "Add", a, nn), t["span"], nn))
        # de-duplicate the rev(range) -> into_iter(rev) chains: keep distinct range expressions
        seen_r = []
        for srow in sets:
            key = (show(srow[1]), show(srow[2]))
            if key in [k for k, _ in seen_r]:
                continue
            seen_r.append((key, srow))
        for key, srow in seen_r:
            n += 1
            lo, hi = srow[1], srow[2]
            ok = is_src(lo, 0, 1)
            if srow[0] == "range":
                ok = ok and is_src(hi, 1, 1)
                if not ok:
                    # the same set written with adjusted ends (`a..=last` with last = b - 1, offsets ..): compare as polynomials
                    from .vgraph import Poly as _Poly

                    def _ps(e):
                        e = strip(e)
                        cu = const_usize(e)
                        if cu is not None:
                            return _Poly.const(cu)
                        if e[0] == "bin":
                            op = e[1].replace("WithOverflow", "").replace("Unchecked", "")
                            if op in ("Add", "Sub", "Mul"):
                                x, y = _ps(e[2]), _ps(e[3])
                                return x + y if op == "Add" else (x - y if op == "Sub" else x * y)
                        return _Poly.atom(show(e, pn))
                    ok = _ps(lo) == _ps(("field", ("field", ("param", src), 0), 1)) and _ps(hi) == _ps(("field", ("field", ("param", src), 1), 1))
                # count form: offsets 0..height that are added to the first source / destination row
                sh = strip(hi)
                if not ok and const_usize(strip(lo)) == 0 and sh[0] == "bin" and sh[1].startswith("Sub") and is_src(sh[2], 1, 1) and is_src(sh[3], 0, 1):
                    ok = True
            else:
                nn = srow[4]
                ok = ok and nn[0] == "bin" and nn[1].startswith("Sub") and is_src(nn[2], 1, 1) and is_src(nn[3], 0, 1)
            R.inst(b.ident, "row loop visits [%s, %s) = the source rectangle's rows" % (show(lo, pn), show(hi, pn)), ok)
            if not ok:
                R.fail(b.ident, "rows:%s..%s" % (show(lo, pn), show(hi, pn)), "%s: a row loop of copy_within visits rows [%s, %s) instead of the source rectangle's rows [src.0.1, src.1.1): rows outside the rectangle are shifted or rows inside it are skipped" % (b.ident, show(lo, pn), show(hi, pn)), b.where(srow[3]))
    # copy_within, offsets: source row r lands on row r + (dest.1 - src.0.1), source columns [src.0.0, src.1.0) land on the
    # columns starting at dest.0 - as polynomial identities over the parameters (loop variables are opaque atoms)
    from .vgraph import Poly
    for b in cw:
        d = Dfx(b)
        pn = b.param_names()
        src = [loc for loc, nm in pn.items() if b.locals[loc] == "((usize, usize), (usize, usize))"]
        dst = [loc for loc, nm in pn.items() if b.locals[loc] == "(usize, usize)"]
        if len(src) != 1 or len(dst) != 1:
            continue
        S, D = src[0], dst[0]

        def P(e, depth=0):
            e = strip(e)
            cu = const_usize(e)
            if cu is not None:
                return Poly.const(cu)
            if e[0] == "bin":
                op = e[1].replace("WithOverflow", "").replace("Unchecked", "")
                if op in ("Add", "Sub", "Mul"):
                    a, c = P(e[2], depth), P(e[3], depth)
                    return a + c if op == "Add" else (a - c if op == "Sub" else a * c)
            # component k of the item of `zip(a0..a1, b0..b1)` (possibly reversed): start_k plus the common position
            if e[0] == "field" and strip(e[1])[0] == "field" and strip(e[1])[2] == 0 and strip(strip(e[1])[1])[0] == "downcast":
                src_ = strip(strip(strip(e[1])[1])[1])
                zs = [x for x in walk(src_) if x[0] == "call" and x[2] == "zip" and len(x[3]) == 2]
                if zs:
                    rs_ = [strip(a_) for a_ in zs[0][3]]
                    if all(r_[0] == "agg" and r_[1].endswith("Range::Range") and len(r_[2]) == 2 for r_ in rs_) and e[2] in (0, 1):
                        return P(rs_[e[2]][2][0], depth) + Poly.atom("J:" + show(src_, pn))
            # a crate helper whose result is one expression of its parameters (`fn extent(start, end, ..) -> usize { .. end - start }`)
            if e[0] == "call" and len(e) > 4 and isinstance(e[4], dict) and depth < 2:
                hb_ = f.crate_fn_for_call(e[4])
                if hb_ is not None and hb_.blocks and hb_.kind != "Closure":
                    hd_ = Dfx(hb_)
                    rets_ = [strip(hd_.rvalue(st2["rv"])) for _, _, st2 in hb_.stmts() if st2["k"] == "assign" and st2["p"]["local"] == 0 and not st2["p"]["proj"]]
                    if len(rets_) == 1:
                        def sub_(x):
                            x = strip(x) if isinstance(x, tuple) else x
                            if isinstance(x, tuple) and x[0] == "param" and 1 <= x[1] <= len(e[3]):
                                return ("__arg__", x[1])
                            return x
                        def PH(x):
                            x = strip(x)
                            cu2 = const_usize(x)
                            if cu2 is not None:
                                return Poly.const(cu2)
                            if x[0] == "param" and 1 <= x[1] <= len(e[3]):
                                return P(e[3][x[1] - 1], depth + 1)
                            if x[0] == "bin":
                                op2 = x[1].replace("WithOverflow", "").replace("Unchecked", "")
                                if op2 in ("Add", "Sub", "Mul"):
                                    a2, c2 = PH(x[2]), PH(x[3])
                                    if a2 is None or c2 is None:
                                        return None
                                    return a2 + c2 if op2 == "Add" else (a2 - c2 if op2 == "Sub" else a2 * c2)
                            return None
                        got_ = PH(rets_[0])
                        if got_ is not None:
                            return got_
            return Poly.atom(show(e, pn))
        S01, S00, S10, D0, D1 = (P(("field", ("field", ("param", S), 0), 1)), P(("field", ("field", ("param", S), 0), 0)), P(("field", ("field", ("param", S), 1), 0)),
                                 P(("field", ("param", D), 0)), P(("field", ("param", D), 1)))
        for bi, t, fn in b.calls():
            if fn and fn["name"] == "row_pair_mut" and len(t["args"]) == 3:
                x, y = P(d.expr(t["args"][1])), P(d.expr(t["args"][2]))
                n += 1
                ok = (y - x) == (D1 - S01)
                R.inst(b.ident, "row_pair_mut(s, d): d - s == dest.1 - src.0.1 (got %r)" % (y - x,), ok)
                if not ok:
                    R.fail(b.ident, "row-offset:%r" % (y - x,), "%s pairs source row %r with destination row %r: their distance is %r, not dest.1 - src.0.1 - the rows of the rectangle land on the wrong rows" % (b.ident, x, y, y - x), b.where(t["span"]))
        # every row loop transfers cells: its body contains a slice copy (a loop over the rectangle's rows that copies nothing
        # leaves the destination unchanged for that relative placement)
        MOV = ("copy_from_slice", "clone_from_slice", "copy_within", "clone_from", "swap_with_slice")
        heads = [bi for bi, t, fn in b.calls() if fn and fn["name"] in ("next", "next_back") and re.search(r"Range<usize>|Rev<|Take<|Skip<", " ".join(fn.get("args") or []) + (fn.get("self_ty") or ""))]
        for hb_ in heads:
            fwd = set(b.reachable(hb_))
            body_blocks = {x for x in fwd if hb_ in b.reachable(x) and x != hb_} | {hb_}
            if len(body_blocks) < 2:
                continue
            n += 1
            has = any(fn2 and fn2["name"] in MOV for x in body_blocks for fn2 in [((b.blocks[x]["term"] or {}).get("func") or {}).get("fn")] if (b.blocks[x]["term"] or {}).get("k") == "call")
            R.inst(b.ident, "the row loop headed at the %s() call copies cells in its body" % b.blocks[hb_]["term"]["func"]["fn"]["name"], has)
            if not has:
                R.fail(b.ident, "loop-without-copy", "%s: a loop over the rectangle's rows contains no slice copy: for that relative placement of source and destination nothing is transferred" % b.ident, b.where(b.blocks[hb_]["term"]["span"]))
        # overlap: when the rectangle moves down (dest.1 > src.0.1) its rows are copied bottom-up, when it moves up top-down - or
        # the rows of the two rectangles do not overlap at all.  For every row_pair_mut(s, d): the source row s is `base + item`
        # or `base - item` of the enclosing counted loop; under the branch facts that dominate where s is computed, an ascending
        # walk needs src.0.1 >= dest.1 (or dest.1 >= src.1.1), a descending one src.0.1 <= dest.1 (or dest.1 + height <= src.0.1)
        from .vgraph import Cond, decide, saturate
        S11 = P(("field", ("field", ("param", S), 1), 1))
        domc = b.dominators()

        def facts_at(blk):
            fs = []
            for sb in domc.get(blk, set()):
                tt = b.blocks[sb]["term"]
                if sb == blk or not tt or tt["k"] != "switch":
                    continue
                e_ = strip(d.expr(tt["discr"]))
                tm_ = [(int(a_), b2) for a_, b2 in tt["targets"]]
                succs = tm_ + [(None, tt["otherwise"])]
                taken = [(v_, sx) for v_, sx in succs if sx == blk or sx in domc.get(blk, set())]
                if len(taken) != 1:
                    continue
                v_, _ = taken[0]
                if e_[0] == "discr" and strip(e_[1])[0] == "call" and strip(e_[1])[2] in ("cmp",) and len(strip(e_[1])[3]) == 2:
                    a_, c_ = [strip(x) for x in strip(e_[1])[3]]
                    a_ = a_[1] if a_[0] in ("ref", "refmut") else a_
                    c_ = c_[1] if c_[0] in ("ref", "refmut") else c_
                    df_ = P(a_) - P(c_)
                    vals = {255: "<", -1: "<", 0: "==", 1: ">"}
                    if v_ is not None and v_ in vals:
                        fs.append(Cond(vals[v_], df_))
                    elif v_ is None:
                        others = {vals.get(x) for x, _ in tm_}
                        rest = {"<", "==", ">"} - others
                        if len(rest) == 1:
                            fs.append(Cond(rest.pop(), df_))
                    continue
                neg_ = False
                while e_[0] == "un" and e_[1] == "Not":
                    neg_ = not neg_; e_ = strip(e_[2])
                if e_[0] == "bin" and e_[1] in ("Lt", "Le", "Gt", "Ge", "Eq", "Ne"):
                    c0 = Cond({"Lt": "<", "Le": "<=", "Gt": ">", "Ge": ">=", "Eq": "==", "Ne": "!="}[e_[1]], P(e_[2]) - P(e_[3]))
                    truth = (v_ is None and any(x == 0 for x, _ in tm_)) or (v_ == 1)
                    if neg_:
                        truth = not truth
                    fs.append(c0 if truth else c0.neg())
            return fs
        for bi, t, fn in b.calls():
            if not (fn and fn["name"] == "row_pair_mut" and len(t["args"]) == 3):
                continue
            a1 = t["args"][1]
            # the definitions of the source-row operand (one, or one per branch of `let r = if flag { .. } else { .. }`)
            defs_ = []
            if a1["k"] in ("copy", "move") and not a1["p"]["proj"]:
                l_ = a1["p"]["local"]
                for _ in range(3):
                    ds_ = d.single_def(l_)
                    if ds_ and ds_[0] == "stmt" and ds_[3]["rv"]["k"] == "use" and ds_[3]["rv"]["o"]["k"] in ("copy", "move") and not ds_[3]["rv"]["o"]["p"]["proj"]:
                        l_ = ds_[3]["rv"]["o"]["p"]["local"]
                    else:
                        break
                for dd_ in d.whole_defs(l_):
                    if dd_[0] == "stmt":
                        defs_.append((dd_[1], strip(d.rvalue(dd_[3]["rv"]))))
            if not defs_:
                defs_ = [(bi, strip(d.expr(a1)))]
            for blk, ex in defs_:
                px = P(ex)
                items = [a_ for mono in px.t for a_ in mono if "next(" in a_ or "next_back(" in a_]
                if len(set(items)) != 1:
                    continue
                it_ = items[0]
                coef = px.t.get((it_,), 0)
                if coef not in (1, -1) or any(it_ in mono and len(mono) > 1 for mono in px.t):
                    continue
                asc = (coef == 1) != ("rev(" in it_ or "next_back(" in it_)
                fs = facts_at(blk) + [Cond(">=", S11 - S01)]
                def imp(c_):
                    return decide(fs, c_) is True or decide(saturate(fs), c_) is True
                height = S11 - S01
                okd = (imp(Cond(">=", S01 - D1)) or imp(Cond(">=", D1 - S11))) if asc else (imp(Cond(">=", D1 - S01)) or imp(Cond(">=", S01 - D1 - height)))
                n += 1
                R.inst(b.ident, "rows walked %s where the branch facts {%s} make that the safe order for overlapping rectangles" % ("top-down" if asc else "bottom-up", ", ".join(repr(c_) for c_ in fs[:-1])), okd)
                if not okd:
                    R.fail(b.ident, "overlap-order:%s" % ("asc" if asc else "desc"), "%s copies the rectangle's rows %s on a path whose branch facts {%s} do not exclude a move %s with overlapping rows: a source row is read after it was overwritten" % (b.ident, "top-down" if asc else "bottom-up", ", ".join(repr(c_) for c_ in fs[:-1]), "downwards" if asc else "upwards"), b.where(t["span"]))
        # same-row case: slice::copy_within(src.0.0..src.1.0, dest.0) on the row
        for bi, t, fn in b.calls():
            if fn and fn["path"] == "core::slice::<impl [T]>::copy_within" and len(t["args"]) == 3:
                r_ = strip(d.expr(t["args"][1]))
                if r_[0] == "call" and r_[2] == "new" and "RangeInclusive" in r_[1] and len(r_[3]) == 2:
                    r_ = ("agg", "core::ops::Range::Range", [r_[3][0], ("bin", "Add", r_[3][1], ("const", "1_usize", "usize"))])
                if r_[0] == "agg" and r_[1].endswith("Range::Range") and len(r_[2]) == 2:
                    n += 1
                    a0, a1, dd = P(r_[2][0]), P(r_[2][1]), P(d.expr(t["args"][2]))
                    ok = a0 == S00 and a1 == S10 and dd == D0
                    R.inst(b.ident, "same-row copy: row.copy_within(%r..%r, %r)" % (a0, a1, dd), ok)
                    if not ok:
                        R.fail(b.ident, "same-row:%r..%r->%r" % (a0, a1, dd), "%s moves columns [%r, %r) of a row to column %r; want [src.0.0, src.1.0) -> dest.0" % (b.ident, a0, a1, dd), b.where(t["span"]))
        # column ranges of the per-row copy
        for bi, t, fn in b.calls():
            if not (fn and fn["name"] in ("copy_from_slice", "clone_from_slice") and len(t["args"]) == 2):
                continue
            def rng(e):
                e = strip(e)
                for x in walk(e):
                    if x[0] == "call" and x[2] in ("index", "index_mut", "get_unchecked", "get_unchecked_mut") and len(x[3]) == 2:
                        r_ = strip(x[3][1])
                        if r_[0] == "agg" and r_[1].endswith("Range::Range") and len(r_[2]) == 2:
                            return P(r_[2][0]), P(r_[2][1])
                        if r_[0] == "call" and r_[2] == "clone" and r_[3]:
                            r2 = strip(r_[3][0])
                            r2 = strip(r2[1]) if r2[0] in ("ref", "refmut") else r2
                            if r2[0] == "agg" and r2[1].endswith("Range::Range") and len(r2[2]) == 2:
                                return P(r2[2][0]), P(r2[2][1])
                return None
            rd, rs = rng(d.expr(t["args"][0])), rng(d.expr(t["args"][1]))
            if rd is None or rs is None:
                continue
            n += 1
            ok = rs[0] == S00 and rs[1] == S10 and rd[0] == D0 and (rd[1] - rd[0]) == (S10 - S00)
            R.inst(b.ident, "per-row copy: source columns [%r, %r) -> destination columns [%r, %r)" % (rs[0], rs[1], rd[0], rd[1]), ok)
            if not ok:
                R.fail(b.ident, "col-ranges:%r..%r<-%r..%r" % (rd[0], rd[1], rs[0], rs[1]), "%s copies columns [%r, %r) of the source row to columns [%r, %r) of the destination row; want [src.0.0, src.1.0) -> [dest.0, dest.0 + width)" % (b.ident, rs[0], rs[1], rd[0], rd[1]), b.where(t["span"]))
    R.require_floor(n, 8, "copy functions")
    return R, n


def r_flipshape(f):
    R = Result("R-FLIPSHAPE")
    if "translate" not in cfg_features(f):
        return R, 0
    n = 0
    b = f.get("TranslateOps::flip_rows (provided)")
    if b is None:
        raise AnchorMissing("TranslateOps::flip_rows")
    n += 1
    steps = cursor_steps(b, "RowsMut")
    cursors = [t for _, t, fn in b.calls() if fn and fn["name"] == "rows_mut"]
    sw = [t for _, t, fn in b.calls() if fn and fn["path"] in ("core::slice::<impl [T]>::swap_with_slice",)]
    ok = len(cursors) == 1 and set(steps) == {"next", "next_back"} and len(sw) == 1
    if ok:
        # ... repeatedly: the swap sits on a cycle of the control-flow graph (an `if let` in place of the `while let` swaps
        # only the outermost pair)
        swb = [bi for bi, t, fn in b.calls() if fn and fn["path"] == "core::slice::<impl [T]>::swap_with_slice"]
        ok = bool(swb) and all(bi in b.reachable(s_) for bi in swb for s_ in b.succs(bi))
    if not ok and len(cursors) == 1 and set(steps) == {"next", "next_back", "len"} and len(sw) == 1:
        # counted form: exactly len()/2 rounds, the count taken from the same cursor before it is advanced
        d = Dfx(b)
        ends = []
        for bi, si, st in b.stmts():
            if st["k"] == "assign" and st["rv"]["k"] == "agg" and (st["rv"].get("adt") or "").endswith("ops::Range") and len(st["rv"]["fields"]) == 2:
                ends.append((const_usize(strip(d.expr(st["rv"]["fields"][0]))), strip(d.expr(st["rv"]["fields"][1]))))
        def half_len(e):
            if e[0] == "bin" and ((e[1] == "Div" and const_usize(strip(e[3])) == 2) or (e[1] == "Shr" and const_usize(strip(e[3])) == 1)):
                c = strip(e[2])
                return c[0] == "call" and c[2] == "len" and any(x[0] == "call" and x[2] == "rows_mut" for x in walk(c))
            return False
        lens = [bi for bi, t, fn in b.calls() if fn and fn["name"] == "len"]
        firsts = [bi for bi, t, fn in b.calls() if fn and fn["name"] in ("next", "next_back")]
        dom = b.dominators()
        ok = len(ends) == 1 and ends[0][0] == 0 and half_len(ends[0][1]) and len(lens) == 1 and all(lens[0] in dom.get(x, set()) and x != lens[0] for x in firsts)
    if not ok and not cursors:
        # index form: for r in 0..num_rows()/2 { self.swap_rows(r, num_rows() - 1 - r) }
        d = Dfx(b)
        def is_rows(e):
            e = strip(e)
            return e[0] == "call" and e[2] == "num_rows" and any(x == ("param", 1) for x in walk(e))
        def is_item(e):
            e = strip(e)
            return e[0] == "field" and e[2] == 0 and any(x[0] == "call" and x[2] == "next" for x in walk(e))
        ends = []
        for bi, si, st in b.stmts():
            if st["k"] == "assign" and st["rv"]["k"] == "agg" and (st["rv"].get("adt") or "").endswith("ops::Range") and len(st["rv"]["fields"]) == 2:
                ends.append((const_usize(strip(d.expr(st["rv"]["fields"][0]))), strip(d.expr(st["rv"]["fields"][1]))))
        sr = [t for _, t, fn in b.calls() if fn and fn["name"] == "swap_rows"]
        if not sr:
            # .. or `let (a, b) = self.row_pair_mut(r, num_rows-1-r); a.swap_with_slice(b)`
            rp = [t for _, t, fn in b.calls() if fn and fn["name"] == "row_pair_mut"]
            sws_ = [t for _, t, fn in b.calls() if fn and fn["path"] == "core::slice::<impl [T]>::swap_with_slice"]
            if len(rp) == 1 and len(sws_) == 1:
                sr = rp
        okr = len(ends) == 1 and ends[0][0] == 0 and ends[0][1][0] == "bin" and ((ends[0][1][1] == "Div" and const_usize(strip(ends[0][1][3])) == 2) or (ends[0][1][1] == "Shr" and const_usize(strip(ends[0][1][3])) == 1)) and is_rows(ends[0][1][2])
        oka = False
        if len(sr) == 1 and len(sr[0]["args"]) == 3:
            a1, a2 = strip(d.expr(sr[0]["args"][1])), strip(d.expr(sr[0]["args"][2]))
            def mirror(x, y):
                # y == num_rows - 1 - x, associated either way
                y = strip(y)
                if not (is_item(x) and y[0] == "bin" and y[1].startswith("Sub")):
                    return False
                l, r = strip(y[2]), strip(y[3])
                if is_item(r) and l[0] == "bin" and l[1].startswith("Sub") and is_rows(l[2]) and const_usize(strip(l[3])) == 1:
                    return True
                if const_usize(r) == 1 and l[0] == "bin" and l[1].startswith("Sub") and is_rows(l[2]) and is_item(l[3]):
                    return True
                return False
            oka = mirror(a1, a2) or mirror(a2, a1)
        ok = okr and oka
        steps = ["swap_rows(r, num_rows-1-r) for r in 0..num_rows/2"] if ok else steps
    R.inst(b.ident, "pairs next() with next_back() of one rows_mut() cursor and swaps the two rows (steps %s)" % sorted(set(steps)), ok)
    if not ok:
        R.fail(b.ident, "shape", "flip_rows no longer swaps the outermost remaining rows pairwise from one rows_mut() cursor (cursors: %d, steps: %s, swap_with_slice: %d)" % (len(cursors), sorted(set(steps)), len(sw)), b.where())
    b = f.get("TranslateOps::flip_cols (provided)")
    if b is None:
        raise AnchorMissing("TranslateOps::flip_cols")
    n += 1
    bodies = [b] + b.closures()
    steps = [s_ for x in bodies for s_ in cursor_steps(x, "RowsMut")]
    rev = [t for x in bodies for _, t, fn in x.calls() if fn and fn["path"] == "core::slice::<impl [T]>::reverse"]
    # `rows_mut().for_each(<[T]>::reverse)`: the function item is the argument of the traversal
    rev += [t for x in bodies for _, t, fn in x.calls() if fn and fn["name"] in ("for_each",) and any(a["k"] == "const" and (a.get("fn") or {}).get("path") == "core::slice::<impl [T]>::reverse" for a in t["args"][1:])]
    adv = set(steps) - {"into_iter"}
    ok = bool(rev) and adv <= {"next", "for_each", "fold"} and bool(adv)
    if not rev and adv <= {"next", "for_each", "fold"} and adv:
        # index form, per row: for c in 0..num_cols()/2 { row.swap(c, num_cols() - 1 - c) }   (also with row.len())
        okm = False
        for x in bodies:
            dx_ = Dfx(x)
            def is_cols(e):
                e = strip(e)
                return e[0] == "call" and e[2] in ("num_cols", "len")
            def is_item_(e):
                e = strip(e)
                return e[0] == "field" and e[2] == 0 and any(y[0] == "call" and y[2] == "next" for y in walk(e))
            ends_ = []
            for _, _, st in x.stmts():
                if st["k"] == "assign" and st["rv"]["k"] == "agg" and (st["rv"].get("adt") or "").endswith("ops::Range") and len(st["rv"]["fields"]) == 2:
                    ends_.append((const_usize(strip(dx_.expr(st["rv"]["fields"][0]))), strip(dx_.expr(st["rv"]["fields"][1]))))
            sws = [t for _, t, fn in x.calls() if fn and fn["path"] == "core::slice::<impl [T]>::swap" and len(t["args"]) == 3]
            if len(ends_) != 1 or len(sws) != 1:
                continue
            e1 = ends_[0][1]
            half = ends_[0][0] == 0 and e1[0] == "bin" and ((e1[1] == "Div" and const_usize(strip(e1[3])) == 2) or (e1[1] == "Shr" and const_usize(strip(e1[3])) == 1)) and is_cols(e1[2])
            a1, a2 = strip(dx_.expr(sws[0]["args"][1])), strip(dx_.expr(sws[0]["args"][2]))
            def mirror_(p_, q_):
                q_ = strip(q_)
                if not (is_item_(p_) and q_[0] == "bin" and q_[1].startswith("Sub")):
                    return False
                l, r = strip(q_[2]), strip(q_[3])
                if is_item_(r) and l[0] == "bin" and l[1].startswith("Sub") and is_cols(l[2]) and const_usize(strip(l[3])) == 1:
                    return True
                return const_usize(r) == 1 and l[0] == "bin" and l[1].startswith("Sub") and is_cols(l[2]) and is_item_(l[3])
            if half and (mirror_(a1, a2) or mirror_(a2, a1)):
                okm = True
        ok = okm
        if not ok:
            # halves form, per row: `let (l, r) = row.split_at_mut(row.len() / 2); l.iter_mut().zip(r.iter_mut().rev()).for_each(|(a, b)| mem::swap(a, b))`
            for x in bodies:
                dx_ = Dfx(x)
                sp = [t for _, t, fn in x.calls() if fn and fn["name"] == "split_at_mut" and len(t["args"]) == 2]
                names_ = [fn["name"] for y in [x] + x.closures() for _, _, fn in y.calls() if fn]
                if len(sp) == 1:
                    m_ = strip(dx_.expr(sp[0]["args"][1]))
                    def _is_len(e_):
                        e_ = strip(e_)
                        return (e_[0] == "call" and e_[2] in ("len", "num_cols")) or e_[0] in ("len", "ptrmeta") or (e_[0] == "un" and e_[1] == "PtrMetadata")

                    def _is_half(e_):
                        e_ = strip(e_)
                        return e_[0] == "bin" and ((e_[1] == "Div" and const_usize(strip(e_[3])) == 2) or (e_[1] == "Shr" and const_usize(strip(e_[3])) == 1)) and _is_len(e_[2])
                    # split at len / 2, or at len - len / 2 (the front half keeps the middle cell of an odd row; zip stops at the shorter)
                    half = _is_half(m_) or (m_[0] == "bin" and m_[1].startswith("Sub") and _is_len(m_[2]) and _is_half(m_[3]))
                    swp = any(fn and fn["path"] in ("core::mem::swap", "core::ptr::swap") for y in bodies for _, _, fn in y.calls())
                    if half and names_.count("rev") == 1 and "zip" in names_ and swp:
                        ok = True
    R.inst(b.ident, "reverses every row of rows_mut() (cursor advanced only by %s)" % sorted(adv), ok)
    if not ok:
        R.fail(b.ident, "shape", "flip_cols does not reverse every row (steps %s, reverse calls %d)" % (sorted(adv), len(rev)), b.where())
    return R, n


def r_conv(f):
    """conversions move the Vec whole; From<view> copies view.rows() in order with the view's own dimensions;
    Clone/PartialEq/Eq/Hash of TooDee are compiler-derived over the struct's fields"""
    R = Result("R-CONV")
    n = 0
    td = [a for a in f.adts if a["id"].split("::")[-1] == "TooDee"][0]
    di = [x["name"] for x in td["fields"]].index("data")
    # into_iter / From<TooDee> for Vec / Box
    for ident, allowed in (("TooDee as IntoIterator::into_iter", ("into_iter",)), ("Vec as From<toodee::TooDee<T>>::from", ()), ("Box as From<toodee::TooDee<T>>::from", ("into_boxed_slice",))):
        b = f.get(ident)
        if b is None:
            raise AnchorMissing(ident)
        n += 1
        d = Dfx(b)
        calls = [(t, fn) for _, t, fn in b.calls() if fn]
        names = [fn["name"] for _, fn in calls]
        ret_ok = True
        if calls:
            t, fn = calls[0]
            a0 = strip(d.expr(t["args"][0]))
            ret_ok = a0 == ("field", ("param", 1), di)
        else:
            # _0 = move (_1.data)
            e = strip(d.local_expr(0))
            ret_ok = e == ("field", ("param", 1), di)
        ok = ret_ok and all(nm in allowed for nm in names) and len(names) <= 1 and not b.has_loop()
        if not ok and not b.has_loop() and calls:
            # .. or hands the whole array to the crate's own (judged) conversion into a Vec first: `Box::from(Vec::from(toodee))`,
            # `Vec::from(self).into_iter()`
            t0, fn0 = calls[0]
            cb0 = f.crate_fn_for_call(fn0)
            a00 = strip(d.expr(t0["args"][0])) if t0["args"] else None
            if cb0 is not None and cb0.ident == "Vec as From<toodee::TooDee<T>>::from" and a00 == ("param", 1) and len(calls) <= 2 and ident != cb0.ident:
                rest = [fn_["name"] for _, fn_ in calls[1:]]
                ok = all(nm in ("from", "into", "into_boxed_slice", "into_iter") for nm in rest)
        R.inst(b.ident, "moves the backing Vec whole (%s)" % (names or "field move"), ok)
        if not ok:
            R.fail(b.ident, "not-whole-move", "%s no longer moves the array's Vec whole (calls %s): cells could be reordered, dropped or duplicated on conversion" % (b.ident, names), b.where())
    # From<view>
    for who in ("TooDeeView", "TooDeeViewMut"):
        b0 = f.get("TooDee as From<view::%s<T>>::from" % who)
        if b0 is None:
            raise AnchorMissing("From<%s> for TooDee" % who)
        n += 1
        # a conversion that only forwards the view to a crate helper is judged on the helper's body
        b, vp = b0, 1
        for _ in range(2):
            cs = [(t, fn) for _, t, fn in b.calls() if fn]
            if len(cs) == 1 and not b.has_loop():
                hb = f.crate_fn_for_call(cs[0][1])
                dd = Dfx(b)
                pos = [i for i, a in enumerate(cs[0][0]["args"]) if any(x == ("param", vp) for x in walk(strip(dd.expr(a))))]
                if hb is not None and hb.kind != "Closure" and len(pos) == 1 and cs[0][0]["dest"]["local"] == 0 and not cs[0][0]["dest"]["proj"]:
                    b, vp = hb, pos[0] + 1
                    continue
            break
        # `TooDee::from(TooDeeView::from(view_mut))`: the mutable view is first downgraded by the crate's own view -> view
        # conversion (its fields are checked by R-UNITS / R-LAYOUT), then copied like any read-only view
        cs2 = [(t, fn) for _, t, fn in b.calls() if fn]
        if len(cs2) == 2 and not b.has_loop():
            hb1, hb2 = f.crate_fn_for_call(cs2[0][1]), f.crate_fn_for_call(cs2[1][1])
            dd = Dfx(b)
            if hb1 is not None and hb2 is not None and hb1.name == "from" and hb1.self_head == "TooDeeView" and hb2.name == "from" and hb2.self_head == "TooDee" \
                    and strip(dd.expr(cs2[0][0]["args"][0])) == ("param", vp) and cs2[1][0]["dest"]["local"] == 0:
                a2 = strip(dd.expr(cs2[1][0]["args"][0]))
                if a2[0] == "call" and a2[2] == "from" and strip(a2[3][0]) == ("param", vp):
                    b, vp = hb2, 1
                    # .. which may itself only forward to a helper
                    for _ in range(2):
                        cs = [(t, fn) for _, t, fn in b.calls() if fn]
                        if len(cs) == 1 and not b.has_loop():
                            hb = f.crate_fn_for_call(cs[0][1])
                            dd = Dfx(b)
                            pos = [i for i, a in enumerate(cs[0][0]["args"]) if any(x == ("param", vp) for x in walk(strip(dd.expr(a))))]
                            if hb is not None and hb.kind != "Closure" and len(pos) == 1 and cs[0][0]["dest"]["local"] == 0 and not cs[0][0]["dest"]["proj"]:
                                b, vp = hb, pos[0] + 1
                                continue
                        break
        d = Dfx(b)
        clos = [c for c in f.fn_bodies if c.kind == "Closure" and c.d.get("root") == b.id]
        steps = cursor_steps(b, "Rows")
        ext = [t for bb in [b] + clos for _, t, fn in bb.calls() if fn and fn["name"] in ("extend_from_slice", "extend")]
        rows_calls = [t for _, t, fn in b.calls() if fn and fn["name"] in ("rows",)]
        front = (set(steps) - {"into_iter"} <= {"next"} and "next" in steps) or (set(steps) - {"into_iter"} == {"for_each"} and steps.count("for_each") == 1)
        ok = len(rows_calls) == 1 and front and len(ext) == 1
        if ok:
            recv = strip(d.expr(rows_calls[0]["args"][0]))
            ok = any(x == ("param", vp) for x in walk(recv))
        if not ok and not rows_calls and len(ext) == 1:
            # counted form: `for r in 0..view.num_rows() { v.extend_from_slice(view.get_unchecked_row(r) | &view[r]) }`
            from .rules_serde import size_components
            smap_ = size_components(f)
            def is_rows_count(e):
                e = strip(e)
                if e[0] == "call" and e[2] == "num_rows" and any(x == ("param", vp) for x in walk(e)): return True
                return e[0] == "field" and strip(e[1])[0] == "call" and strip(e[1])[2] == "size" and smap_.get(e[2]) == "num_rows" and any(x == ("param", vp) for x in walk(e))
            rng_ok = False
            for _, _, st_ in b.stmts():
                if st_["k"] == "assign" and st_["rv"]["k"] == "agg" and st_["rv"].get("agg") == "adt" and st_["rv"]["adt"].endswith("ops::Range"):
                    fs_ = [strip(d.expr(x)) for x in st_["rv"]["fields"]]
                    rng_ok = len(fs_) == 2 and const_usize(fs_[0]) == 0 and is_rows_count(fs_[1])
            rev_ = any(fn and fn["name"] in ("rev", "next_back", "rfold", "nth_back", "step_by", "skip") for _, _, fn in b.calls())
            fetch = [t for _, t, fn in b.calls() if fn and fn["name"] in ("get_unchecked_row", "index") and len(t["args"]) == 2]
            fetch_ok = len(fetch) == 1 and any(x == ("param", vp) for x in walk(strip(d.expr(fetch[0]["args"][0]))))
            if fetch_ok:
                ie = strip(d.expr(fetch[0]["args"][1]))
                fetch_ok = any(x[0] == "call" and x[2] == "next" and "Range<usize>" in " ".join((x[4] or {}).get("args", []) if len(x) > 4 and isinstance(x[4], dict) else []) for x in walk(ie))
            ok = rng_ok and fetch_ok and not rev_
        R.inst(b0.ident, "copies view.rows() front to back with extend_from_slice (steps %s%s)" % (sorted(set(steps)), "" if b is b0 else ", in helper %s" % b.ident), ok)
        if not ok:
            R.fail(b0.ident, "rows-order", "From<%s> does not append the rows of the given view front to back" % who, b.where())
        # dimensions come from the getters of the same view (struct literal, or a constructor call with named parameters)
        for _, t2, fn2 in b.calls():
            cb2 = f.crate_fn_for_call(fn2) if fn2 else None
            if cb2 is None or cb2.self_head != "TooDee" or cb2.name not in ("from_vec", "from_box", "init", "new"):
                continue
            pn2 = cb2.param_names()
            for ai, a in enumerate(t2["args"]):
                nm = pn2.get(ai + 1)
                if nm not in ("num_cols", "num_rows"):
                    continue
                e = strip(d.expr(a))
                okd = e[0] == "call" and e[2] == nm and any(x == ("param", vp) for x in walk(e))
                n += 1
                R.inst(b0.ident, "%s(.. %s = view.%s() ..)" % (cb2.name, nm, nm), okd)
                if not okd:
                    R.fail(b0.ident, "dims:%s" % nm, "From<%s>: %s receives %s for its parameter %s, not the view's own %s()" % (who, cb2.ident, show(e), nm, nm), b.where(t2["span"]))
        for bi, si, st in b.stmts():
            if st["k"] == "assign" and st["rv"]["k"] == "agg" and st["rv"].get("agg") == "adt" and st["rv"]["adt"].endswith("TooDee"):
                fnames = st["rv"]["fields_names"]
                from .rules_serde import size_components
                smap = size_components(f)          # component of size() -> getter it returns
                for nm in ("num_cols", "num_rows"):
                    e = strip(d.expr(st["rv"]["fields"][fnames.index(nm)]))
                    okd = e[0] == "call" and e[2] == nm and any(x == ("param", vp) for x in walk(e))
                    if not okd and e[0] == "field" and strip(e[1])[0] == "call" and strip(e[1])[2] == "size" and smap.get(e[2]) == nm and any(x == ("param", vp) for x in walk(e)):
                        okd = True
                    n += 1
                    R.inst(b0.ident, "field %s = view.%s()" % (nm, nm), okd)
                    if not okd:
                        R.fail(b0.ident, "dims:%s" % nm, "From<%s>: field %s is %s, not the view's own %s()" % (who, nm, show(e), nm), b.where(st["span"]))
    # constructors that take the cells from the caller reject a buffer of the wrong length for every input: the length guard
    # (a comparison with data.len() whose failing edge panics) dominates every normal return
    from .rules_guard import G
    for ident, ops_ok in (("TooDee::from_vec", ("Eq",)), ("TooDeeView::new", ("Le", "Lt", "Ge", "Gt", "Eq")), ("TooDeeViewMut::new", ("Le", "Lt", "Ge", "Gt", "Eq"))):
        b = f.get(ident)
        if b is None:
            raise AnchorMissing(ident)
        n += 1
        g = G(b, f)
        dom = b.dominators()
        lg = [(gbi, okb) for (gbi, op, lo, ro, okb) in g.guards() if op in ops_ok and "len(" in (show(lo) + " " + show(ro))]
        if ident != "TooDee::from_vec":
            # the window taken from the caller's slice by a CHECKED std primitive is a length guard as well: `data.split_at(size)`,
            # `&data[..size]` (panic when size > len), `data.get(..size)` / `get_mut(..size)` whose None arm panics
            dgl = Dfx(b)
            slice_params = [i for i in range(1, b.arg_count + 1) if re.match(r"^&('\S+ )?(mut )?\[", str(b.locals[i]))]
            for bi_, t_, fn_ in b.calls():
                if not (fn_ and t_["args"] and "slice" in (fn_.get("path") or "") + " " + " ".join(fn_.get("args") or []) or (fn_ and fn_["name"] in ("index", "index_mut"))):
                    continue
                recv_ = dgl.expr(t_["args"][0])
                if not any(x == ("param", sp_) for sp_ in slice_params for x in walk(recv_)):
                    continue
                if fn_["name"] in ("split_at", "split_at_mut") or (fn_["name"] in ("index", "index_mut") and "Range" in " ".join(fn_.get("args") or [])):
                    if t_.get("target") is not None:
                        lg.append((bi_, t_["target"]))
                elif fn_["name"] in ("get", "get_mut", "split_at_checked", "split_at_mut_checked") and t_.get("target") is not None:
                    # the switch on the Option: the None arm must diverge
                    for sb_, bl_ in enumerate(b.blocks):
                        tt_ = bl_["term"]
                        if tt_ and tt_["k"] == "switch" and not bl_["cleanup"]:
                            e_ = strip(dgl.expr(tt_["discr"]))
                            if e_[0] == "discr" and strip(e_[1])[0] == "call" and strip(e_[1])[2] == fn_["name"]:
                                tm_ = dict((int(a_), b2) for a_, b2 in tt_["targets"])
                                none_t = tm_.get(0)
                                some_t = tm_.get(1, tt_["otherwise"])
                                if none_t is not None and g.diverges(none_t) and some_t is not None and not g.diverges(some_t):
                                    lg.append((sb_, some_t))
        rets = [rb for rb, bl in enumerate(b.blocks) if bl["term"] and bl["term"]["k"] == "return" and not bl["cleanup"] and rb in b.reachable(0)]
        byp = [rb for rb in rets if not any(okb == rb or okb in dom.get(rb, set()) for _, okb in lg)]
        ok = bool(lg) and not byp
        if not lg:
            # the guard may live in a private helper that receives data.len(): its own guard must dominate its returns, and the
            # helper call every return here
            d = Dfx(b)
            for bi, t, fn in b.calls():
                hb = f.crate_fn_for_call(fn) if fn else None
                if hb is None or hb.kind == "Closure" or hb.trait_provided or hb.impl_trait:
                    continue
                lens = [i for i, a in enumerate(t["args"]) if any(x[0] == "call" and x[2] == "len" for x in walk(d.expr(a)))]
                if not lens:
                    continue
                hg, hdom = G(hb, f), hb.dominators()
                hl = [(gbi, okb) for (gbi, op, lo, ro, okb) in hg.guards() if op in ops_ok and any(x == ("param", lens[0] + 1) for x in list(walk(lo)) + list(walk(ro)))]
                hrets = [rb for rb, bl in enumerate(hb.blocks) if bl["term"] and bl["term"]["k"] == "return" and not bl["cleanup"] and rb in hb.reachable(0)]
                hbyp = [rb for rb in hrets if not any(okb == rb or okb in hdom.get(rb, set()) for _, okb in hl)]
                if hl and not hbyp and all(bi == rb or bi in dom.get(rb, set()) for rb in rets):
                    ok = True
                    lg = [(bi, t["target"])]
                    byp = []
        R.inst(b.ident, "the data-length guard dominates every normal return (%d guards)" % len(lg), ok)
        if not ok:
            R.fail(b.ident, "len-guard", "%s can return normally without having compared the dimensions with data.len() (%s): a buffer of the wrong length is accepted for some input instead of panicking" % (b.ident, "an early return precedes the check" if lg else "no such guard"), b.where())
    # a crate type returned by the by-value into_iter (a forwarding wrapper around vec::IntoIter): each of its iterator methods
    # forwards within its own direction family - a back-family method (next_back, nth_back, rfold ..) that steps the inner
    # iterator from the front (or the reverse) yields the cells in the wrong order
    from .rules_cursor import FRONT_NAMES, BACK_NAMES
    ib = f.get("TooDee as IntoIterator::into_iter")
    if ib is not None and ib.locals:
        rty = norm_ty(str(ib.locals[0]))
        wname = head(rty)
        if wname and any(a["id"].split("::")[-1] == wname for a in f.adts):
            for wb in f.fn_bodies:
                if wb.kind == "Closure" or wb.self_head != wname or wb.trait_head not in ("Iterator", "DoubleEndedIterator") or not wb.blocks:
                    continue
                n += 1
                fam = "back" if wb.trait_head == "DoubleEndedIterator" else "front"
                wd = Dfx(wb)
                wrong = []
                for _, t_, fn_ in wb.calls():
                    if not (fn_ and t_["args"]):
                        continue
                    nm_ = fn_["name"]
                    recv = wd.expr(t_["args"][0])
                    on_inner = any(isinstance(x, tuple) and x[0] == "field" and strip(x[1]) in (("param", 1), ("deref", ("param", 1))) for x in walk(recv))
                    if not on_inner:
                        continue
                    if (fam == "back" and nm_ in FRONT_NAMES and nm_ not in ("count",)) or (fam == "front" and nm_ in BACK_NAMES and wb.name != "last"):
                        wrong.append(nm_)
                R.inst(wb.ident, "forwards to the inner iterator within the %s family" % fam, not wrong)
                for nm_ in wrong[:1]:
                    R.fail(wb.ident, "forward:%s->%s" % (wb.name, nm_), "%s (a %s-end method) steps the wrapped iterator with %s, i.e. from the other end: the cells come out in the wrong order" % (wb.ident, fam, nm_), wb.where())
    # derive provenance
    for tr in ("Clone::clone", "PartialEq::eq", "Hash::hash"):
        b = f.get("TooDee as %s" % tr)
        if b is None:
            raise AnchorMissing("TooDee as %s" % tr)
        n += 1
        if b.d.get("derived"):
            R.inst(b.ident, "compiler-derived (automatically_derived) over the struct's fields", True)
            continue
        # hand-written: decided structurally over the three fields
        d = Dfx(b)
        tdf = [a for a in f.adts if a["id"].split("::")[-1] == "TooDee"][0]
        fidx = {x["name"]: i for i, x in enumerate(tdf["fields"])}
        three = ("data", "num_rows", "num_cols")

        def field_reads(par):
            got = set()
            for bb in [b] + b.closures():
                for bl in bb.blocks:
                    for pl in _all_places([bl["stmts"], bl["term"]]):
                        if bb is b and pl["local"] == par:
                            for pe in pl["proj"]:
                                if pe["k"] == "field":
                                    got.add(pe["i"]); break
            # getters on the parameter
            for _, t, fn in b.calls():
                if fn and fn["name"] in ("size", "num_rows", "num_cols", "data") and t["args"]:
                    e = strip(d.expr(t["args"][0]))
                    if any(x == ("param", par) for x in walk(e)):
                        got |= {fidx[nm] for nm in ({"size": ("num_rows", "num_cols"), "num_rows": ("num_rows",), "num_cols": ("num_cols",), "data": ("data",)}[fn["name"]])}
            return got
        if tr == "Clone::clone":
            okc = False
            for _, _, st in b.stmts():
                if st["k"] == "assign" and st["rv"]["k"] == "agg" and st["rv"].get("agg") == "adt" and st["rv"]["adt"].endswith("TooDee"):
                    fn_ = st["rv"]["fields_names"]
                    okc = True
                    for nm in three:
                        e = strip(d.expr(st["rv"]["fields"][fn_.index(nm)]))
                        src_ok = any(x[0] == "field" and x[2] == fidx[nm] and strip(x[1]) in (("deref", ("param", 1)), ("param", 1)) for x in walk(e))
                        if nm == "data" and not (src_ok and e[0] == "call" and e[2] in ("clone", "to_vec", "to_owned")):
                            # a fresh Vec (`Vec::with_capacity(..)` / `Vec::new()`) filled by exactly one whole-buffer transfer from
                            # self.data (`extend_from_slice(&self.data)`, `extend(self.data.iter().cloned())`, `clone_from(&self.data)`)
                            fresh = e[0] == "call" and e[2] in ("with_capacity", "new") and "Vec" in str(e[1])
                            o_ = st["rv"]["fields"][fn_.index(nm)]
                            vl = o_["p"]["local"] if o_["k"] in ("copy", "move") and not o_["p"]["proj"] else None
                            fills, others = [], []
                            for _, t2, fn2 in b.calls():
                                if not (fn2 and t2["args"]):
                                    continue
                                r0 = strip(d.expr(t2["args"][0]))
                                tgt_ = r0[1] if r0[0] in ("ref", "refmut") else None
                                on_v = fresh and r0[0] in ("ref", "refmut") and strip(r0[1]) == e
                                if not on_v:
                                    continue
                                if fn2["name"] in ("extend_from_slice", "extend", "clone_from", "extend_from_within") and len(t2["args"]) > 1:
                                    srcx = d.expr(t2["args"][1])
                                    whole_src = any(x[0] == "field" and x[2] == fidx["data"] and strip(x[1]) in (("deref", ("param", 1)), ("param", 1)) for x in walk(srcx)) \
                                        and not any(isinstance(x, tuple) and x[0] == "call" and x[2] in ("index", "get", "get_unchecked", "split_at", "skip", "take", "step_by", "rev", "chunks") for x in walk(srcx))
                                    (fills if whole_src else others).append(fn2["name"])
                                elif fn2["name"] not in ("len", "capacity", "is_empty", "as_ptr", "reserve", "reserve_exact"):
                                    others.append(fn2["name"])
                            src_ok = fresh and len(fills) == 1 and not others
                        elif nm == "data":
                            pass
                        else:
                            src_ok = src_ok and e[0] == "field"
                        okc = okc and src_ok
            R.inst(b.ident, "hand-written clone builds TooDee { data: self.data.clone(), num_rows: self.num_rows, num_cols: self.num_cols }", okc)
            if not okc:
                R.fail(b.ident, "clone-fields", "%s is hand-written and does not build every field of the copy from the same field of the original: clone() no longer yields an equal array" % b.ident, b.where())
            # an overridden clone_from must leave self equal to the source on every path: all three fields written, or *self = ..
            cf = f.get("TooDee as Clone::clone_from")
            if cf is not None:
                n += 1
                fw = {}
                for bi, bl in enumerate(cf.blocks):
                    w = set()
                    for st in bl["stmts"]:
                        if st["k"] != "assign":
                            continue
                        pl = st["p"]
                        if pl["local"] == 1 and pl["proj"] and pl["proj"][0]["k"] == "deref":
                            if len(pl["proj"]) == 1:
                                w |= set(fidx.values())
                            elif pl["proj"][1]["k"] == "field":
                                w.add(pl["proj"][1]["i"])
                        rv = st["rv"]
                        if rv["k"] in ("ref", "rawptr") and rv.get("mut", rv["k"] == "rawptr") and rv["p"]["local"] == 1 and len(rv["p"]["proj"]) >= 2 and rv["p"]["proj"][1]["k"] == "field":
                            w.add(rv["p"]["proj"][1]["i"])
                    fw[bi] = w
                # forward must-analysis: fields written on every path
                IN = {0: set()}
                work = [0]
                allf = set(fidx.values())
                while work:
                    x = work.pop()
                    out = IN[x] | fw.get(x, set())
                    for y in cf.succs(x):
                        if cf.blocks[y]["cleanup"]:
                            continue
                        new = out if y not in IN else (IN[y] & out)
                        if y not in IN or new != IN[y]:
                            IN[y] = set(new); work.append(y)
                rets = [rb for rb, bl in enumerate(cf.blocks) if bl["term"] and bl["term"]["k"] == "return" and not bl["cleanup"] and rb in IN]
                missing = sorted({nm for rb in rets for nm in three if fidx[nm] not in (IN[rb] | fw.get(rb, set()))})
                R.inst(cf.ident, "clone_from writes data, num_rows and num_cols (or the whole array) on every path", not missing)
                if missing:
                    R.fail(cf.ident, "clone_from-fields:%s" % ",".join(missing), "%s can return without having written %s: after a.clone_from(&b) the array is not equal to b for some pair of shapes" % (cf.ident, ", ".join(missing)), cf.where())
        elif tr == "PartialEq::eq":
            r1, r2 = field_reads(1), field_reads(2)
            miss = sorted(nm for nm in three if fidx[nm] not in r1 or fidx[nm] not in r2)
            R.inst(b.ident, "hand-written eq looks at data, num_rows and num_cols of both operands", not miss)
            if miss:
                R.fail(b.ident, "eq-fields:%s" % ",".join(miss), "%s is hand-written and never looks at %s of both operands: arrays that differ there compare equal" % (b.ident, ", ".join(miss)), b.where())
            # an overridden `ne` is the negation of `eq`: it calls eq, or it looks at the same three fields of both operands
            nb = f.get("TooDee as PartialEq::ne")
            if nb is not None and nb.blocks and not nb.d.get("derived"):
                n += 1
                calls_eq = any(fn_ and fn_["name"] == "eq" and f.crate_fn_for_call(fn_) is not None and f.crate_fn_for_call(fn_).ident == "TooDee as PartialEq::eq" for _, _, fn_ in nb.calls())
                got_ = {1: set(), 2: set()}
                for bl_ in nb.blocks:
                    for pl in _all_places([bl_["stmts"], bl_["term"]]):
                        if pl["local"] in (1, 2):
                            for pe in pl["proj"]:
                                if pe["k"] == "field":
                                    got_[pl["local"]].add(pe["i"]); break
                lacking_ = sorted(nm for nm in three if fidx[nm] not in got_[1] or fidx[nm] not in got_[2])
                okn = calls_eq or not lacking_
                R.inst(nb.ident, "an overridden ne is !eq (calls eq, or examines data, num_rows and num_cols of both operands)", okn)
                if not okn:
                    R.fail(nb.ident, "ne-fields:%s" % ",".join(lacking_), "%s is overridden and never looks at %s of both operands: for arrays that differ only there `a != b` and `a == b` are both false" % (nb.ident, ", ".join(lacking_)), nb.where())
            if miss:
                pass
            else:
                # path-wise: wherever the answer is a literal `true`, all three fields of both operands have been looked at on the way
                # (a shortcut on the buffer's address - equal for all zero-sized / empty buffers - or on one field is not equality)
                def reads_in(bi_):
                    got = set()
                    bl_ = b.blocks[bi_]
                    for pl in _all_places([bl_["stmts"], bl_["term"]]):
                        if pl["local"] in (1, 2):
                            for pe in pl["proj"]:
                                if pe["k"] == "field":
                                    got.add((pl["local"], pe["i"])); break
                    return got
                IN = {0: set()}
                work = [0]
                while work:
                    x = work.pop()
                    out = IN[x] | reads_in(x)
                    for y in b.succs(x):
                        if b.blocks[y]["cleanup"]:
                            continue
                        new_ = out if y not in IN else (IN[y] & out)
                        if y not in IN or new_ != IN[y]:
                            IN[y] = set(new_); work.append(y)
                short = []
                for bi_, si_, st_ in b.stmts():
                    if bi_ in IN and st_["k"] == "assign" and st_["p"]["local"] == 0 and not st_["p"]["proj"] and st_["rv"]["k"] == "use" and st_["rv"]["o"]["k"] == "const" and "true" in str(st_["rv"]["o"].get("v", st_["rv"]["o"])):
                        seen_ = IN[bi_] | reads_in(bi_)
                        lacking = sorted(nm for nm in three if (1, fidx[nm]) not in seen_ or (2, fidx[nm]) not in seen_)
                        if lacking:
                            short.append((st_["span"], lacking))
                R.inst(b.ident, "hand-written eq answers `true` only after all three fields of both operands were examined", not short)
                for sp_, lacking in short[:1]:
                    R.fail(b.ident, "eq-shortcut:%s" % ",".join(lacking), "%s answers `true` on a path that never looked at %s of both operands (an address or single-field shortcut): e.g. all zero-sized or empty buffers share one address, so arrays of different shape compare equal while their hashes differ" % (b.ident, ", ".join(lacking)), b.where(sp_))
        else:
            foreign = sorted({fn["name"] for bb in [b] + b.closures() for _, t, fn in bb.calls() if fn and fn["name"] in ("capacity", "as_ptr", "as_mut_ptr", "addr", "spare_capacity_mut", "type_id")})
            R.inst(b.ident, "hand-written hash feeds only the fields that eq compares", not foreign)
            if foreign:
                R.fail(b.ident, "hash-foreign:%s" % ",".join(foreign), "%s is hand-written and hashes %s, which equality does not compare: equal arrays can hash differently" % (b.ident, ", ".join(foreign)), b.where())
    return R, n


def _all_places(x):
    if isinstance(x, dict):
        if "local" in x and "proj" in x:
            yield x
        for v in x.values():
            yield from _all_places(v)
    elif isinstance(x, list):
        for v in x:
            yield from _all_places(v)


def r_intoiter(f):
    R = Result("R-INTOITER")
    n = 0
    want = {"&TooDee": "cells", "&mut TooDee": "cells_mut", "&TooDeeView": "cells", "&TooDeeViewMut": "cells", "&mut TooDeeViewMut": "cells_mut"}
    for b in f.fn_bodies:
        if b.name == "into_iter" and b.self_head in want and b.trait_head == "IntoIterator":
            n += 1
            names = [fn["name"] for _, _, fn in b.calls() if fn]
            ok = names == [want[b.self_head]]
            if not ok and b.self_head in ("&TooDee", "&mut TooDee") and names and names[-1] == "new" and not b.has_loop():
                # cells() / cells_mut() written out: FlattenExact::new(Rows { v: <the whole buffer>, cols: self.num_cols, skip_cols: 0 })
                d_ = Dfx(b)
                tdf_ = [a for a in f.adts if a["id"].split("::")[-1] == "TooDee"][0]
                fx_ = {x["name"]: i for i, x in enumerate(tdf_["fields"])}
                for _, _, st in b.stmts():
                    if st["k"] == "assign" and st["rv"]["k"] == "agg" and st["rv"].get("agg") == "adt" and st["rv"]["adt"].split("::")[-1] == ("Rows" if b.self_head == "&TooDee" else "RowsMut"):
                        vals = {k: strip(d_.expr(v)) for k, v in zip(st["rv"]["fields_names"], st["rv"]["fields"])}
                        core_ = vals.get("v", ("?",))
                        for _i in range(8):
                            if core_[0] in ("ref", "refmut", "deref", "cast"):
                                core_ = strip(core_[1])
                            elif core_[0] == "call" and core_[2] in ("as_slice", "as_mut_slice", "deref", "deref_mut", "data", "data_mut", "as_ref", "as_mut") and core_[3]:
                                core_ = strip(core_[3][0])
                            else:
                                break
                        whole_ = core_ == ("param", 1) or (core_[0] == "field" and core_[2] == fx_["data"])
                        cols_ = vals.get("cols", ("?",))
                        cols_ok = (cols_[0] == "field" and cols_[2] == fx_["num_cols"]) or (cols_[0] == "call" and cols_[2] == "num_cols")
                        ok = whole_ and cols_ok and const_usize(vals.get("skip_cols", ("?",))) == 0 and set(names[:-1]) <= {"as_slice", "as_mut_slice", "deref", "deref_mut", "data", "data_mut", "num_cols"}
            R.inst(b.ident, "resolves to %s()" % want[b.self_head], ok)
            if not ok:
                R.fail(b.ident, "target:%s" % ",".join(names), "IntoIterator for %s calls %s, expected %s()" % (b.self_head, names, want[b.self_head]), b.where())
    for nm, inner in (("cells", "rows"), ("cells_mut", "rows_mut")):
        cands = [b for b in f.fn_bodies if b.name == nm and b.trait_provided]
        for b in cands:
            n += 1
            names = [fn["name"] for _, _, fn in b.calls() if fn]
            ok = names == [inner, "new"]
            R.inst(b.ident, "FlattenExact::new(self.%s())" % inner, ok)
            if not ok:
                R.fail(b.ident, "shape:%s" % ",".join(names), "%s is no longer FlattenExact::new(self.%s())" % (b.ident, inner), b.where())
    b = f.get("FlattenExact::new")
    if b is None:
        raise AnchorMissing("FlattenExact::new")
    n += 1
    d = Dfx(b)
    okn = False
    for bi, si, st in b.stmts():
        if st["k"] == "assign" and st["rv"]["k"] == "agg" and st["rv"].get("agg") == "adt" and st["rv"]["adt"].endswith("FlattenExact"):
            fn_ = st["rv"]["fields_names"]
            vals = {k: strip(d.expr(v)) for k, v in zip(fn_, st["rv"]["fields"])}
            okn = vals.get("iter") == ("param", 1) and all(vals.get(k, ("?",))[0] == "agg" and vals[k][1].endswith("Option::None") for k in ("frontiter", "backiter"))
    R.inst(b.ident, "starts with iter = the given row iterator and both partial rows None", okn)
    if not okn:
        R.fail(b.ident, "init", "FlattenExact::new does not start with both partial rows empty", b.where())
    b = f.get("FlattenExact as Iterator::last")
    if b is not None:
        n += 1
        names = [fn["name"] for _, _, fn in b.calls() if fn]
        ok = names == ["next_back"]
        R.inst(b.ident, "last() is next_back()", ok)
        if not ok:
            R.fail(b.ident, "last", "FlattenExact::last calls %s" % names, b.where())
    # fold / rfold chain order front, rows, back
    for nm in ("fold", "rfold"):
        b = f.get("FlattenExact as %s::%s" % ("Iterator" if nm == "fold" else "DoubleEndedIterator", nm))
        if b is None:
            continue
        n += 1
        d = Dfx(b)
        chains = [(bi, t) for bi, t, fn in b.calls() if fn and fn["name"] == "chain"]
        okc = len(chains) == 2
        if okc:
            names = fe_field_names(f)
            def fieldname(e):
                for x in walk(e):
                    if x[0] == "field" and strip(x[1]) in (("param", 1),) and x[2] < len(names):
                        return names[x[2]]
                return None
            first = strip(d.expr(chains[0][1]["args"][0])), strip(d.expr(chains[0][1]["args"][1]))
            second = strip(d.expr(chains[1][1]["args"][1]))
            order = [fieldname(first[0]), fieldname(first[1]), fieldname(second)]
            okc = order == ["frontiter", "iter", "backiter"]
        else:
            order = None
        fin = [fn["name"] for _, _, fn in b.calls() if fn and fn["name"] in ("fold", "rfold") and "Chain" in " ".join(fn.get("args", []) + [fn.get("self_ty") or "", fn.get("resolved") or ""])]
        okc = okc and fin == [nm]
        if not okc and not chains:
            # the same traversal written as three consecutive folds: the partial row at the leading end, the untouched rows
            # (each folded in the same direction inside the closure), the partial row at the trailing end
            names = fe_field_names(f)
            folds = []
            for bi, t, fn in b.calls():
                if fn and fn["name"] in ("fold", "rfold", "try_fold", "try_rfold", "for_each"):
                    fld = None
                    for x in walk(strip(d.expr(t["args"][0]))):
                        if x[0] == "field" and strip(x[1]) == ("param", 1) and x[2] < len(names):
                            fld = names[x[2]]
                    folds.append((bi, fn["name"], fld))
            want = ["frontiter", "iter", "backiter"] if nm == "fold" else ["backiter", "iter", "frontiter"]
            seq_ok = len(folds) == 3 and all(x[1] == nm for x in folds) and sorted(x[2] or "?" for x in folds) == sorted(want)
            if seq_ok:
                blk = {x[2]: x[0] for x in folds}
                for a, c in ((want[0], want[1]), (want[1], want[2])):
                    # a's call precedes c's on every path: c is reachable from a, a is not reachable from c
                    seq_ok = seq_ok and blk[c] in b.reachable(blk[a]) and blk[a] not in b.reachable(blk[c]) and blk[a] != blk[c]
            inner = [fn2["name"] for c in f.fn_bodies if c.kind == "Closure" and c.d.get("root") == b.id for _, _, fn2 in c.calls() if fn2 and fn2["name"] in ("fold", "rfold", "try_fold", "try_rfold", "for_each", "next", "next_back", "rev")]
            seq_ok = seq_ok and inner == [nm]
            if seq_ok:
                okc, order, fin = True, want, ["%s x3 in sequence, rows closure folds with %s" % (nm, nm)]
        R.inst(b.ident, "chains %s and folds with %s" % (order, fin), okc)
        if not okc:
            R.fail(b.ident, "chain", "%s chains %s and finishes with %s; expected frontiter, iter, backiter folded with %s" % (b.ident, order, fin, nm), b.where())
    R.require_floor(n, 8, "IntoIterator / adaptor construction sites")
    return R, n


def fe_field_names(f):
    for a in f.adts:
        if a["id"].split("::")[-1] == "FlattenExact":
            return [x["name"] for x in a["fields"]]
    return []


def r_sortkey(f):
    """s3: the key line is read from the argument's own axis"""
    R = Result("R-SORTKEY")
    if "sort" not in cfg_features(f):
        return R, 0
    n = 0
    for core, axis in (("sort_by_row", "row"), ("sort_unstable_by_row", "row"), ("sort_by_col", "col"), ("sort_unstable_by_col", "col")):
        b = f.get("SortOps::%s (provided)" % core)
        if b is None:
            raise AnchorMissing("SortOps::" + core)
        n += 1
        # the read may sit in a private helper that receives (self, index): map the helper's parameters back to the method's
        reached = [(b, {i: i for i in range(1, b.arg_count + 1)})]
        for hb, pm in list(reached):
            hd = Dfx(hb)
            for _, t, fn in hb.calls():
                cb = f.crate_fn_for_call(fn) if fn else None
                if cb is None or cb.kind == "Closure" or cb.trait_provided or cb.impl_trait or any(cb is x for x, _ in reached) or len(reached) > 4:
                    continue
                m2 = {}
                for ai, a in enumerate(t["args"]):
                    e = strip(hd.expr(a))
                    while e[0] in ("ref", "refmut", "deref"):
                        e = strip(e[1])
                    if e[0] == "param" and e[1] in pm:
                        m2[ai + 1] = pm[e[1]]
                reached.append((cb, m2))
        def origin(hd, pm, o):
            e = strip(hd.expr(o))
            while e[0] in ("ref", "refmut", "deref"):
                e = strip(e[1])
            return pm.get(e[1]) if e[0] == "param" else None
        src = []
        for hb, pm in reached:
            hd = Dfx(hb)
            for _, t, fn in hb.calls():
                if axis == "row" and fn and fn["path"] == "core::ops::Index::index" and "usize" in " ".join(fn.get("args", [])):
                    src.append((origin(hd, pm, t["args"][0]), origin(hd, pm, t["args"][1])))
                if axis == "col" and fn and fn["name"] == "col" and (fn.get("trait") or "").endswith("TooDeeOps"):
                    src.append((origin(hd, pm, t["args"][0]), origin(hd, pm, t["args"][1])))
        if axis == "row":
            ok = len(src) >= 1 and all(x == (1, 2) for x in src)
            what = "self[row]"
        else:
            ok = len(src) == 1 and src[0] == (1, 2)
            what = "self.col(col)"
            if not src:
                # the same cells gathered row by row: self.rows().map(|r| &r[col]) with `col` captured from the method's own index
                rows_ok, idx_ok = False, False
                for hb, pm in reached:
                    hd = Dfx(hb)
                    for _, t, fn in hb.calls():
                        if fn and fn["name"] == "rows" and (fn.get("trait") or "").endswith("TooDeeOps") and origin(hd, pm, t["args"][0]) == 1:
                            rows_ok = True
                    # closures created here: captured field i <- origin
                    for _, _, st in hb.stmts():
                        if st["k"] == "assign" and st["rv"]["k"] == "agg" and st["rv"].get("agg") == "closure":
                            caps = [origin(hd, pm, o) for o in st["rv"]["fields"]]
                            cb_ = f.by_id.get(st["rv"].get("def"))
                            if cb_ is None:
                                continue
                            cd = Dfx(cb_)
                            for _, t2, fn2 in cb_.calls():
                                if fn2 and fn2["path"] in ("core::ops::Index::index",) and "usize" in " ".join(fn2.get("args", [])):
                                    e = strip(cd.expr(t2["args"][1]))
                                    while e[0] in ("ref", "refmut", "deref"):
                                        e = strip(e[1])
                                    if e[0] == "field" and strip(e[1]) in (("param", 1), ("deref", ("param", 1))) and e[2] < len(caps) and caps[e[2]] == 2:
                                        idx_ok = True
                            # bounds-checked slice indexing `r[col]` may also be an inline BoundsCheck: index operand a captured field
                            for bl in cb_.blocks:
                                tt = bl["term"]
                                if tt and tt["k"] == "assert" and tt.get("kind") == "BoundsCheck":
                                    for x in walk(cd.expr(tt["cond"])) if tt.get("cond") else []:
                                        if x[0] == "field" and strip(x[1]) in (("param", 1), ("deref", ("param", 1))) and x[2] < len(caps) and caps[x[2]] == 2:
                                            idx_ok = True
                ok = rows_ok and idx_ok
                if ok:
                    what = "self.rows().map(|r| &r[col])"
        R.inst(b.ident, "s3 the key line is %s of the given index" % what, ok)
        if not ok:
            R.fail(b.ident, "s3", "%s does not read its key line as %s with its own index parameter" % (b.ident, what), b.where())
    return R, n


def view_contiguous_at(f, b, bi):
    """is the view (`self` of b, a TooDeeView / TooDeeViewMut method) known to be gap-free whenever block bi is reached?
    True when every path from the entry to bi takes the establishing edge of `stride == num_cols`,
    `data.len() == num_cols * num_rows` or `num_rows == 1`."""
    typ = (b.self_head or "").replace("&mut ", "").replace("&", "")
    ad = [a for a in f.adts if a["id"].split("::")[-1] == typ]
    if not ad:
        return False
    fi = {x["name"]: i for i, x in enumerate(ad[0]["fields"])}
    d = Dfx(b)

    def is_self_field(e, name):
        e = strip(e)
        return e[0] == "field" and e[2] == fi.get(name) and strip(e[1]) in (("deref", ("param", 1)), ("param", 1))

    def is_span_len(e):
        e = strip(e)
        if e[0] in ("len", "ptrmeta") or (e[0] == "un" and e[1] == "PtrMetadata") or (e[0] == "call" and e[2] == "len"):
            return any(is_self_field(x, "data") for x in walk(e))
        return False

    def is_area(e):
        e = strip(e)
        return e[0] == "bin" and e[1].startswith("Mul") and ((is_self_field(e[2], "num_cols") and is_self_field(e[3], "num_rows")) or (is_self_field(e[3], "num_cols") and is_self_field(e[2], "num_rows")))
    est = set()
    for sb, bl_ in enumerate(b.blocks):
        tt = bl_["term"]
        if not tt or tt["k"] != "switch" or bl_["cleanup"]:
            continue
        succs = [(int(a_), b2) for a_, b2 in tt["targets"]] + [(None, tt["otherwise"])]
        e_ = strip(d.expr(tt["discr"]))
        neg = False
        while e_[0] == "un" and e_[1] == "Not":
            neg = not neg; e_ = strip(e_[2])
        if e_[0] != "bin" or e_[1] not in ("Eq", "Ne"):
            continue
        l_, r_ = e_[2], e_[3]
        good = (is_self_field(l_, "num_rows") and const_usize(strip(r_)) == 1) or (is_self_field(r_, "num_rows") and const_usize(strip(l_)) == 1) \
            or (is_self_field(l_, "stride") and is_self_field(r_, "num_cols")) or (is_self_field(r_, "stride") and is_self_field(l_, "num_cols")) \
            or (is_span_len(l_) and is_area(r_)) or (is_span_len(r_) and is_area(l_))
        if not good:
            continue
        for v_, sx in succs:
            if v_ is not None and v_ not in (0, 1):
                continue
            truth = (v_ is None and any(x == 0 for x, _ in succs[:-1])) or (v_ == 1)
            if neg:
                truth = not truth
            if (e_[1] == "Eq") == truth:
                est.add((sb, sx))
    if not est:
        return False
    seen_, work_ = set(), [0]
    while work_:
        x = work_.pop()
        if x in seen_:
            continue
        seen_.add(x)
        for y in b.succs(x):
            if (x, y) not in est and not b.blocks[y]["cleanup"]:
                work_.append(y)
    return bi not in seen_


def _whole_range(r):
    """a range aggregate that spans a whole slice: `..`, `0..`, `..s.len()`, `0..s.len()`"""
    if r[0] != "agg":
        return False
    nm = str(r[1])
    parts = [strip(x) for x in r[2]]

    def zero(e):
        return const_usize(e) == 0

    def full_len(e):
        return e[0] in ("len", "ptrmeta") or (e[0] == "un" and e[1] == "PtrMetadata") or (e[0] == "call" and e[2] == "len")
    if nm.endswith("RangeFull"):
        return True
    if nm.endswith("RangeFrom") and len(parts) == 1:
        return zero(parts[0])
    if nm.endswith("RangeTo") and len(parts) == 1:
        return full_len(parts[0])
    if nm.endswith("Range") and len(parts) == 2:
        return zero(parts[0]) and full_len(parts[1])
    return False


def r_fill(f):
    R = Result("R-FILL")
    n = 0
    b = f.get("TooDeeOpsMut::fill (provided)")
    if b is None:
        raise AnchorMissing("TooDeeOpsMut::fill")
    n += 1
    bodies = [b] + b.closures()
    steps = set(s_ for x in bodies for s_ in cursor_steps(x, "RowsMut")) - {"into_iter"}
    fills = [t for x in bodies for _, t, fn in x.calls() if fn and fn["path"] in ("core::slice::<impl [T]>::fill", "core::slice::<impl [T]>::fill_with")]
    ok = steps <= {"next", "for_each", "fold"} and bool(steps) and len(fills) == 1
    R.inst(b.ident, "fills every row of rows_mut() (cursor advanced only by %s)" % sorted(steps), ok)
    if not ok:
        R.fail(b.ident, "shape", "the provided fill does not fill every row of rows_mut() (steps %s, fill calls %d)" % (sorted(steps), len(fills)), b.where())
    b = f.get("TooDee as TooDeeOpsMut::fill")
    if b is not None:
        n += 1
        d = Dfx(b)
        fl = [(t, fn) for _, t, fn in b.calls() if fn and fn["name"] == "fill"]
        ok = len(fl) == 1 and not b.has_loop()
        if ok:
            a0 = strip(fl[0][0]["args"][0] and d.expr(fl[0][0]["args"][0]))
            # the receiver is the buffer itself (`self.data`, `&mut *self.data`, `self.data_mut()`, `self.data.as_mut_slice()`), not a
            # part of it
            core_ = a0
            for _ in range(8):
                if core_[0] in ("ref", "refmut", "deref", "cast"):
                    core_ = strip(core_[1])
                elif core_[0] == "call" and core_[2] in ("deref_mut", "as_mut_slice", "as_mut", "borrow_mut", "data_mut") and core_[3]:
                    core_ = strip(core_[3][0])
                elif core_[0] == "call" and core_[2] in ("index_mut", "get_unchecked_mut") and len(core_[3]) == 2 and _whole_range(strip(core_[3][1])):
                    core_ = strip(core_[3][0])      # `data[..data.len()]`, `data[..]`, `data[0..data.len()]`
                else:
                    break
            ok = core_[0] == "field" or core_ == ("param", 1)
        R.inst(b.ident, "fills the whole backing buffer in one call", ok)
        if not ok:
            R.fail(b.ident, "shape", "TooDee::fill no longer fills the whole buffer", b.where())
    # an override (or an inherent method that hides the trait method) on the mutable view: the view's backing span also holds
    # the cells between its rows (cells of the parent outside the view), so filling the span as a whole is only right when the
    # view is contiguous, and that has to be established by a test that can establish it
    SPAN_MUTATORS = ("fill", "fill_with", "copy_from_slice", "clone_from_slice", "swap_with_slice", "reverse", "rotate_left", "rotate_right",
                     "sort", "sort_by", "sort_by_key", "sort_unstable", "sort_unstable_by", "sort_unstable_by_key", "copy_within", "iter_mut", "chunks_exact_mut")
    ad = [a for a in f.adts if a["id"].split("::")[-1] == "TooDeeViewMut"]
    fi = {x["name"]: i for i, x in enumerate(ad[0]["fields"])} if ad else {}
    for b in f.fn_bodies:
        if not (b.self_head == "TooDeeViewMut" and b.kind != "Closure" and b.blocks and fi):
            continue
        d = Dfx(b)
        dom = b.dominators()

        def is_self_field(e, name):
            e = strip(e)
            return e[0] == "field" and e[2] == fi.get(name) and strip(e[1]) in (("deref", ("param", 1)), ("param", 1))

        def is_span_len(e):
            e = strip(e)
            if e[0] in ("len", "ptrmeta") or (e[0] == "un" and e[1] == "PtrMetadata"):
                return any(is_self_field(x, "data") for x in walk(e))
            return e[0] == "call" and e[2] == "len" and any(is_self_field(x, "data") for x in walk(e))

        def is_area(e):
            e = strip(e)
            return e[0] == "bin" and e[1].startswith("Mul") and ((is_self_field(e[2], "num_cols") and is_self_field(e[3], "num_rows")) or (is_self_field(e[3], "num_cols") and is_self_field(e[2], "num_rows")))
        verdicts = []
        for bi, t, fn in b.calls():
            if not (fn and fn["name"] in SPAN_MUTATORS and "slice" in (fn.get("path") or "") and t["args"]):
                continue
            a0 = strip(d.expr(t["args"][0]))
            # the receiver is the span itself: `&mut *self.data` / `self.data` (not a sub-slice, a row, a chunk ..)
            core_ = a0
            while core_[0] in ("ref", "refmut", "deref", "cast") or (core_[0] == "call" and core_[2] in ("deref_mut", "as_mut", "borrow_mut") and core_[3]):
                core_ = strip(core_[1]) if core_[0] != "call" else strip(core_[3][0])
            if not is_self_field(core_, "data"):
                continue
            # edges that establish contiguity: the true edge of `stride == num_cols`, `data.len() == num_cols * num_rows`,
            # `num_rows == 1` (a single row has no gap) - every path to the call must take one of them
            sound, lossy, conds = False, False, 0
            est_edges = set()
            for sb, bl_ in enumerate(b.blocks):
                tt = bl_["term"]
                if not tt or tt["k"] != "switch" or bl_["cleanup"]:
                    continue
                succs = [(int(a_), b2) for a_, b2 in tt["targets"]] + [(None, tt["otherwise"])]
                e_ = strip(d.expr(tt["discr"]))
                neg = False
                while e_[0] == "un" and e_[1] == "Not":
                    neg = not neg; e_ = strip(e_[2])
                if e_[0] != "bin" or e_[1] not in ("Eq", "Ne"):
                    continue
                l_, r_ = e_[2], e_[3]
                single_row = (is_self_field(l_, "num_rows") and const_usize(strip(r_)) == 1) or (is_self_field(r_, "num_rows") and const_usize(strip(l_)) == 1)
                mentions = single_row or any(is_self_field(x, "stride") or is_span_len(x) for o in (l_, r_) for x in walk(o))
                if not mentions:
                    continue
                conds += 1
                good = single_row or (is_self_field(l_, "stride") and is_self_field(r_, "num_cols")) or (is_self_field(r_, "stride") and is_self_field(l_, "num_cols")) or (is_span_len(l_) and is_area(r_)) or (is_span_len(r_) and is_area(l_))
                if good:
                    for v_, sx in succs:
                        if v_ is not None and v_ not in (0, 1):
                            continue
                        truth = (v_ is None and any(x == 0 for x, _ in succs[:-1])) or (v_ == 1)
                        if neg:
                            truth = not truth
                        if (e_[1] == "Eq") == truth:
                            est_edges.add((sb, sx))
                elif any(isinstance(x, tuple) and x[0] == "bin" and str(x[1]).startswith(("Div", "Rem", "Shr")) for o in (l_, r_) for x in walk(o)):
                    lossy = True
            if est_edges:
                seen_, work_ = set(), [0]
                while work_:
                    x = work_.pop()
                    if x in seen_:
                        continue
                    seen_.add(x)
                    for y in b.succs(x):
                        if (x, y) not in est_edges and not b.blocks[y]["cleanup"]:
                            work_.append(y)
                sound = bi not in seen_
                if not sound and not lossy:
                    conds = max(conds, 1)      # a recognised test exists but does not cover every path: undecided, not "no test"
            verdicts.append((bi, t, fn["name"], sound, lossy, conds))
        if verdicts:
            n += 1
        for bi, t, nm_, sound, lossy, conds in verdicts:
            if sound:
                R.inst(b.ident, "%s() on the view's whole span only under `stride == num_cols` / `data.len() == num_cols * num_rows`" % nm_, True)
            elif lossy or conds == 0:
                R.inst(b.ident, "%s() on the view's whole span only when the view is contiguous" % nm_, False)
                R.fail(b.ident, "span-%s:%s" % (nm_, "lossy-test" if lossy else "no-test"), "%s applies %s() to the view's whole backing span (`self.data`), which also holds the parent's cells between the view's rows, %s: cells outside the view are overwritten or moved" % (b.ident, nm_, "under a test built on a rounding division, which also passes for views that are one column narrower than their parent" if lossy else "without first establishing that the view is contiguous (stride == num_cols)"), b.where(t["span"]))
            else:
                R.inconc(b.ident, "whole-span %s() under a contiguity test that is not one of the recognised forms (undecided)" % nm_)
    return R, n


def r_drainlit(f):
    """the column drain is a Col cursor over exactly the removed column: start = index, extent len - num_cols + 1, skip = num_cols - 1"""
    R = Result("R-DRAINLIT")
    n = 0
    b = f.get("TooDee::remove_col")
    if b is None:
        raise AnchorMissing("TooDee::remove_col")
    d = Dfx(b)
    td = [a for a in f.adts if a["id"].split("::")[-1] == "TooDee"][0]
    fi = {x["name"]: i for i, x in enumerate(td["fields"])}
    pn = b.param_names()

    def is_dim(e, name, depth=0):
        """e is the value the array's dimension `name` had on entry: a read of the field, the result of
        mem::replace / mem::take on it, or the matching component of a crate helper's result tuple that is one of these"""
        e = strip(e)
        if e[0] == "field" and e[2] == fi[name] and strip(e[1]) in (("deref", ("param", 1)), ("param", 1)):
            return True
        if e[0] == "call" and e[1] in ("core::mem::replace", "core::mem::take") and e[3]:
            a = strip(e[3][0])
            return a[0] == "refmut" and is_dim(a[1], name, depth)
        if depth < 2 and e[0] == "field" and strip(e[1])[0] == "call":
            c = strip(e[1])
            hb = f.crate_fn_for_call(c[4]) if len(c) > 4 and isinstance(c[4], dict) else None
            recv = strip(c[3][0]) if c[3] else None
            if hb is not None and recv in (("refmut", ("deref", ("param", 1))), ("param", 1)):
                hd = Dfx(hb)
                rets = [strip(hd.rvalue(st2["rv"])) for _, _, st2 in hb.stmts() if st2["k"] == "assign" and st2["p"]["local"] == 0 and not st2["p"]["proj"]]
                if len(rets) == 1 and rets[0][0] == "agg" and rets[0][1] == "tuple" and e[2] < len(rets[0][2]):
                    # no direct store to the field in the helper (it may only be changed through the replace itself) - unless the
                    # tuple is built BEFORE the stores (`let former = (len, self.num_cols, self.num_rows); self.num_cols = 0; ..`)
                    stores_ = [(bi2, si2) for bi2, si2, st2 in hb.stmts() if st2["k"] == "assign" and st2["p"]["proj"] and strip(hd.place(st2["p"])) == ("field", ("deref", ("param", 1)), fi[name])]
                    direct = bool(stores_)
                    if direct:
                        # where the field is read into the tuple: the statement `tmp = copy (*_1).field` feeding the aggregate
                        reads_ = [(bi2, si2) for bi2, si2, st2 in hb.stmts() if st2["k"] == "assign" and st2["rv"]["k"] == "use" and st2["rv"]["o"]["k"] in ("copy", "move") and strip(hd.place(st2["rv"]["o"]["p"])) == ("field", ("deref", ("param", 1)), fi[name])]
                        domh = hb.dominators()
                        before = bool(reads_) and all((rb == sb and rs < ss) or (rb != sb and rb in domh.get(sb, set())) for rb, rs in reads_ for sb, ss in stores_)
                        tup_ok = strip(rets[0][2][e[2]]) in (("field", ("deref", ("param", 1)), fi[name]), ("field", ("param", 1), fi[name]))
                        return before and tup_ok and len(reads_) == 1
                    return is_dim(rets[0][2][e[2]], name, depth + 1)
        return False

    found = False
    for bi, si, st in b.stmts():
        if st["k"] == "assign" and st["rv"]["k"] == "agg" and st["rv"].get("agg") == "adt" and st["rv"]["adt"].split("::")[-1] == "Col":
            found = True
            n += 1
            names = st["rv"]["fields_names"]
            vals = {k: strip(d.expr(v)) for k, v in zip(names, st["rv"]["fields"])}
            sk = vals.get("skip")
            ok_skip = sk is not None and sk[0] == "bin" and sk[1].startswith("Sub") and const_usize(sk[3]) == 1 and is_dim(sk[2], "num_cols")
            v = vals.get("v")
            ok_v = False
            why = show(v) if v else "?"
            # the cursor's slice as (offset from the buffer start, length), polynomials over index I, buffer length L, num_cols C
            from .vgraph import Poly, ZERO as PZ, ONE as P1
            I_, L_, C_ = Poly.atom("I"), Poly.atom("L"), Poly.atom("C")
            def poly(e):
                e = strip(e)
                if const_usize(e) is not None: return Poly.const(const_usize(e))
                if e == ("param", 2): return I_
                if is_dim(e, "num_cols"): return C_
                if e[0] == "call" and e[2] == "len" and any(x[0] == "field" and x[2] == fi["data"] for x in walk(e)): return L_
                comp_ = None
                if e[0] == "field" and strip(e[1])[0] == "call":
                    comp_, e = e[2], strip(e[1])         # component of a helper's result tuple
                if e[0] == "call" and len(e) > 4 and isinstance(e[4], dict) and e[3] and strip(e[3][0]) in (("refmut", ("deref", ("param", 1))), ("param", 1), ("deref", ("param", 1))):
                    # a private helper on the array that returns the buffer length it read before lowering it
                    hb = f.crate_fn_for_call(e[4])
                    if hb is not None and hb.blocks:
                        hd = Dfx(hb)
                        rets = [strip(hd.rvalue(st2["rv"])) for _, _, st2 in hb.stmts() if st2["k"] == "assign" and st2["p"]["local"] == 0 and not st2["p"]["proj"]]
                        if comp_ is not None and len(rets) == 1 and rets[0][0] == "agg" and rets[0][1] == "tuple" and comp_ < len(rets[0][2]):
                            rets = [strip(rets[0][2][comp_])]
                        elif comp_ is not None:
                            rets = []
                        if len(rets) == 1 and rets[0][0] == "call" and rets[0][2] == "len" and any(x[0] == "field" and x[2] == fi["data"] for x in walk(rets[0])):
                            lenb = [bi2 for bi2, t2, fn2 in hb.calls() if fn2 and fn2["name"] == "len" and fn2["path"].startswith("alloc::vec::Vec")]
                            wrb = [bi2 for bi2, t2, fn2 in hb.calls() if fn2 and fn2["name"] in ("set_len", "truncate", "clear", "drain", "resize", "extend", "push")]
                            dom2 = hb.dominators()
                            if len(lenb) == 1 and all(lenb[0] in dom2.get(w, set()) and w != lenb[0] for w in wrb):
                                return L_
                if e[0] == "bin" and e[1].replace("WithOverflow", "").replace("Unchecked", "") in ("Add", "Sub", "Mul"):
                    a, c = poly(e[2]), poly(e[3])
                    if a is None or c is None: return None
                    return {"Add": a + c, "Sub": a - c, "Mul": a * c}[e[1].replace("WithOverflow", "").replace("Unchecked", "")]
                return None
            def region(e):
                e = strip(e)
                if e[0] in ("ref", "refmut", "deref"): return region(e[1])
                if e[0] == "call" and e[2] in ("from_raw_parts_mut", "from_raw_parts"):
                    ptr, ln = strip(e[3][0]), poly(e[3][1])
                    off = None
                    if ptr[0] == "call" and ptr[2] in ("as_mut_ptr", "as_ptr"): off = PZ
                    elif ptr[0] == "call" and ptr[2] == "add" and any(x[0] == "call" and x[2] in ("as_mut_ptr", "as_ptr") for x in walk(ptr[3][0])): off = poly(ptr[3][1])
                    return (off, ln) if off is not None and ln is not None else None
                if e[0] == "call" and e[2] in ("index", "index_mut", "get_unchecked", "get_unchecked_mut") and len(e[3]) == 2:
                    base, rng = region(e[3][0]), strip(e[3][1])
                    if base is None or rng[0] != "agg": return None
                    fs = [poly(x) for x in rng[2]]
                    if any(x is None for x in fs): return None
                    if rng[1].endswith("RangeFrom") and len(fs) == 1: return (base[0] + fs[0], base[1] - fs[0])
                    if rng[1].endswith("RangeTo") and len(fs) == 1: return (base[0], fs[0])
                    if rng[1].endswith("Range") and len(fs) == 2: return (base[0] + fs[0], fs[1] - fs[0])
                return None
            reg = region(v) if v is not None else None
            if reg is not None:
                ok_v = reg[0] == I_ and reg[1] == L_ - C_ + P1
                why = "buffer[%r .. +%r]" % reg
            R.inst(b.ident, "drain cursor = Col { v: buffer[index .. index + len - num_cols + 1], skip: num_cols - 1 }: v=%s skip=%s" % (why[:80], show(sk) if sk else "?"), ok_skip and ok_v)
            if not ok_skip:
                R.fail(b.ident, "skip", "remove_col builds its column cursor with skip = %s, expected num_cols - 1" % (show(sk, pn) if sk else "?"), b.where(st["span"]))
            if not ok_v:
                R.fail(b.ident, "extent", "remove_col builds its column cursor over %s, expected from_raw_parts_mut(ptr.add(index), len - num_cols + 1)" % why[:120], b.where(st["span"]))
    if not found:
        R.inconc(b.ident, "no Col literal in remove_col (drain built differently)")
    # the drain remembers the original dimensions and the removed column: the struct invariant R-RAWBOUNDS assumes in
    # the destructor (col < num_cols by R-GUARD, num_rows >= 1 by the zero rule, buffer extent = num_rows*num_cols)
    dom = b.dominators()
    for bi, si, st in b.stmts():
        if st["k"] == "assign" and st["rv"]["k"] == "agg" and st["rv"].get("agg") == "adt" and st["rv"]["adt"].split("::")[-1] == "DrainCol":
            names = st["rv"]["fields_names"]
            ops = dict(zip(names, st["rv"]["fields"]))
            for fld, want in (("col", "index"), ("num_cols", "num_cols"), ("num_rows", "num_rows")):
                if fld not in ops:
                    continue
                n += 1
                e = strip(d.expr(ops[fld]))
                if want == "index":
                    ok = e == ("param", 2)
                    what = "the index parameter"
                else:
                    ok = is_dim(e, want)
                    what = "self.%s read before it is zeroed" % want
                    if ok and ops[fld]["k"] in ("copy", "move") and not ops[fld]["p"]["proj"]:
                        # the read must precede the store of 0 to that field
                        loc = ops[fld]["p"]["local"]
                        rd = d.single_def(loc)
                        for _ in range(6):       # chase plain local-to-local copies back to the statement that reads the field
                            if rd is not None and rd[0] == "stmt" and rd[3]["rv"]["k"] == "use" and rd[3]["rv"]["o"]["k"] in ("copy", "move") and not rd[3]["rv"]["o"]["p"]["proj"]:
                                loc = rd[3]["rv"]["o"]["p"]["local"]
                                rd = d.single_def(loc)
                            else:
                                break
                        rpos = (rd[1], rd[2]) if rd is not None and rd[0] == "stmt" else None
                        for bj, sj, st2 in b.stmts():
                            if st2["k"] == "assign" and st2["p"]["proj"] and strip(d.place(st2["p"])) == strip(("field", ("deref", ("param", 1)), fi[want])):
                                if rpos is None or not ((rpos[0] == bj and rpos[1] < sj) or (rpos[0] != bj and rpos[0] in dom.get(bj, set()))):
                                    ok = False
                R.inst(b.ident, "DrainCol.%s is %s (%s)" % (fld, what, show(e, pn)), ok)
                if not ok:
                    R.fail(b.ident, "drain-field:%s" % fld, "remove_col initialises DrainCol.%s with %s, expected %s: the destructor's compaction would use wrong dimensions" % (fld, show(e, pn), what), b.where(st["span"]))
    # the drain's size_hint is the cursor's
    b2 = f.get("DrainCol as Iterator::size_hint")
    if b2 is not None:
        n += 1
        names = [fn["name"] for _, _, fn in b2.calls() if fn]
        ok = names == ["size_hint"]
        R.inst(b2.ident, "delegates to the embedded cursor's size_hint", ok)
        if not ok:
            R.fail(b2.ident, "size_hint", "DrainCol::size_hint does not report the embedded column cursor's own size_hint (it calls %s): the drain's exact length is no longer the conforming cursor's (R-CURSOR), it rests on bookkeeping this rule does not follow" % (names or "nothing"), b2.where())
    return R, n


def _natural_loops(b):
    """header -> set of blocks (normal edges only, cleanup ignored)"""
    dom = b.dominators()
    loops = {}
    for bi, bl in enumerate(b.blocks):
        if bl["cleanup"]:
            continue
        for s_ in b.succs(bi):
            if s_ in dom.get(bi, set()):           # back edge bi -> s_
                body = loops.setdefault(s_, {s_})
                work = [bi]
                while work:
                    x = work.pop()
                    if x in body:
                        continue
                    body.add(x)
                    work.extend(p for p in b.preds()[x] if not b.blocks[p]["cleanup"])
    return loops


def r_lockstep(f):
    """R-LOCKSTEP: the row walk of translate_with_wrap.  A cycle-leader rotation visits rows base, base+d, base+2d, .. and
    the column offset applied at the k-th step is k*col_mid (mod C): the row cursor and the column offset are two induction
    variables of one loop that must advance in lock-step.  Decided on the CFG: (a) in every loop of the TranslateOps
    provided methods, any two induction variables (v = v + loop-invariant) that both reach an addressing use (argument of a
    call) are incremented on exactly the same set of cycles through the loop header; (b) their (re)initialisations sit in
    the same enclosing loop.  A closed-form rewrite (no induction variable) is simply outside the rule."""
    R = Result("R-LOCKSTEP")
    if "translate" not in cfg_features(f):
        return R, 0
    n = 0
    b = f.get("TranslateOps::translate_with_wrap (provided)")
    if b is None:
        raise AnchorMissing("TranslateOps::translate_with_wrap")
    bodies = [b]
    # private helpers of translate.rs take part as well
    bodies += [x for x in f.fn_bodies if x is not b and x.kind != "Closure" and x.file == b.file and not x.trait_provided and "tests" not in x.file]
    for body in bodies:
        d = Dfx(body)
        loops = _natural_loops(body)
        names = {}
        for v in body.d.get("debug", []):
            val = v.get("v")
            if isinstance(val, dict) and "local" in val and not val.get("proj"):
                names.setdefault(val["local"], v["name"])
        # which loop (innermost) contains a block
        def innermost(bi, exclude=None):
            best = None
            for h, blk in loops.items():
                if bi in blk and h != exclude and (exclude is None or blk > loops[exclude] or not (blk <= loops[exclude])):
                    if exclude is not None and not (loops[exclude] <= blk):
                        continue
                    if best is None or len(blk) < len(loops[best]):
                        best = h
            return best
        for h, blk in sorted(loops.items()):
            # induction variables: whole assignments inside the loop of the form v = v + x
            inc = {}          # local -> set of blocks holding an increment
            nested = set()
            for h2, blk2 in loops.items():
                if h2 != h and blk2 < blk:
                    nested |= blk2
            for bi in blk - nested:
                for st in body.blocks[bi]["stmts"]:
                    if st["k"] != "assign" or st["p"]["proj"]:
                        continue
                    v = st["p"]["local"]
                    e = strip(d.rvalue(st["rv"]))
                    if e[0] == "bin" and e[1].startswith("Add") and (strip(e[2]) == ("var", v) or strip(e[3]) == ("var", v)):
                        inc.setdefault(v, set()).add(bi)
            # addressing use: the variable (or an expression over it) is an argument of a call inside the loop
            addr = set()
            for bi in blk:
                t = body.blocks[bi]["term"]
                if t and t["k"] == "call":
                    for a in t["args"]:
                        for x in walk(d.expr(a)):
                            if x[0] == "var" and x[1] in inc:
                                addr.add(x[1])
            ivs = sorted(addr)
            if len(ivs) < 2:
                continue
            succ_in = {x: [y for y in body.succs(x) if y in blk] for x in blk}

            def cycle_avoiding(through, avoid):
                """is there a cycle header -> .. -> header that passes a block of `through` and no block of `avoid`?"""
                def reach(src, dst_set, banned):
                    seen, work = set(), [src]
                    while work:
                        x = work.pop()
                        if x in seen or x in banned:
                            continue
                        seen.add(x)
                        if x in dst_set and x != src or (x in dst_set and src in dst_set and len(seen) > 1):
                            pass
                        for y in succ_in[x]:
                            work.append(y)
                    return seen
                for tb in through:
                    if tb in avoid:
                        continue
                    fwd = reach(h, {tb}, set(avoid))
                    if tb not in fwd and tb != h:
                        continue
                    # from tb back to the header: some successor path reaching h
                    seen, work, back = set(), list(succ_in[tb]), False
                    while work:
                        x = work.pop()
                        if x == h:
                            back = True
                            break
                        if x in seen or x in avoid:
                            continue
                        seen.add(x)
                        work.extend(succ_in[x])
                    if back:
                        return True
                return False
            for i in range(len(ivs)):
                for j in range(len(ivs)):
                    if i == j:
                        continue
                    a, c = ivs[i], ivs[j]
                    n += 1
                    bad = cycle_avoiding(inc[a], inc[c])
                    na, nc = names.get(a, "_%d" % a), names.get(c, "_%d" % c)
                    R.inst(body.ident, "loop at bb%d: every iteration that advances %s also advances %s" % (h, na, nc), not bad)
                    if bad:
                        R.fail(body.ident, "lockstep:%s-without-%s" % (na, nc), "%s: the loop advances %s on an iteration that does not advance %s; the two cursors of the row walk (row index, running column offset) must move together, otherwise every later row of the cycle is rotated by the wrong amount" % (body.ident, na, nc), body.where())
            # (b) initialisations: whole definitions outside the loop -> the innermost loop containing them
            homes = {}
            for v in ivs:
                hs = set()
                for dd in d.whole_defs(v):
                    if dd[1] in blk:
                        continue
                    cands = [hh for hh, bb_ in loops.items() if dd[1] in bb_ and hh != h]
                    hs.add(min(cands, key=lambda hh: len(loops[hh])) if cands else None)
                homes[v] = hs
            n += 1
            distinct = {frozenset(x) for x in homes.values()}
            ok = len(distinct) == 1
            R.inst(body.ident, "loop at bb%d: the cursors %s are (re)initialised in the same enclosing loop (%s)" % (h, [names.get(v, "_%d" % v) for v in ivs], sorted(str(x) for x in next(iter(distinct)))), ok)
            if not ok:
                desc = ",".join("%s@%s" % (names.get(v, "_%d" % v), "/".join(sorted("loop" if x is not None else "entry" for x in homes[v]))) for v in ivs)
                R.fail(body.ident, "lockstep:init:%s" % desc, "%s: the cursors of the row walk are initialised at different loop depths (%s): one of them is carried over from the previous cycle while the other restarts" % (body.ident, desc), body.where())
    if n == 0:
        R.inconc(b.ident, "no loop with two addressing induction variables (walk written in closed form?)")
    return R, n


def _paths_trivial(b, dfe, e, groups):
    """every acyclic path from the entry to block e makes both components of mid trivial: an edge `x == 0`, `x == <dimension
    getter>` (a shift by the whole extent), a `0 =>` arm, or an assignment of the constant 0 - for x any version of the component"""
    def grp(expr):
        expr = strip(expr)
        for c_ in (0, 1):
            if expr[0] in ("var", "param") and expr[1] in groups[c_]:
                return c_
            if expr[0] == "field" and strip(expr[1]) == ("param", 2) and expr[2] == c_:
                return c_
        return None
    paths = [0]
    ok_all = [True]

    def walk_(x, seen, triv, depth):
        if paths[0] > 400 or depth > 60:
            ok_all[0] = False
            return
        bl = b.blocks[x]
        triv = set(triv)
        for st in bl["stmts"]:
            if st["k"] == "assign" and not st["p"]["proj"] and st["rv"]["k"] == "use" and st["rv"]["o"]["k"] == "const":
                for c_ in (0, 1):
                    if st["p"]["local"] in groups[c_] and const_usize(("const", st["rv"]["o"]["val"], "usize")) == 0:
                        triv.add(c_)
        if x == e:
            paths[0] += 1
            if triv != {0, 1}:
                ok_all[0] = False
            return
        tt = bl["term"]
        if not tt:
            return
        if tt["k"] == "switch":
            e_ = strip(dfe.expr(tt["discr"]))
            neg_ = False
            while e_[0] == "un" and e_[1] == "Not":
                neg_ = not neg_; e_ = strip(e_[2])
            tm_ = [(int(a_), b2) for a_, b2 in tt["targets"]]
            for val, sx in tm_ + [(None, tt["otherwise"])]:
                if sx in seen or b.blocks[sx]["cleanup"]:
                    continue
                t2 = set(triv)
                if e_[0] == "bin" and e_[1] in ("Eq", "Ne"):
                    truth = (val is None and any(v_ == 0 for v_, _ in tm_)) or val == 1
                    if neg_:
                        truth = not truth
                    holds_eq = truth if e_[1] == "Eq" else not truth
                    if holds_eq:
                        for side, other in ((e_[2], e_[3]), (e_[3], e_[2])):
                            c_ = grp(side)
                            o_ = strip(other)
                            if c_ is not None and (const_usize(o_) == 0 or (o_[0] == "call" and o_[2] in ("num_cols", "num_rows", "len"))):
                                t2.add(c_)
                else:
                    c_ = grp(e_)
                    if c_ is not None and val == 0:
                        t2.add(c_)      # `match x { 0 => .. }`
                walk_(sx, seen | {sx}, t2, depth + 1)
            return
        for sx in b.succs(x):
            if sx not in seen:
                walk_(sx, seen | {sx}, triv, depth + 1)
    walk_(0, {0}, set(), 0)
    return ok_all[0] and paths[0] > 0


def r_noshift(f):
    """R-NOSHIFT: translate_with_wrap may leave without having moved anything only when there is nothing to move: on every
    exit that no element-moving call can reach, both (normalised) components of `mid` are zero in every {zero, non-zero}
    state.  An early `return` for `row_mid == num_rows` that forgets the column shift fails this."""
    from .rules_zero import ZFn
    R = Result("R-NOSHIFT")
    if "translate" not in cfg_features(f):
        return R, 0
    b = f.get("TranslateOps::translate_with_wrap (provided)")
    if b is None:
        raise AnchorMissing("TranslateOps::translate_with_wrap")
    bd = b.d
    # the two working copies of mid: locals assigned from (param 2).0 / .1
    comp = {}
    for _, _, st in b.stmts():
        if st["k"] == "assign" and not st["p"]["proj"] and st["rv"]["k"] == "use" and st["rv"]["o"]["k"] in ("copy", "move"):
            p = st["rv"]["o"]["p"]
            if p["local"] == 2 and len(p["proj"]) == 1 and p["proj"][0]["k"] == "field":
                comp[p["proj"][0]["i"]] = st["p"]["local"]
    # .. or normalised by a crate helper first: `let col_mid = wrap_component(mid.0, num_cols)` - the working local is the helper's
    # result, provided the helper can only answer with its first argument or with 0
    dn0 = Dfx(b)
    for bi_, t_, fn_ in b.calls():
        hb_ = f.crate_fn_for_call(fn_) if fn_ else None
        if hb_ is None or hb_.kind == "Closure" or not t_["args"] or not t_.get("dest") or t_["dest"]["proj"] or str(hb_.locals[0]) != "usize":
            continue
        a0_ = strip(dn0.expr(t_["args"][0]))
        if not (a0_[0] == "field" and strip(a0_[1]) == ("param", 2) and a0_[2] in (0, 1)):
            continue
        hd_ = Dfx(hb_)
        rets_ = [strip(hd_.rvalue(st["rv"])) for _, _, st in hb_.stmts() if st["k"] == "assign" and st["p"]["local"] == 0 and not st["p"]["proj"]]
        if rets_ and all(r_ == ("param", 1) or const_usize(r_) == 0 for r_ in rets_) and not any(True for _ in hb_.calls()):
            comp[a0_[2]] = t_["dest"]["local"]
    if set(comp) != {0, 1}:
        R.inconc(b.ident, "the components of `mid` are not copied into working locals (written differently)")
        return R, 0
    MOVERS = ("rotate_left", "rotate_right", "swap_with_slice", "swap", "reverse", "swap_rows", "swap_cols", "copy_from_slice", "clone_from_slice", "swap_nonoverlapping")
    move_blocks = [bi for bi, t, fn in b.calls() if fn and fn["name"] in MOVERS]
    # .. or a higher-order call (`rows_mut().for_each(|r| r.rotate_left(..))`) whose closure / function-item argument moves
    mover_clos = {c.id for c in b.closures() if any(fn2 and fn2["name"] in MOVERS for _, _, fn2 in c.calls())}
    dm_ = Dfx(b)
    for bi, t, fn in b.calls():
        if not fn or bi in move_blocks:
            continue
        for a in t["args"]:
            ea = dm_.expr(a)
            if any((x[0] == "agg" and x[1] == "closure" and len(x) > 3 and x[3] in mover_clos) or (x[0] == "fn" and x[1].split("::")[-1] in MOVERS) for x in walk(ea)):
                move_blocks.append(bi)
    reach_from_move = set()
    for mb in move_blocks:
        reach_from_move |= set(b.reachable(mb)) - {mb}
    # later versions of the two values (`let col_mid = if col_mid == num_cols { 0 } else { col_mid };`): a local one of whose
    # definitions copies a version belongs to the same component
    groups = {0: {comp[0]}, 1: {comp[1]}}
    grew = True
    while grew:
        grew = False
        for _, _, st in b.stmts():
            if st["k"] == "assign" and not st["p"]["proj"] and st["rv"]["k"] == "use" and st["rv"]["o"]["k"] in ("copy", "move") and not st["rv"]["o"]["p"]["proj"]:
                for c_ in (0, 1):
                    if st["rv"]["o"]["p"]["local"] in groups[c_] and st["p"]["local"] not in groups[c_] and b.locals[st["p"]["local"]] == "usize" and b.debug_name(st["p"]["local"]):
                        groups[c_].add(st["p"]["local"]); grew = True
    # a shadowing `let col_mid = ..` of the same name is a later version of the same component, however it is computed
    for c_ in (0, 1):
        nms = {b.debug_name(l) for l in groups[c_]} - {None}
        for l in range(b.arg_count + 1, len(b.locals)):
            if b.locals[l] == "usize" and b.debug_name(l) in nms:
                groups[c_].add(l)
    Z = ZFn(bd, {})
    keys = [("L", l) for c_ in (0, 1) for l in sorted(groups[c_])[:4]]
    gkeys = {c_: [("L", l) for l in sorted(groups[c_]) if ("L", l) in keys] for c_ in (0, 1)}
    bad = []
    nexit = [0]

    def sinks(bb, si, node, states, ks):
        return
    IN = Z.run(keys, [], sinks)
    # the return funnel: blocks that only fall through (goto chains without calls) to `return`
    funnel = set()
    changed = True
    while changed:
        changed = False
        for bi, bl in enumerate(bd["blocks"]):
            if bi in funnel or bl["cleanup"]:
                continue
            t = bl["term"]
            if t and (t["k"] == "return" or (t["k"] == "goto" and t["target"] in funnel)):
                funnel.add(bi); changed = True
    preds = b.preds()
    # exits taken only for an empty array (`if self.is_empty() { return }`, `if self.num_rows() == 0 ..`): nothing to move
    dfe = Dfx(b)
    dome = b.dominators()
    empty_succ = []
    for sb, bl in enumerate(b.blocks):
        tt = bl["term"]
        if bl["cleanup"] or not tt or tt["k"] != "switch":
            continue
        e_ = strip(dfe.expr(tt["discr"]))
        neg_ = False
        while e_[0] == "un" and e_[1] == "Not":
            neg_ = not neg_; e_ = strip(e_[2])
        is_emp = None
        if e_[0] == "call" and e_[2] == "is_empty" and e_[3] and any(x == ("param", 1) for x in walk(e_[3][0])):
            is_emp = True
        elif e_[0] == "bin" and e_[1] in ("Eq", "Ne") and any(const_usize(o) == 0 for o in (e_[2], e_[3])) and \
                any(strip(o)[0] == "call" and strip(o)[2] in ("num_rows", "num_cols") and any(x == ("param", 1) for x in walk(o)) for o in (e_[2], e_[3])):
            is_emp = e_[1] == "Eq"
        if is_emp is None:
            continue
        tm_ = dict((int(a), b2) for a, b2 in tt["targets"])
        f_succ, t_succ = tm_.get(0, tt["otherwise"]), (tt["otherwise"] if 0 in tm_ else tm_.get(1))
        empty_succ.append(t_succ if (is_emp != neg_) else f_succ)
    for e in sorted(funnel):
        if not any(p_ not in funnel for p_ in preds[e]) and e != 0:
            continue          # not an entry of the funnel
        if e in reach_from_move or e in move_blocks:
            continue
        if any(es is not None and (es == e or es in dome.get(e, set())) for es in empty_succ):
            continue
        nexit[0] += 1
        bad_e = []
        for tup in IN[e]:
            V = dict(zip(keys, tup))
            triv = [any(V[k] == "Z" for k in gkeys[c_]) for c_ in (0, 1)]
            if not all(triv):
                bad_e.append((e, "Z" if triv[0] else "NZ", "Z" if triv[1] else "NZ"))
        if bad_e and _paths_trivial(b, dfe, e, groups):
            bad_e = []       # on every path to this exit each component was found equal to 0 or to its own dimension
        bad += bad_e
    # wrap-around normalisation: a component that equals its dimension is replaced by 0 (the same shift), nothing else
    ninst = 1
    for sb, bl in enumerate(b.blocks):
        tt = bl["term"]
        if bl["cleanup"] or not tt or tt["k"] != "switch":
            continue
        e_ = strip(dfe.expr(tt["discr"]))
        if not (e_[0] == "bin" and e_[1] == "Eq"):
            continue
        sides = [strip(e_[2]), strip(e_[3])]
        dimside = [x for x in sides if x[0] == "call" and x[2] in ("num_rows", "num_cols")]
        if len(dimside) != 1:
            continue
        tm_ = dict((int(a), b2) for a, b2 in tt["targets"])
        t_succ = tt["otherwise"] if 0 in tm_ else tm_.get(1)
        if t_succ is None:
            continue
        for st in b.blocks[t_succ]["stmts"]:
            if st["k"] == "assign" and not st["p"]["proj"] and any(st["p"]["local"] in groups[c_] for c_ in (0, 1)) and st["rv"]["k"] == "use" and st["rv"]["o"]["k"] == "const":
                cv = const_usize(("const", st["rv"]["o"]["val"], st["rv"]["o"].get("ty")))
                ninst += 1
                R.inst(b.ident, "a component equal to its dimension is normalised to 0 (got %s)" % cv, cv == 0)
                if cv != 0:
                    R.fail(b.ident, "wrap-norm:%s" % cv, "%s replaces a component of mid that equals its dimension (a shift by the whole extent, i.e. no shift) by %s instead of 0" % (b.ident, cv), b.where(st["span"]))
    # a partial move (swap of a sub-range, rotation by an amount) that is skipped under a comparison is skipped only when it would
    # have moved nothing: on the skipping edge the sub-range is empty / the amount is zero
    from .vgraph import Poly, Cond, decide, saturate
    pn_ = b.param_names()

    def PP(e):
        e = strip(e)
        cu = const_usize(e)
        if cu is not None:
            return Poly.const(cu)
        if e[0] == "bin":
            op = e[1].replace("WithOverflow", "").replace("Unchecked", "")
            if op in ("Add", "Sub", "Mul"):
                x, y = PP(e[2]), PP(e[3])
                return x + y if op == "Add" else (x - y if op == "Sub" else x * y)
        return Poly.atom(show(e, pn_))
    for mb, t, fn in b.calls():
        if not fn or fn["name"] not in ("swap_with_slice", "rotate_left", "rotate_right", "copy_from_slice", "clone_from_slice"):
            continue
        lens = []
        if fn["name"] in ("rotate_left", "rotate_right") and len(t["args"]) == 2:
            lens.append(("amount", PP(dfe.expr(t["args"][1]))))
        for a in t["args"][:2]:
            for x in walk(strip(dfe.expr(a))):
                if x[0] == "call" and x[2] in ("get_unchecked_mut", "get_unchecked", "index", "index_mut") and len(x[3]) == 2:
                    r_ = strip(x[3][1])
                    if r_[0] == "agg" and r_[1].endswith("RangeTo") and len(r_[2]) == 1:
                        lens.append(("range ..%s" % show(r_[2][0], pn_), PP(r_[2][0])))
                    elif r_[0] == "agg" and r_[1].endswith("Range::Range") and len(r_[2]) == 2:
                        lens.append(("range %s..%s" % (show(r_[2][0], pn_), show(r_[2][1], pn_)), PP(r_[2][1]) - PP(r_[2][0])))
        if not lens:
            continue
        # nearest comparison switch controlling the call: one successor dominates the call, the other cannot reach it without
        # passing the switch again
        ctrl = None
        for sb in sorted(dome.get(mb, set()), key=lambda x: -len(dome.get(x, set()))):
            tt = b.blocks[sb]["term"]
            if sb == mb or not tt or tt["k"] != "switch":
                continue
            e_ = strip(dfe.expr(tt["discr"]))
            neg_ = False
            while e_[0] == "un" and e_[1] == "Not":
                neg_ = not neg_; e_ = strip(e_[2])
            if not (e_[0] == "bin" and e_[1] in ("Lt", "Le", "Gt", "Ge", "Eq", "Ne")):
                continue
            tm_ = dict((int(a), b2) for a, b2 in tt["targets"])
            f_succ, t_succ = tm_.get(0, tt["otherwise"]), (tt["otherwise"] if 0 in tm_ else tm_.get(1))
            takes = [sx for sx in (t_succ, f_succ) if sx is not None and (sx == mb or sx in dome.get(mb, set()))]
            if len(takes) != 1:
                continue
            skip_true = takes[0] == f_succ          # the call runs on the false edge: it is skipped when the comparison is true
            ctrl = (e_, neg_ != skip_true)
            break
        if ctrl is None:
            continue
        e_, cond_true_on_skip = ctrl
        opmap = {"Lt": "<", "Le": "<=", "Gt": ">", "Ge": ">=", "Eq": "==", "Ne": "!="}
        c_ = Cond(opmap[e_[1]], PP(e_[2]) - PP(e_[3]))
        if not cond_true_on_skip:
            c_ = c_.neg()
        atoms_c = {a for mono in c_.poly.t for a in mono}
        for what, ln in lens:
            atoms_l = {a for mono in ln.t for a in mono}
            if not (atoms_c & atoms_l):
                continue          # the guard is about something else (which rows, whether to shift at all)
            ninst += 1
            facts = [c_] + [Cond(">=", Poly.atom(a)) for a in atoms_l | atoms_c]
            okz = decide(facts, Cond("<=", ln)) is True or decide(saturate(facts), Cond("<=", ln)) is True
            if not okz and what == "amount":
                # rotating a row by its whole length moves nothing either: amount == <some length atom> on the skipping edge
                for a in atoms_l:
                    if a.startswith("num_cols(") or a.startswith("len("):
                        df_ = ln - Poly.atom(a)
                        if all(decide(fs_, Cond(op_, df_)) is True for op_ in ("<=", ">=") for fs_ in [saturate(facts)]):
                            okz = True
            R.inst(b.ident, "%s(..) over the %s is skipped only when that is empty / zero (skip condition %r)" % (fn["name"], what, c_), okz)
            if not okz:
                R.fail(b.ident, "skips-nonempty:%s:%s" % (fn["name"], what), "%s skips %s(..) over the %s when %r holds, although the %s can then still be non-empty: those cells are not moved" % (b.ident, fn["name"], what, c_, what.split(" ")[0]), b.where(t["span"]))
    # rows are rotated towards the origin (the cell at mid moves to column 0): rotate_left by the column shift; a rotate_right is
    # only the same thing when its amount is `num_cols - shift`
    for bb_ in [b] + b.closures():
      dxx_ = Dfx(bb_)
      lefts = [strip(dxx_.expr(t2["args"][1])) for _, t2, fn2 in bb_.calls() if fn2 and fn2["path"] == "core::slice::<impl [T]>::rotate_left" and len(t2["args"]) == 2]
      for mb, t, fn in bb_.calls():
        if fn and fn["path"] == "core::slice::<impl [T]>::rotate_right" and len(t["args"]) == 2:
            e_ = strip(dxx_.expr(t["args"][1]))
            recv_ = strip(dxx_.expr(t["args"][0]))
            if bb_ is not b and e_[0] in ("field", "deref"):
                # a captured variable: look at what the parent stored in the closure
                ee_ = e_[1] if e_[0] == "deref" else e_
                ee_ = strip(ee_)
                if ee_[0] == "field" and strip(ee_[1]) in (("param", 1), ("deref", ("param", 1))):
                    dpar_ = Dfx(b)
                    for _, _, stp in b.stmts():
                        if stp["k"] == "assign" and stp["rv"]["k"] == "agg" and stp["rv"].get("agg") == "closure" and stp["rv"].get("def") == bb_.id and ee_[2] < len(stp["rv"]["fields"]):
                            cap = strip(dpar_.expr(stp["rv"]["fields"][ee_[2]]))
                            e_ = strip(cap[1]) if cap[0] in ("ref", "refmut") else cap
            # complement form `width - shift`; or one half of a row pair whose other half is rotated left by the same amount
            # (a full swap followed by the two fix-up rotations)
            okd = (e_[0] == "bin" and e_[1].startswith("Sub") and const_usize(strip(e_[2])) is None) or \
                  (any(x[0] == "call" and x[2] == "row_pair_mut" for x in walk(recv_)) and any(show(l_) == show(e_) for l_ in lefts))
            ninst += 1
            R.inst(b.ident, "rows are rotated left by the column shift (or right by num_cols - shift)", okd)
            if not okd:
                R.fail(b.ident, "rotate-direction", "%s rotates a row to the RIGHT by the column shift: the cell at column mid.0 must move to column 0, which is a rotation to the left (or to the right by num_cols - mid.0)" % b.ident, b.where(t["span"]))
    ok = not bad
    R.inst(b.ident, "every exit that no element-moving call can reach (%d) is taken only with both components of mid zero" % nexit[0], ok)
    if bad:
        R.fail(b.ident, "exit-without-shift", "%s can return without having moved any element while (col_mid, row_mid) may be %s: a pending column or row shift is dropped" % (b.ident, sorted({(x[1], x[2]) for x in bad})), b.where())
    # norm-first: `mid.0 == num_cols` / `mid.1 == num_rows` are valid arguments that mean 0; the function maps them to 0 (a local set
    # to 0 under the true edge of `local == dim`).  Until that test has been passed the local may still hold the dimension itself,
    # so no arithmetic and no rotation amount may be computed from it on a path that has not gone through the test
    domn_ = b.dominators()
    ndefs_ = {}
    for _, _, st in b.stmts():
        if st["k"] == "assign" and not st["p"]["proj"]:
            ndefs_.setdefault(st["p"]["local"], []).append(st)

    def src_local(o_):
        """the named local an operand copies (through single-def temporaries)"""
        for _ in range(4):
            if o_["k"] not in ("copy", "move") or o_["p"]["proj"]:
                return None
            l_ = o_["p"]["local"]
            ds_ = ndefs_.get(l_, [])
            if len(ds_) == 1 and ds_[0]["rv"]["k"] == "use" and ds_[0]["rv"]["o"]["k"] in ("copy", "move") and not ds_[0]["rv"]["o"]["p"]["proj"] and l_ > b.arg_count:
                o_ = ds_[0]["rv"]["o"]
                continue
            return l_
        return None
    comps_ = {}
    for sb_, bl_ in enumerate(b.blocks):
        tt_ = bl_["term"]
        if not tt_ or tt_["k"] != "switch" or bl_["cleanup"]:
            continue
        dl_ = tt_["discr"]
        if dl_["k"] not in ("copy", "move") or dl_["p"]["proj"]:
            continue
        defs_ = ndefs_.get(dl_["p"]["local"], [])
        if len(defs_) != 1 or defs_[0]["rv"]["k"] != "binop" or defs_[0]["rv"]["op"] != "Eq":
            continue
        tm_ = [(int(a_), b2) for a_, b2 in tt_["targets"]]
        tsucc = tt_["otherwise"] if any(v_ == 0 for v_, _ in tm_) else dict(tm_).get(1)
        if tsucc is None:
            continue
        for o_ in (defs_[0]["rv"]["l"], defs_[0]["rv"]["r"]):
            L_ = src_local(o_)
            if L_ is None:
                continue
            zeroed = any(st["k"] == "assign" and st["p"]["local"] == L_ and not st["p"]["proj"] and st["rv"]["k"] == "use" and st["rv"]["o"]["k"] == "const" and re.match(r"^(const )?0_usize$", str(st["rv"]["o"].get("val", ""))) is not None
                         for x_ in range(len(b.blocks)) if x_ == tsucc or tsucc in domn_.get(x_, set()) for st in b.blocks[x_]["stmts"])
            if zeroed:
                comps_[L_] = sb_
    early = []
    for L_, sb_ in comps_.items():
        for bi_, bl_ in enumerate(b.blocks):
            if bl_["cleanup"] or bi_ == sb_ or sb_ in domn_.get(bi_, set()) or bi_ not in b.reachable(0):
                continue
            for st in bl_["stmts"]:
                if st["k"] == "assign" and st["rv"]["k"] == "binop" and re.match(r"^(Mul|Add|Sub|Rem|Div|Shl)", st["rv"]["op"]):
                    if any(src_local(o_) == L_ for o_ in (st["rv"]["l"], st["rv"]["r"])):
                        early.append((L_, st["span"], st["rv"]["op"]))
            tt_ = bl_["term"]
            if tt_ and tt_["k"] == "call" and (tt_["func"].get("fn") or {}).get("name") in ("rotate_left", "rotate_right", "split_at_mut", "split_at"):
                if any(src_local(a_) == L_ for a_ in tt_["args"][1:]):
                    early.append((L_, tt_["span"], tt_["func"]["fn"]["name"]))
    if comps_:
        R.inst(b.ident, "norm-first: no arithmetic / rotation amount is computed from a translation component before its `== dimension -> 0` test (%d components)" % len(comps_), not early)
        for L_, sp_, op_ in early[:1]:
            R.fail(b.ident, "norm-first:%s" % op_.replace("WithOverflow", ""), "%s computes with a translation component (%s) on a path that has not yet passed its wrap-around test (`== dimension` means 0): for mid equal to the dimension - a valid argument - the value used is the dimension itself, one whole turn too many" % (b.ident, op_.replace("WithOverflow", "")), b.where(sp_))
    return R, 1


def r_rotate(f):
    """R-ROTATE: a rotation of the buffer's tail slice is one half of a two-step move, and its direction is fixed by the other
    half: `rotate_left(k)` brings the *front* block to the end, so it belongs with a later removal of the tail (drain /
    truncate) - removing a line; `rotate_right(k)` brings the *end* block to the front, so it belongs with an earlier append
    (extend / push / resize / growing set_len) - inserting a line.  The opposite pairing moves the wrong block."""
    R = Result("R-ROTATE")
    n = 0
    GROW = ("extend", "extend_from_slice", "push", "resize", "resize_with", "append", "insert", "splice")
    SHRINK = ("drain", "truncate", "pop", "split_off")
    for b in f.fn_bodies:
        fl = b.file.replace("\\", "/")
        if not fl.endswith("src/toodee.rs") or b.kind == "Closure":
            continue
        rots = [(bi, t, fn) for bi, t, fn in b.calls() if fn and fn["path"] in ("core::slice::<impl [T]>::rotate_left", "core::slice::<impl [T]>::rotate_right")]
        if not rots:
            continue
        grows = [bi for bi, t, fn in b.calls() if fn and fn["name"] in GROW and ("alloc::vec::Vec" in fn["path"] or norm_ty(fn.get("self_ty") or "").startswith("alloc::vec::Vec<"))]
        shrinks = [bi for bi, t, fn in b.calls() if fn and fn["name"] in SHRINK and "alloc::vec::Vec" in fn["path"]]
        d = Dfx(b)
        for bi, t, fn in b.calls():
            # a growing set_len(len + k): cells were written behind the old end
            if fn and fn["name"] == "set_len" and "alloc::vec::Vec" in fn["path"] and len(t["args"]) == 2:
                e = strip(d.expr(t["args"][1]))
                if e[0] == "bin" and e[1].startswith("Add"):
                    grows.append(bi)
        for bi, t, fn in rots:
            n += 1
            after = set(b.reachable(bi)) - {bi}
            grew_before = any(bi in b.reachable(gb) and gb != bi for gb in grows)
            shrinks_after = any(sb in after for sb in shrinks)
            # `s.rotate_right(s.len() - k)` is `s.rotate_left(k)` (and vice versa): judge the effective direction and amount
            eff_name, eff_amount = fn["name"], (strip(d.expr(t["args"][1])) if len(t["args"]) == 2 else None)
            if eff_amount is not None and eff_amount[0] == "bin" and eff_amount[1].startswith("Sub") and strip(eff_amount[2])[0] == "call" and strip(eff_amount[2])[2] == "len":
                eff_name = "rotate_left" if fn["name"] == "rotate_right" else "rotate_right"
                eff_amount = strip(eff_amount[3])
            fn = dict(fn, name=eff_name)
            if fn["name"] == "rotate_left":
                ok = shrinks_after or not grew_before
                want = "a later removal of the tail (it moves the front block to the end)"
            else:
                ok = grew_before or not shrinks_after
                want = "an earlier append (it moves the end block to the front)"
            # ... and by the same amount: rotate_left(k) parks exactly the k cells that `drain(len - k..)` then removes
            if fn["name"] == "rotate_left" and len(t["args"]) == 2:
                kr = show(eff_amount)
                for sbi, st_, sfn in b.calls():
                    if sfn and sfn["name"] == "drain" and "alloc::vec::Vec" in sfn["path"] and sbi in after and len(st_["args"]) == 2:
                        re_ = strip(d.expr(st_["args"][1]))
                        if re_[0] == "agg" and re_[1].endswith("RangeFrom") and len(re_[2]) == 1:
                            st0 = strip(re_[2][0])
                            if st0[0] == "bin" and st0[1].startswith("Sub") and strip(st0[2])[0] == "call" and strip(st0[2])[2] == "len":
                                kd = show(strip(st0[3]))
                                n += 1
                                R.inst(b.ident, "rotate_left(%s) parks what drain(len - %s ..) removes" % (kr, kd), kr == kd)
                                if kr != kd:
                                    R.fail(b.ident, "amount:%s!=%s" % (kr, kd), "%s rotates %s cells to the end of the buffer but drains the last %s: the cells removed are not the line that was parked there" % (b.ident, kr, kd), b.where(st_["span"]))
            R.inst(b.ident, "%s is paired with %s" % (fn["name"], want), ok)
            if not ok:
                R.fail(b.ident, "direction:%s" % fn["name"], "%s uses %s where the surrounding code (%s) needs the other direction: %s belongs with %s" % (b.ident, fn["name"], "cells appended before, nothing removed after" if fn["name"] == "rotate_left" else "tail removed after, nothing appended before", fn["name"], want), b.where(t["span"]))
    return R, n
