"""R-RAWBOUNDS (DESIGN 10, stretch goal - built): every raw element access inside a hidden window stays inside the
buffer.  For each function that moves elements with ptr::copy / ptr::write / ptr::read / from_raw_parts on a pointer
derived from the array's own Vec, the body is executed symbolically over polynomial offsets relative to
`Vec::as_mut_ptr()`:

* counted loops (`for _ in a..b`) are summarised by classic induction-variable analysis: one symbolic pass finds the
  per-iteration increment of every loop-carried pointer / integer (it must be loop invariant), a second pass checks the
  body's accesses at iteration J = 0 and J = n-1 (offsets are affine in J, so the end points bound everything between),
  and after the loop every induction variable is `v0 + n*delta`, n = b - a;
* obligations: READ [off, off+count) within [0, L0) (the initialised extent when the window opened), WRITE within
  [0, L0 + reserved); `count` itself non-negative;
* decision: path facts of the form x <= y (+k) are turned into substitutions y := x + k + slack, the shape invariant
  into L := R*C (or R = C = L = 0), and an obligation T >= 0 is *discharged* when every coefficient of T is then
  non-negative, *refuted* when none is positive and one is negative (a counter-example assignment exists because the
  remaining atoms are free non-negative), otherwise undecided (listed, never an alarm).  No solver.

Placement of elements inside the buffer is not decided (DESIGN 2.1); this is the memory-safety clause of C05-C07.
"""
import os, re, copy as _copy
from .core import Result, AnchorMissing
from .facts import norm_ty
from .vgraph import Poly, ZERO, ONE, Cond, Inconclusive

RAW = {"core::ptr::copy": ("rw", 0, 1, 2), "core::ptr::copy_nonoverlapping": ("rw", 0, 1, 2),
       "core::ptr::write": ("w", None, 0, None), "core::ptr::read": ("r", 0, None, None),
       "core::ptr::mut_ptr::<impl *mut T>::write": ("w", None, 0, None), "core::ptr::mut_ptr::<impl *mut T>::read": ("r", 0, None, None),
       "core::ptr::const_ptr::<impl *const T>::read": ("r", 0, None, None)}


class Ptr:
    def __init__(s, off): s.off = off
    def __repr__(s): return "ptr+%r" % (s.off,)
class RangeV:
    def __init__(s, a, b): s.a, s.b = a, b
    def __repr__(s): return "%r..%r" % (s.a, s.b)
class RefLocal:
    def __init__(s, l): s.l = l
    def __repr__(s): return "&_%d" % s.l
class Obj:
    """a struct value / reference whose fields are symbolic: kind in {TooDee, DrainCol, Vec, Guard}"""
    def __init__(s, kind): s.kind = kind
    def __repr__(s): return "<%s>" % s.kind
class Unk:
    def __init__(s, tag=""): s.tag = tag
    def __repr__(s): return "?" + s.tag
class OptUnk(Unk):
    pass
class Tup:
    def __init__(s, f): s.f = list(f)
    def __repr__(s): return "(%s)" % ", ".join(map(repr, s.f))
class SomeV:
    def __init__(s, v): s.v = v
class NoneV:
    pass


def A(x): return Poly.atom(x)


class Chk:
    """the Option produced by checked arithmetic on usize values: Some(v) with v exact, or None"""
    def __init__(s, v): s.v = v
    def __repr__(s): return "Chk(%r)" % (s.v,)


def _closure_diverges(f, fn, t, body):
    """`opt.unwrap_or_else(|| panic!(..))`: the closure handed over can only panic"""
    try:
        from .dfx import Dfx, strip, walk
        from .facts import Body
        bb = f.by_id.get(body["id"]) if isinstance(body, dict) else body
        if bb is None or len(t["args"]) < 2:
            return False
        e = strip(Dfx(bb).expr(t["args"][1]))
        for x in walk(e):
            if isinstance(x, tuple) and x[0] == "agg" and x[1] == "closure" and len(x) > 3:
                cid = x[3]
                cb = f.by_id.get(cid)
                if cb is not None:
                    rets = [1 for bl in cb.blocks if bl["term"] and bl["term"]["k"] == "return" and not bl["cleanup"]]
                    reach = cb.reachable(0)
                    return not any(cb.blocks[i]["term"] and cb.blocks[i]["term"]["k"] == "return" for i in reach)
        return False
    except Exception:
        return False


class Subst:
    """facts as substitutions over non-negative atoms.  Facts are kept as a list and solved on demand: equalities first,
    then relations between two or more program atoms (x <= y + k  ->  y := x + k + slack), then bounds of a single atom."""
    def __init__(s):
        s.facts = []        # ("ge", poly, why) | ("eq", poly, why)
        s._solved = None
    def clone(s):
        t = Subst(); t.facts = list(s.facts)
        return t
    # -- recording
    def add_ge(s, g, why=""):
        s.facts.append(("ge", g, why)); s._solved = None
    def add_eq(s, x_atom, p):
        s.facts.append(("eq", Poly.atom(x_atom) - p, "eq")); s._solved = None
    def add_cond(s, c, why=""):
        if c.poly is None:
            return
        p = c.poly
        if c.op == "<": s.add_ge(-p - ONE, why)
        elif c.op == "<=": s.add_ge(-p, why)
        elif c.op == ">": s.add_ge(p - ONE, why)
        elif c.op == ">=": s.add_ge(p, why)
        elif c.op == "==": s.facts.append(("eq", p, why)); s._solved = None
        elif c.op == "!=":
            if len(p.t) == 1 and list(p.t.values())[0] in (1, -1) and len(list(p.t)[0]) == 1:
                s.add_ge(Poly.atom(list(p.t)[0][0]) - ONE, why)
    # -- solving
    @staticmethod
    def _apply(m, p):
        for _ in range(12):
            ch = False
            out = ZERO
            for mono, c in p.t.items():
                term = Poly.const(c)
                for a in mono:
                    if a in m:
                        term = term * m[a]; ch = True
                    else:
                        term = term * Poly.atom(a)
                out = out + term
            p = out
            if not ch:
                break
        return p
    def solve(s):
        if s._solved is not None:
            return s._solved
        m = {}
        dropped = []
        nslack = [0]
        s._contra = False

        def slack():
            nslack[0] += 1
            return Poly.atom("s%d~" % nslack[0])

        def natoms(g):
            return len({a for mono in g.t for a in mono if not a.endswith("~")})
        eqs = [f_ for f_ in s.facts if f_[0] == "eq"]
        ges = [f_ for f_ in s.facts if f_[0] == "ge"]
        ges.sort(key=lambda f_: (0 if natoms(f_[1]) >= 2 else 1))
        for kind, g0, why in eqs:
            q = Subst._apply(m, g0)
            done = False
            for mono, cc in sorted(q.t.items()):
                if abs(cc) == 1 and len(mono) == 1 and sum(1 for m2 in q.t if mono[0] in m2) == 1:
                    rest = Poly({k: (-v if cc == 1 else v) for k, v in q.t.items() if k != mono})
                    if all(v >= 0 for v in rest.t.values()):
                        m[mono[0]] = rest; done = True; break
            if not done and q.t:
                if all(v > 0 for v in q.t.values()):
                    for mono in q.t:
                        if len(mono) == 1: m[mono[0]] = ZERO
                else:
                    dropped.append(("eq", q, why))
        for kind, g0, why in ges:
            g = Subst._apply(m, g0)
            if not g.t or all(c >= 0 for c in g.t.values()):
                continue
            if all(c <= 0 for c in g.t.values()) and g.cval() < 0:
                s._contra = True          # g >= 0 is impossible: the path is infeasible
                continue
            cands = []
            for mono, c in g.t.items():
                if c == 1 and len(mono) == 1:
                    x = mono[0]
                    if sum(1 for m2 in g.t if x in m2) == 1:
                        rest = Poly({k: -v for k, v in g.t.items() if k != mono})
                        if all(v >= 0 for v in rest.t.values()):
                            cands.append((x, rest))
            if cands:
                cands.sort(key=lambda xr: (xr[0].endswith("~"), xr[0]))
                x, rest = cands[0]
                m[x] = rest + slack()
                # re-normalise earlier substitutions that mention x
                for k2 in list(m):
                    if k2 != x:
                        m[k2] = Subst._apply({x: m[x]}, m[k2])
                continue
            pos = [(mm, c) for mm, c in g.t.items() if c > 0]
            neg = [(mm, c) for mm, c in g.t.items() if c < 0]
            if not pos or (len(pos) == 1 and pos[0][0] == ()):
                k = pos[0][1] if pos else 0
                if k == 0:
                    for mm, c in neg:
                        if len(mm) == 1:
                            m[mm[0]] = ZERO
                    continue
            lower = all(c >= 0 for mm, c in g.t.items() if mm != ())      # P - k >= 0 with P non-negative: a lower bound
            dropped.append(("lower" if lower else "upper", g, why))
        s._solved = (m, dropped)
        return s._solved
    def apply(s, p):
        return Subst._apply(s.solve()[0], p)
    def contradictory(s):
        s.solve()
        if s._contra:
            return True
        # a second pass: facts applied under the final substitution
        m = s._solved[0]
        for kind, g0, why in s.facts:
            g = Subst._apply(m, g0)
            if kind == "ge" and g.t and all(c <= 0 for c in g.t.values()) and g.cval() < 0:
                return True
            if kind == "eq" and g.t and (all(c > 0 for c in g.t.values()) and g.cval() > 0 or all(c < 0 for c in g.t.values()) and g.cval() < 0):
                return True
        return False
    @property
    def dropped(s):
        """dropped facts that could make a refuting assignment infeasible (upper bounds / equalities)"""
        return [d for d in s.solve()[1] if d[0] != "lower"]
    def sign(s, T):
        """'nonneg' | 'neg' | 'unknown' for the claim T >= 0"""
        T = s.apply(T)
        if all(c >= 0 for c in T.t.values()):
            return "nonneg", T
        if all(c <= 0 for c in T.t.values()):
            return "neg", T
        if T.cval() < 0 and not s.solve()[1]:
            # every fact became a substitution, so the assignment 'all remaining atoms = 0' is feasible and refutes the claim
            return "neg", T
        return "unknown", T


class State:
    def __init__(s):
        s.env = {}
        s.fields = {}      # (objkind, fieldname) -> value
        s.sub = Subst()
        s.vlen = None      # current Vec length (Poly)
        s.L0 = None        # initialised extent when the window opened
        s.cap = None       # lower bound of the capacity
        s.hidden = False
        s.acc = []         # (kind, off, count, span, J?) pending obligations
        s.moves = []       # block moves inside the buffer in execution order: (src offset, dst offset, count)
        s.pre_moves = []   # every block move made outside loops since the window opened (kept across loops)
        s.writes0 = []     # offsets of single-cell raw writes (outside loops, or in the first iteration of a loop that certainly runs)
    def fork(s):
        t = State()
        t.env = dict(s.env); t.fields = dict(s.fields); t.sub = s.sub.clone()
        t.vlen, t.L0, t.cap, t.hidden = s.vlen, s.L0, s.cap, s.hidden
        t.acc = list(s.acc)
        t.moves = list(s.moves)
        t.pre_moves = list(s.pre_moves)
        t.writes0 = list(s.writes0)
        t.tail_skip = getattr(s, "tail_skip", False)
        return t


class Sym:
    def __init__(s, body, f, R):
        s.b, s.f, s.R = body, f, R
        s.d = body.d
        s.obls = []        # (kind, what, T polynomial >= 0 claim, subst, span, note)
        s.loops = s._loops()
        s.in_loop = None
        s.budget = 4000
        s.adt_fields = {}
        for a in f.adts:
            s.adt_fields[a["id"]] = [x["name"] for x in a["fields"]]

    # ---------------- CFG helpers
    def _loops(s):
        b = s.b
        heads = {}
        color = {}
        stack = [(0, iter(b.succs(0)))]
        color[0] = 1
        order = []
        while stack:
            u, it = stack[-1]
            try:
                v = next(it)
                if color.get(v) == 1:
                    heads.setdefault(v, set()).add(u)
                elif v not in color:
                    color[v] = 1
                    stack.append((v, iter(b.succs(v))))
            except StopIteration:
                color[u] = 2
                stack.pop()
        loops = {}
        preds = b.preds()
        for h, tails in heads.items():
            body = {h}
            work = list(tails)
            while work:
                x = work.pop()
                if x in body:
                    continue
                body.add(x)
                work.extend(p for p in preds[x] if not b.blocks[p]["cleanup"])
            loops[h] = body
        return loops

    # ---------------- places
    def kind_of_ty(s, ty):
        t = norm_ty(ty)
        if re.search(r"toodee::TooDee<", t): return "TooDee"
        if re.search(r"toodee::DrainCol<", t): return "DrainCol"
        if re.search(r"DropGuard<", t): return "Guard"
        if re.search(r"alloc::vec::Vec<", t): return "Vec"
        if re.search(r"NonNull<toodee::TooDee", t): return "NonNullTooDee"
        return None

    def field_name(s, parent_ty, idx):
        t = norm_ty(parent_ty)
        t = re.sub(r"^&(mut )?", "", t)
        for aid, names in s.adt_fields.items():
            if t.startswith(norm_ty(aid) + "<") or t == norm_ty(aid):
                return names[idx] if idx < len(names) else None
        return None

    def read(s, P, p):
        v = P.env.get(p["local"])
        ty = s.b.locals[p["local"]]
        for e in p["proj"]:
            k = e["k"]
            if k == "deref":
                if isinstance(v, RefLocal):
                    v = P.env.get(v.l)
                m = re.match(r"^&(?:'\S+ )?(?:mut )?(.*)$", ty) or re.match(r"^\*(?:mut|const) (.*)$", ty)
                ty = m.group(1) if m else ty
            elif k == "field":
                if isinstance(v, Tup):
                    v = v.f[e["i"]] if e["i"] < len(v.f) else Unk("f")
                elif isinstance(v, Obj):
                    fn_ = s.field_name(ty, e["i"]) if v.kind != "Guard" else "0"
                    if v.kind == "Guard":
                        v = Obj("DrainCol")
                    else:
                        key = (v.kind, fn_)
                        if key in P.fields:
                            v = P.fields[key]
                        else:
                            sub = s.kind_of_ty(e["ty"])
                            if sub:
                                v = Obj(sub)
                            elif e["ty"] == "usize":
                                v = Poly.atom("%s.%s" % (v.kind, fn_))
                            else:
                                v = Unk("%s.%s" % (v.kind, fn_))
                elif isinstance(v, SomeV):
                    v = v.v
                else:
                    v = Unk("f")
                ty = e["ty"]
            elif k == "downcast":
                pass
            else:
                v = Unk("proj")
        return v

    def write(s, P, p, val):
        if not p["proj"]:
            P.env[p["local"]] = val
            return
        # field store through a reference to an object: remember it
        base = P.env.get(p["local"])
        ty = s.b.locals[p["local"]]
        cur = base
        for e in p["proj"][:-1]:
            if e["k"] == "deref":
                if isinstance(cur, RefLocal): cur = P.env.get(cur.l)
                m = re.match(r"^&(?:'\S+ )?(?:mut )?(.*)$", ty) or re.match(r"^\*(?:mut|const) (.*)$", ty)
                ty = m.group(1) if m else ty
            elif e["k"] == "field":
                if isinstance(cur, Obj):
                    fn_ = s.field_name(ty, e["i"])
                    sub = s.kind_of_ty(e["ty"])
                    cur = Obj(sub) if sub else Unk()
                elif isinstance(cur, Tup):
                    cur = cur.f[e["i"]]
                ty = e["ty"]
        last = p["proj"][-1]
        if last["k"] == "field":
            if isinstance(cur, Obj):
                P.fields[(cur.kind, s.field_name(ty, last["i"]))] = val
            elif isinstance(cur, Tup):
                cur.f[last["i"]] = val
            elif isinstance(base, RefLocal) or True:
                pass
        elif last["k"] == "deref":
            if isinstance(cur, RefLocal):
                P.env[cur.l] = val

    def operand(s, P, o):
        if o["k"] in ("copy", "move"):
            return s.read(P, o["p"])
        v = o["val"]
        m = re.match(r"^(?:const )?(\d+)_usize$", v)
        if m: return Poly.const(int(m.group(1)))
        if v in ("const true", "true"): return Cond("==", ZERO)
        if v in ("const false", "false"): return Cond("!=", ZERO)
        return Unk("const")

    def rvalue(s, P, r):
        k = r["k"]
        if k == "use": return s.operand(P, r["o"])
        if k in ("ref", "rawptr"):
            p = r["p"]
            if not p["proj"]:
                v = P.env.get(p["local"])
                if isinstance(v, (Obj, Ptr)) or v is None and False:
                    return v
                return RefLocal(p["local"])
            if len(p["proj"]) == 1 and p["proj"][0]["k"] == "deref" and isinstance(P.env.get(p["local"]), RefLocal):
                return P.env.get(p["local"])
            return s.read(P, p)
        if k == "binop":
            a, b2 = s.operand(P, r["l"]), s.operand(P, r["r"])
            op = r["op"]
            base = op.replace("WithOverflow", "").replace("Unchecked", "")
            if isinstance(a, Poly) and isinstance(b2, Poly):
                if base in ("Add", "Sub", "Mul"):
                    res = {"Add": a + b2, "Sub": a - b2, "Mul": a * b2}[base]
                    if base == "Sub":
                        s.note_obl(P, "count", "subtraction %r - %r does not wrap" % (a, b2), res, r.get("span"))
                    return Tup([res, Cond("!=", ZERO)]) if op.endswith("WithOverflow") else res
                if op in ("Eq", "Ne", "Lt", "Le", "Gt", "Ge"):
                    return Cond({"Eq": "==", "Ne": "!=", "Lt": "<", "Le": "<=", "Gt": ">", "Ge": ">="}[op], a - b2)
            if isinstance(a, Ptr) and isinstance(b2, Ptr) and op in ("Eq", "Ne", "Lt", "Le", "Gt", "Ge"):
                return Cond({"Eq": "==", "Ne": "!=", "Lt": "<", "Le": "<=", "Gt": ">", "Ge": ">="}[op], a.off - b2.off)
            if op in ("Eq", "Ne", "Lt", "Le", "Gt", "Ge"):
                return Unk("cmp")
            if op in ("BitAnd", "BitOr", "BitXor"):
                return Unk("bool")
            return Unk("binop")
        if k == "unop":
            a = s.operand(P, r["o"])
            if r["op"] == "Not" and isinstance(a, Cond): return a.neg()
            return Unk("unop")
        if k == "cast":
            return s.operand(P, r["o"])
        if k == "agg":
            f_ = [s.operand(P, x) for x in r["fields"]]
            if r["agg"] == "tuple": return Tup(f_)
            if r["agg"] == "adt":
                nm = r["adt"].split("::")[-1]
                if nm == "Range" and len(f_) == 2 and all(isinstance(x, Poly) for x in f_): return RangeV(f_[0], f_[1])
                if r["variant"] == "Some": return SomeV(f_[0] if f_ else Unk())
                if r["variant"] == "None": return NoneV()
                kd = s.kind_of_ty(r["adt"] + "<")
                if kd == "Guard": return Obj("Guard")
                return Unk("adt:" + nm)
            return Unk("agg")
        if k == "discr":
            return ("discr", s.read(P, r["p"]))
        return Unk("rv")

    # ---------------- obligations
    def note_obl(s, P, kind, what, T, span):
        P.acc.append((kind, what, T, span))

    def access(s, P, kind, ptr, count, span, what):
        if not isinstance(ptr, Ptr):
            if isinstance(ptr, Unk) and ptr.tag not in ("elem", "slice", "item", "const"):
                P.acc.append(("undecided", "%s: pointer %r is not a tracked offset from the buffer start" % (what, ptr), ZERO, span))
            return
        if not isinstance(count, Poly):
            P.acc.append(("undecided", "%s: count %r not a polynomial" % (what, count), ZERO, span))
            return
        lim = P.L0 if kind == "r" else (P.cap if P.cap is not None else P.L0)
        if lim is None:
            P.acc.append(("undecided", "%s: no extent known" % what, ZERO, span))
            return
        tag = "READ" if kind == "r" else "WRITE"
        P.acc.append((tag, "%s lower bound: offset %r >= 0" % (what, ptr.off), ptr.off, span))
        P.acc.append((tag, "%s upper bound: %r + %r <= %r" % (what, ptr.off, count, lim), lim - ptr.off - count, span))
        P.acc.append((tag, "%s count %r >= 0" % (what, count), count, span))

    # ---------------- calls
    def call(s, P, t):
        """returns list of (state, value) or [] when the path ends"""
        fn = t["func"].get("fn")
        if not fn:
            return [(P, Unk("indirect"))]
        path, name = fn.get("resolved") or fn["path"], fn["name"]
        opath = fn["path"]
        if t["target"] is None or opath.startswith("core::panicking::"):
            return []
        args = [s.operand(P, a) for a in t["args"]]
        a0 = args[0] if args else None
        if isinstance(a0, RefLocal):
            a0v = P.env.get(a0.l)
        else:
            a0v = a0
        if opath in RAW:
            kind, ri, wi, ci = RAW[opath]
            cnt = args[ci] if ci is not None else ONE
            if ri is not None:
                s.access(P, "r", args[ri], cnt, t["span"], "%s source" % name)
            if wi is not None:
                s.access(P, "w", args[wi], cnt, t["span"], "%s destination" % name)
                if kind != "rw" and isinstance(args[wi], Ptr):
                    P.writes0.append(args[wi].off)
            if kind == "rw" and isinstance(args[ri], Ptr) and isinstance(args[wi], Ptr) and isinstance(cnt, Poly):
                mv = (args[ri].off, args[wi].off, cnt)
                if P.moves:
                    P.acc.append(("ORDER", "block move %r -> %r (%r cells) after block move %r -> %r (%r cells)" % (mv + P.moves[-1]), (P.moves[-1], mv), t["span"]))
                P.moves.append(mv)
                if getattr(s, "in_loop", None) is None:
                    P.pre_moves.append(mv)
            return [(P, Unk("elem"))]
        if re.match(r"^core::num::<impl usize>::checked_(add|mul|sub)$", opath) and len(args) == 2 and all(isinstance(x, Poly) for x in args):
            # Some(exact result) or None: every consumer below either takes the payload or leaves on None
            return [(P, Chk(args[0] + args[1] if name == "checked_add" else (args[0] * args[1] if name == "checked_mul" else args[0] - args[1])))]
        if name in ("unwrap", "expect", "unwrap_unchecked", "unwrap_or_else") and isinstance(a0v, Chk) and (name != "unwrap_or_else" or _closure_diverges(s.f, fn, t, s.b)):
            return [(P, a0v.v)]
        if opath == "core::mem::size_of" and not t["args"]:
            return [(P, A("SIZEOF"))]       # the element size: `if mem::size_of::<T>() == 0 { .. }` forks on it like on any value
        if re.match(r"^core::ptr::(mut_ptr|const_ptr)::<impl \*(mut|const) T>::(add|sub|offset|wrapping_add|wrapping_sub)$", opath) and isinstance(a0v, Ptr) and isinstance(args[1], Poly):
            return [(P, Ptr(a0v.off + args[1] if name in ("add", "offset", "wrapping_add") else a0v.off - args[1]))]
        if isinstance(a0v, Obj) and a0v.kind == "Vec":
            if name == "len": return [(P, P.vlen if P.vlen is not None else A("L"))]
            if name in ("as_mut_ptr", "as_ptr"): return [(P, Ptr(ZERO))]
            if name == "set_len":
                if isinstance(args[1], Poly):
                    if not P.hidden:
                        P.L0 = P.vlen
                        P.hidden = True
                        if P.cap is None: P.cap = P.vlen
                    # the length handed to Vec must not exceed what was reserved
                    if P.cap is not None:
                        P.acc.append(("WRITE", "set_len(%r) within the reserved capacity %r" % (args[1], P.cap), P.cap - args[1], t["span"]))
                    if P.hidden and P.L0 is not None and P.vlen is not None and P.vlen == ZERO and getattr(s, "in_loop", None) is None:
                        # closing a window that grows the buffer: the cells behind the old end must have been filled - by the
                        # block move that carries the old tail to the new end (an insertion in the middle), or, when nothing was
                        # shifted at all, only if the new cells were written at the very end.  Decided structurally: some
                        # block move made before the loops ends exactly at the new length.
                        grow = args[1] - P.L0
                        if P.sub.sign(-grow)[0] != "nonneg" and not (grow == ZERO) and not getattr(P, "tail_skip", False):
                            def same_(x, y):
                                if x == y:
                                    return True
                                # .. literally one of the path's equalities (`start == len`, products of atoms included)
                                for k_, q_, _w in P.sub.facts:
                                    if k_ == "eq" and (x - y == q_ or y - x == q_):
                                        return True
                                try:      # equal after substituting the path's equalities (`iter.len() == self.num_rows`)
                                    return P.sub.sign(x - y)[0] == "nonneg" and P.sub.sign(y - x)[0] == "nonneg"
                                except Exception:
                                    return False
                            reaches = any(same_(dst + cnt, args[1]) for (src, dst, cnt) in P.pre_moves) or any(same_(w, P.L0) for w in P.writes0)      # .. or the new cells are written right behind the old end (append, then rotate)
                            # zero-sized elements occupy no memory: on a path that has established `size_of::<T>() == 0` there is
                            # nothing to carry anywhere
                            reaches = reaches or same_(A("SIZEOF"), ZERO)
                            if os.environ.get("VERIF_DEBUG_TAIL") and not reaches:
                                print("TAILDBG pre_moves", P.pre_moves, "writes0", P.writes0, "L0", P.L0, "new", args[1], "facts", [(k_, repr(g_), w_) for k_, g_, w_ in P.sub.facts][-8:])
                            P.acc.append(("TAIL", "a block move carries the old tail to the end of the grown buffer (new length %r)" % (args[1],), ONE if reaches else -ONE, t["span"]))
                    P.vlen = args[1]
                return [(P, Tup([]))]
            if name in ("reserve", "reserve_exact") and isinstance(args[1], Poly):
                P.cap = (P.vlen if P.vlen is not None else A("L")) + args[1]
                return [(P, Tup([]))]
            if name in ("capacity",):
                if P.cap is None:
                    # an unknown capacity that holds at least the current length: `if new_len > v.capacity() { reserve }` then tells
                    # the skipping edge that the room is there
                    P.cap = A("CAP")
                    P.sub.add_ge(A("CAP") - (P.vlen if P.vlen is not None else A("L")), "capacity >= len")
                return [(P, P.cap)]
        if isinstance(a0v, Obj) and a0v.kind == "TooDee":
            if name == "reserve" and isinstance(args[1], Poly):
                P.cap = (P.vlen if P.vlen is not None else A("L")) + args[1]
                return [(P, Tup([]))]
            if name in ("num_rows", "num_cols"):
                return [(P, s.read(P, {"local": t["args"][0]["p"]["local"], "proj": []}) if False else P.fields.get(("TooDee", name), A("TooDee." + name)))]
        if name in ("as_mut", "as_ref") and "NonNull" in opath:
            return [(P, Obj("TooDee"))]
        if name == "from" and "NonNull" in path:
            return [(P, Unk("nonnull"))]
        if name in ("from_raw_parts_mut", "from_raw_parts") and isinstance(args[0], Ptr):
            s.access(P, "r", args[0], args[1], t["span"], "slice::%s region" % name)
            return [(P, Unk("slice"))]
        if name == "new" and "RangeInclusive" in opath and len(args) == 2 and all(isinstance(x, Poly) for x in args):
            return [(P, RangeV(args[0], args[1] + ONE))]        # a..=b visits a .. b+1
        if name in ("into_iter",) and isinstance(a0v, RangeV): return [(P, a0v)]
        if name in ("into_iter", "rev") : return [(P, a0v if a0v is not None else Unk("iter"))]
        if name == "len" and (fn.get("trait") or "").endswith("ExactSizeIterator"):
            return [(P, A("iterlen"))]
        if name in ("next", "next_back") and not isinstance(a0v, RangeV):
            return [(P, OptUnk("item"))]
        if name in ("forget", "drop", "for_each"): return [(P, Tup([]))]
        cb = s.f.crate_fn_for_call(fn)
        if cb is not None and cb.kind == "Closure":
            if any(fn2 and fn2["path"] in RAW for _, _, fn2 in cb.calls()):
                # block moves made through a local closure are not followed: nothing can be said about this function's raw accesses
                raise Inconclusive("raw moves inside the closure %s" % cb.ident)
            return [(P, Unk("closure-result"))]
        return [(P, Unk("call:" + name))]

    # ---------------- execution
    def run(s, P):
        s.step(P, 0, 0)

    def finish(s, P):
        for a in P.acc:
            s.obls.append((a, P.sub.clone()))

    def step(s, P, bb, depth, stop_at=None, collect=None):
        s.budget -= 1
        if s.budget < 0 or depth > 600:
            raise Inconclusive("budget")
        if stop_at is not None and bb == stop_at and depth > 0:
            collect.append(P)
            return
        if bb in s.loops and s.in_loop != bb:
            if s.in_loop is not None:
                raise Inconclusive("nested loop")
            return s.do_loop(P, bb, depth)
        bl = s.b.blocks[bb]
        if bl["cleanup"]:
            return
        for st in bl["stmts"]:
            if st["k"] != "assign":
                continue
            rv = dict(st["rv"]); rv["span"] = st["span"]
            s.write(P, st["p"], s.rvalue(P, rv))
        t = bl["term"]
        if t is None:
            return
        k = t["k"]
        if k == "goto": return s.step(P, t["target"], depth + 1, stop_at, collect)
        if k == "return":
            if stop_at is None:
                s.finish(P)
            return
        if k in ("assert", "drop"): return s.step(P, t["target"], depth + 1, stop_at, collect)
        if k == "call":
            for (Q, v) in s.call(P, t):
                s.write(Q, t["dest"], v)
                s.step(Q, t["target"], depth + 1, stop_at, collect)
            return
        if k == "switch":
            dval = s.operand(P, t["discr"])
            tm = dict((int(a), b2) for a, b2 in t["targets"])
            if isinstance(dval, tuple) and dval[0] == "discr":
                v = dval[1]
                if isinstance(v, SomeV): return s.step(P, tm.get(1, t["otherwise"]), depth + 1, stop_at, collect)
                if isinstance(v, NoneV): return s.step(P, tm.get(0, t["otherwise"]), depth + 1, stop_at, collect)
                # unknown discriminant: explore every target that is not `unreachable`
                for tgt in list(tm.values()) + [t["otherwise"]]:
                    tt = s.b.blocks[tgt]["term"]
                    if tt and tt["k"] == "unreachable":
                        continue
                    s.step(P.fork(), tgt, depth + 1, stop_at, collect)
                return
            if isinstance(dval, Cond):
                for truth, c in ((True, dval), (False, dval.neg())):
                    if c.poly is not None:
                        sg, _ = P.sub.sign(c.poly) if c.op in (">=",) else ("?", None)
                        # infeasibility: the branch claims p < 0 while p is provably >= 0, etc.
                        if s.infeasible(P, c):
                            continue
                    Q = P.fork()
                    Q.sub.add_cond(c, "branch")
                    if Q.sub.contradictory():
                        continue
                    tgt = (t["otherwise"] if 0 in tm else tm.get(1)) if truth else tm.get(0, t["otherwise"])
                    if tgt is None:
                        continue
                    s.step(Q, tgt, depth + 1, stop_at, collect)
                return
            for tgt in set(list(tm.values()) + [t["otherwise"]]):
                tt = s.b.blocks[tgt]["term"]
                if tt and tt["k"] == "unreachable":
                    continue
                s.step(P.fork(), tgt, depth + 1, stop_at, collect)
            return
        if k in ("unreachable", "resume"):
            return
        raise Inconclusive("terminator " + k)

    def infeasible(s, P, c):
        p = c.poly
        if c.op == "<":   # p < 0 impossible when p >= 0
            return P.sub.sign(p)[0] == "nonneg"
        if c.op == ">":   # p > 0 impossible when -p >= 0
            return P.sub.sign(-p)[0] == "nonneg"
        if c.op == "==":
            sg, T = P.sub.sign(p - ONE)
            sg2, T2 = P.sub.sign(-p - ONE)
            return sg == "nonneg" or sg2 == "nonneg"
        if c.op == "!=":
            q = P.sub.apply(p)
            return not q.t
        if c.op == "<=":  # p <= 0 impossible when p - 1 >= 0
            return P.sub.sign(p - ONE)[0] == "nonneg"
        if c.op == ">=":
            return P.sub.sign(-p - ONE)[0] == "nonneg"
        return False

    # ---------------- loops
    def do_loop(s, P, h, depth):
        b = s.b
        bl = b.blocks[h]
        t = bl["term"]
        # the header (possibly after a few straight-line statements) calls Range::next on a local holding the range
        fnr = (t["func"].get("fn") or {}) if t and t["k"] == "call" else {}
        if not (fnr.get("name") == "next" and "Range" in (fnr.get("resolved") or fnr.get("path") or "") + " ".join(fnr.get("args", []))):
            raise Inconclusive("loop at bb%d is not a counted Range loop" % h)
        # evaluate header statements to find the range local
        Q0 = P.fork()
        for st in bl["stmts"]:
            if st["k"] == "assign":
                s.write(Q0, st["p"], s.rvalue(Q0, st["rv"]))
        rng_ref = s.operand(Q0, t["args"][0])
        rl = rng_ref.l if isinstance(rng_ref, RefLocal) else None
        rng = Q0.env.get(rl) if rl is not None else None
        if not isinstance(rng, RangeV):
            raise Inconclusive("loop at bb%d: range value not tracked" % h)
        n = rng.b - rng.a
        if P.sub.sign(n)[0] != "nonneg":
            # n may be negative only for an empty range; decide by cases is beyond this engine
            raise Inconclusive("trip count %r not provably non-negative" % (n,))
        # the switch after the call: Some -> body, None -> exit
        nxt = b.blocks[t["target"]]
        sw = nxt["term"]
        if not sw or sw["k"] != "switch":
            raise Inconclusive("loop header shape")
        tm = dict((int(a), b2) for a, b2 in sw["targets"])
        body_entry, exit_blk = tm.get(1), tm.get(0)
        if body_entry is None or exit_blk is None:
            raise Inconclusive("loop switch shape")
        loop_blocks = s.loops[h]
        # the loop variable: Some(a + J) of a forward range, Some(b - 1 - J) of a reversed one
        item_local = t["dest"]["local"] if not t["dest"]["proj"] else None
        reversed_ = "Rev<" in ((fnr.get("resolved") or "") + " ".join(fnr.get("args", [])) + (fnr.get("self_ty") or ""))
        def item_at(J):
            return (rng.b - ONE - J) if reversed_ else (rng.a + J)
        carried = set()
        for bi in loop_blocks:
            for st in b.blocks[bi]["stmts"]:
                if st["k"] == "assign" and not st["p"]["proj"]:
                    carried.add(st["p"]["local"])
            tt = b.blocks[bi]["term"]
            if tt and tt["k"] == "call" and not tt["dest"]["proj"]:
                carried.add(tt["dest"]["local"])
        carried = {l for l in carried if isinstance(P.env.get(l), (Poly, Ptr))}
        # pass A: increments
        QA = P.fork()
        marks = {}
        for l in carried:
            v = P.env[l]
            at = Poly.atom("@%d" % l)
            marks[l] = at
            QA.env[l] = Ptr(at) if isinstance(v, Ptr) else at
        QA.acc = []
        if item_local is not None:
            QA.env[item_local] = SomeV(Poly.atom("@item"))
        s.in_loop = h
        outs = []
        try:
            s.step(QA, body_entry, depth + 1, stop_at=h, collect=outs)
        finally:
            s.in_loop = None
        delta = {}
        for l in carried:
            ds = set()
            for O in outs:
                v = O.env.get(l)
                off = v.off if isinstance(v, Ptr) else v
                if not isinstance(off, Poly):
                    ds.add(None); continue
                dlt = off - marks[l]
                if any(a.startswith("@") for mono in dlt.t for a in mono):
                    ds.add(None)
                else:
                    ds.add(dlt.key())
            if len(ds) == 1 and None not in ds:
                O = outs[0]
                v = O.env.get(l)
                delta[l] = (v.off if isinstance(v, Ptr) else v) - marks[l]
            elif not outs:
                delta[l] = ZERO
            else:
                delta[l] = None
        # pass B: body at iteration J, checked at J = 0 and J = n-1 under n >= 1
        for Jname, Jval in (("first", ZERO), ("last", n - ONE)):
            QB = P.fork()
            QB.sub.add_ge(n - ONE, "loop executes")
            for l in carried:
                v = P.env[l]
                if delta[l] is None:
                    # no loop-invariant increment: unknown in a generic iteration, but in the FIRST one it still holds its value
                    # from before the loop
                    QB.env[l] = v if Jname == "first" else Unk("widened")
                else:
                    off0 = v.off if isinstance(v, Ptr) else v
                    cur = off0 + Jval * delta[l]
                    QB.env[l] = Ptr(cur) if isinstance(v, Ptr) else cur
            QB.acc = []
            if Jname == "last":
                QB.moves = []          # its predecessor is the previous iteration (checked below), not the code before the loop
            if item_local is not None:
                QB.env[item_local] = SomeV(item_at(Jval))
            s.in_loop = h
            outsB = []
            try:
                s.step(QB, body_entry, depth + 1, stop_at=h, collect=outsB)
            finally:
                s.in_loop = None
            for O in outsB:
                for a in O.acc:
                    s.obls.append(((a[0], "[%s iteration of the loop, n = %r] %s" % (Jname, n, a[1]), a[2], a[3]), O.sub.clone()))
            if Jname == "last":
                last_moves = [list(O.moves) for O in outsB]
            else:
                first_moves = [m for O in outsB for m in O.moves if m not in P.moves]
                first_writes = [w for O in outsB for w in O.writes0 if w not in P.writes0]
        # order of block moves across the back edge: iteration J followed by J+1, checked at both ends (J = 0 and J = n-2)
        for Jname, Ja, Jb in (("first two iterations", ZERO, ONE), ("last two iterations", n - ONE - ONE, n - ONE)):
            ends = []
            for Jval in (Ja, Jb):
                QB = P.fork()
                QB.sub.add_ge(n - ONE - ONE, "loop executes twice")
                for l in carried:
                    v = P.env[l]
                    if delta[l] is None:
                        QB.env[l] = Unk("widened")
                    else:
                        off0 = v.off if isinstance(v, Ptr) else v
                        cur = off0 + Jval * delta[l]
                        QB.env[l] = Ptr(cur) if isinstance(v, Ptr) else cur
                QB.acc = []; QB.moves = []
                if item_local is not None:
                    QB.env[item_local] = SomeV(item_at(Jval))
                s.in_loop = h
                outsC = []
                try:
                    s.step(QB, body_entry, depth + 1, stop_at=h, collect=outsC)
                except Inconclusive:
                    outsC = []
                finally:
                    s.in_loop = None
                ends.append(outsC)
            for Oa in ends[0]:
                for Ob in ends[1]:
                    if Oa.moves and Ob.moves:
                        pr, nx = Oa.moves[-1], Ob.moves[0]
                        s.obls.append((("ORDER", "[%s of the loop, n = %r] block move %r -> %r (%r cells) after block move %r -> %r (%r cells)" % ((Jname, n) + nx + pr), (pr, nx), b.blocks[h]["term"]["span"]), Ob.sub.clone()))
        # after the loop
        QE = P.fork()
        for l in carried:
            v = P.env[l]
            if delta[l] is None:
                QE.env[l] = Unk("widened")
            else:
                off0 = v.off if isinstance(v, Ptr) else v
                fin = off0 + n * delta[l]
                QE.env[l] = Ptr(fin) if isinstance(v, Ptr) else fin
        if rl is not None:
            QE.env[rl] = RangeV(rng.b, rng.b)
        # the block moves of the first iteration count as "made" for the tail-shift clause when the loop certainly runs
        # (a loop that may not run at all is given the benefit of the doubt: its trip count is then the number of new cells)
        QE.writes0 = list(P.writes0) + list(locals().get("first_writes") or [])
        QE.pre_moves = list(P.pre_moves) + list(locals().get("first_moves") or [])
        # the move that precedes the code after the loop: the last iteration's, when the loop certainly ran
        lm = [m for m in (locals().get("last_moves") or []) if m]
        if lm and P.sub.sign(n - ONE)[0] == "nonneg":
            QE.moves = [lm[0][-1]]
        elif lm:
            QE.moves = []
        s.step(QE, exit_blk, depth + 1)


def entry_states(s, b):
    """entry cases for the receiver's shape invariant"""
    out = []
    t1 = norm_ty(b.locals[1]) if b.arg_count >= 1 else ""
    pn = b.param_names()
    if re.search(r"toodee::TooDee<", t1):
        for case in ("nonempty", "empty"):
            P = State()
            P.env[1] = Obj("TooDee")
            R_, C_ = A("R"), A("C")
            if case == "nonempty":
                P.sub.add_ge(R_ - ONE, "R >= 1"); P.sub.add_ge(C_ - ONE, "C >= 1")
                P.fields[("TooDee", "num_rows")] = R_; P.fields[("TooDee", "num_cols")] = C_
                P.vlen = R_ * C_
            else:
                P.fields[("TooDee", "num_rows")] = ZERO; P.fields[("TooDee", "num_cols")] = ZERO
                P.vlen = ZERO
            for i in range(2, b.arg_count + 1):
                P.env[i] = A(pn.get(i, "a%d" % i)) if b.locals[i] == "usize" else Unk(pn.get(i, "a%d" % i))
            out.append((case, P))
    elif re.search(r"DropGuard<|toodee::DrainCol<", t1):
        P = State()
        P.env[1] = Obj("Guard") if "DropGuard<" in t1 else Obj("DrainCol")
        col, nc, nr = A("col"), A("nc"), A("nr")
        P.fields[("DrainCol", "col")] = col; P.fields[("DrainCol", "num_cols")] = nc; P.fields[("DrainCol", "num_rows")] = nr
        P.sub.add_ge(nr - ONE, "drain invariant: num_rows >= 1")
        P.sub.add_ge(nc - col - ONE, "drain invariant: col < num_cols")
        P.vlen = ZERO
        P.L0 = nr * nc
        P.cap = nr * nc
        P.hidden = True
        P.fields[("TooDee", "num_rows")] = ZERO; P.fields[("TooDee", "num_cols")] = ZERO
        out.append(("drain", P))
    return out


def r_rawbounds(f):
    R = Result("R-RAWBOUNDS")
    nsite = 0
    nfun = 0
    for b in f.fn_bodies:
        raw = [(bi, t, fn) for bi, t, fn in b.calls(include_cleanup=False) if fn and (fn["path"] in RAW or fn["name"] in ("from_raw_parts_mut", "from_raw_parts")) and re.search(r"/#\d", " ".join(fn.get("args", [])))]
        if not raw or b.kind == "Closure":
            continue
        fl = b.file.replace("\\", "/")
        if not fl.endswith("src/toodee.rs"):
            continue
        nfun += 1
        sym = Sym(b, f, R)
        cases = entry_states(sym, b)
        if not cases:
            R.inconc(b.ident, "receiver type not modelled")
            continue
        try:
            for case, P in cases:
                sym.case = case
                start = len(sym.obls)
                sym.run(P)
                for i in range(start, len(sym.obls)):
                    a, sub = sym.obls[i]
                    sym.obls[i] = ((a[0], "[%s] %s" % (case, a[1]), a[2], a[3]), sub)
        except Inconclusive as e:
            R.inconc(b.ident, "engine inconclusive: %s" % e)
            continue
        except (KeyError, IndexError, TypeError, AttributeError, RecursionError) as e:
            R.inconc(b.ident, "engine error %s: %r" % (type(e).__name__, e))
            continue
        ok_n = bad_n = und_n = 0
        seen_bad = set()
        seen_und = set()
        proved = []
        for (kind, what, T, span), sub in sym.obls:
            if kind == "undecided":
                und_n += 1
                continue
            if kind == "count" :
                # wrapping subtraction feeding an access is judged through the access itself
                continue
            if kind == "TAIL":
                nsite += 1
                if T == ONE:
                    ok_n += 1
                else:
                    bad_n += 1
                    if "tail" not in seen_bad:
                        seen_bad.add("tail")
                        R.fail(b.ident, "no-tail-shift", "%s grows the buffer and restores the length, but no block move carries the old tail to the new end: unless the line is inserted at the very end, the cells behind the old length are never initialised and the cells at the insertion point are overwritten" % b.ident, b.where(span))
                continue
            if kind == "ORDER":
                # two consecutive block moves inside one buffer: when both shift right (dst >= src) the later one must read
                # strictly below the earlier one's source (back to front), when both shift left strictly above it (front to
                # back); otherwise the later move reads cells the earlier one has already overwritten.  Reported only when
                # the order is refuted AND the two ranges cannot be shown disjoint either.
                (s1, d1, c1), (s2, d2, c2) = T
                nsite += 1
                right = sub.sign(d1 - s1)[0] == "nonneg" and sub.sign(d2 - s2)[0] == "nonneg"
                left = sub.sign(s1 - d1)[0] == "nonneg" and sub.sign(s2 - d2)[0] == "nonneg"
                if right and left:
                    ok_n += 1; continue
                if not (right or left):
                    und_n += 1; continue
                Tm = (s1 - s2 - c2) if right else (s2 - s1 - c1)
                sgm, Tn = sub.sign(Tm)
                disjoint = sub.sign(s2 - d1 - c1)[0] == "nonneg" or sub.sign(d1 - s2 - c2)[0] == "nonneg"
                # no cell left behind: an insertion (cells shift right) moves every cell, so consecutive sources are adjacent; a
                # removal (cells shift left) closes every gap, so consecutive destinations are adjacent
                Tadj = (s1 - s2 - c2) if right else (d2 - d1 - c1)
                sga, Tna = sub.sign(-Tadj)
                if sgm == "nonneg" and sga == "neg" and not sub.dropped and sub.sign(c1)[0] == "nonneg" and sub.sign(c2)[0] == "nonneg":
                    bad_n += 1
                    key = "gap|%s|%r" % ("right" if right else "left", Tna)
                    if key not in seen_bad:
                        seen_bad.add(key)
                        R.fail(b.ident, key, "%s: %s: the two moves shift cells to the %s but leave a gap of %r cells between %s (negative slack %r after substituting the path facts): those cells are never moved to their new place" % (b.ident, what, "right" if right else "left", Tadj, "their sources" if right else "their destinations", Tna), b.where(span))
                    continue
                if sgm == "nonneg" or disjoint:
                    ok_n += 1
                elif sgm == "neg" and not sub.dropped:
                    bad_n += 1
                    key = "order|%s|%r" % ("right" if right else "left", Tn)
                    if key not in seen_bad:
                        seen_bad.add(key)
                        R.fail(b.ident, key, "%s: %s: both moves shift cells to the %s, so they must proceed %s; here the later move's source starts %s the earlier one's (slack %r after substituting the path facts) and the earlier destination [%r, +%r) is not provably clear of the later source [%r, +%r): the later move copies cells that were already overwritten" % (b.ident, what, "right" if right else "left", "back to front" if right else "front to back", "above" if right else "below", Tn, d1, c1, s2, c2), b.where(span))
                else:
                    und_n += 1
                continue
            sg, Tn = sub.sign(T)
            nsite += 1
            if sg == "nonneg":
                ok_n += 1
                if len(proved) < 10:
                    proved.append("%s  -- slack after substituting the path facts: %r" % (what, Tn))
            elif sg == "neg" and not sub.dropped:
                bad_n += 1
                desc = re.sub(r"^\[[^\]]*\] ?", "", what)
                key = "%s|%r" % (re.sub(r"\[.*?\] ", "", what)[:90], Tn)
                if key not in seen_bad:
                    seen_bad.add(key)
                    R.fail(b.ident, key, "%s: %s is violated: after substituting the path facts the slack is %r, which is negative for some inputs - a raw access leaves the buffer" % (b.ident, what, Tn), b.where(span))
            else:
                und_n += 1
                seen_und.add("%s (slack %r%s)" % (what[:110], Tn, ", facts dropped" if sub.dropped else ""))
        R.inst(b.ident, "%d raw-access bound obligations over %d entry cases: %d discharged, %d refuted, %d undecided" % (ok_n + bad_n + und_n, len(cases), ok_n, bad_n, und_n), bad_n == 0, detail=proved)
        for u in sorted(seen_und)[:6]:
            R.inconc(b.ident, "undecided: " + u)
    R.require_floor(nfun, 3, "functions with raw element accesses")
    return R, nsite
