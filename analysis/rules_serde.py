"""R-SERDE (DESIGN 3.7): writer/reader table agreement (t1), key type (t2), duplicate handling note (t3),
panic-free reader (t4: K_OVF / K_LEN discharged by Err-returning guards; K_ZERO is R-ZERO's constructor sink)."""
import re
from .core import Result, AnchorMissing
from .facts import norm_ty, is_caller_code
from .dfx import Dfx, strip, const_str, const_usize, walk, show

PANICKING = re.compile(r"^(core::panicking::.*|core::option::(unwrap_failed|expect_failed)|core::result::unwrap_failed"
                       r"|core::option::Option::<T>::(unwrap|expect)|core::result::Result::<T, E>::(unwrap|expect|unwrap_err|expect_err)|core::slice::index::.*)$")
# std / alloc callees that cannot panic whatever their arguments (everything else outside the crate and outside caller code is
# treated as may-panic in the reader: e.g. Vec::with_capacity, reserve, slice indexing, String::from_utf8(..).unwrap ...)
NOPANIC = re.compile(
    r"^(<core::result::Result<T, E> as core::ops::Try>::branch|<core::option::Option<T> as core::ops::Try>::branch"
    r"|<core::result::Result<T, F> as core::ops::FromResidual<.*>>::from_residual|<core::option::Option<T> as core::ops::FromResidual<.*>>::from_residual"
    r"|core::option::Option::<T>::(ok_or_else|ok_or|is_some|is_none|as_ref|as_mut|take|map|map_or|map_or_else|and_then|unwrap_or|unwrap_or_else|unwrap_or_default|filter|zip|or|or_else|replace|insert|get_or_insert_with|is_some_and|copied|cloned)"
    r"|core::result::Result::<T, E>::(ok|err|is_ok|is_err|map|map_err|and_then|or_else|unwrap_or|unwrap_or_else|unwrap_or_default)"
    r"|alloc::string::String::(as_str|len|is_empty|new)|<alloc::string::String as core::ops::Deref>::deref|<alloc::string::String as core::convert::AsRef<str>>::as_ref"
    r"|<alloc::string::String as core::borrow::Borrow<str>>::borrow"
    r"|core::str::traits::<impl core::cmp::PartialEq for str>::(eq|ne)|core::str::<impl str>::(len|is_empty|as_bytes)|core::str::(converts::)?from_utf8"
    r"|<alloc::string::String as core::cmp::PartialEq<&str>>::eq|<alloc::string::String as core::cmp::PartialEq<str>>::eq|<alloc::string::String as core::cmp::PartialEq>::eq"
    r"|core::num::<impl usize>::(overflowing_|checked_|saturating_|wrapping_)\w+"
    r"|alloc::vec::Vec::<T, A>::(len|is_empty|capacity|as_slice|push|clear|truncate|pop|as_mut_slice)|alloc::vec::Vec::<T>::new|core::slice::<impl \[T\]>::(len|is_empty)"
    r"|core::fmt::Formatter::<'a>::write_str|core::fmt::Arguments::<'a>::\w+|core::marker::PhantomData.*"
    r"|core::mem::(size_of|align_of|swap|replace|take|drop|forget|needs_drop)|core::cmp::(min|max)|core::cmp::Ord::(min|max|cmp)"
    r"|core::cmp::PartialEq::(eq|ne)|core::cmp::PartialOrd::(lt|le|gt|ge|partial_cmp)|core::convert::(From|Into)::(from|into)|core::clone::Clone::clone|core::default::Default::default"
    r")$")


def _lits(e):
    return [const_str(x) for x in walk(e) if const_str(x) is not None]


def _places_sd(x):
    if isinstance(x, dict):
        if "local" in x and "proj" in x:
            yield x
        for v in x.values():
            yield from _places_sd(v)
    elif isinstance(x, list):
        for v in x:
            yield from _places_sd(v)


def _div_guarded(b, bi, tt):
    """a DivisionByZero / RemainderByZero assertion whose divisor is the very value a dominating `match v { 0 => .., _ => .. }`
    (or `if v == 0` / `v != 0`) has excluded on the way here"""
    if not str(tt.get("kind", "")).startswith(("DivisionByZero", "RemainderByZero")):
        return False
    d = Dfx(b)
    # the divisor: the `Eq(divisor, 0)` feeding the assert condition
    divisor = None
    c = strip(d.expr(tt["cond"])) if tt.get("cond") else None
    for x in (walk(c) if c else ()):
        if isinstance(x, tuple) and x[0] == "bin" and x[1] == "Eq" and const_usize(strip(x[3])) == 0:
            divisor = strip(x[2])
    if divisor is None:
        return False
    dom = b.dominators()
    for sb in dom.get(bi, set()):
        t = b.blocks[sb]["term"]
        if sb == bi or not t or t["k"] != "switch":
            continue
        tm = [(int(a_), b2) for a_, b2 in t["targets"]]
        e = strip(d.expr(t["discr"]))
        if e == divisor and any(v == 0 for v, _ in tm):
            zero_tgt = [b2 for v, b2 in tm if v == 0][0]
            if zero_tgt != bi and zero_tgt not in dom.get(bi, set()) and (t["otherwise"] == bi or t["otherwise"] in dom.get(bi, set())):
                return True
        if e[0] == "bin" and e[1] in ("Eq", "Ne") and strip(e[2]) == divisor and const_usize(strip(e[3])) == 0:
            truth_zero = e[1] == "Eq"
            tgt_true = t["otherwise"] if any(v == 0 for v, _ in tm) else dict(tm).get(1)
            tgt_false = dict(tm).get(0, t["otherwise"])
            nz_tgt = tgt_false if truth_zero else tgt_true
            if nz_tgt is not None and (nz_tgt == bi or nz_tgt in dom.get(bi, set())):
                return True
    return False


def _bounded_amount(f, b, e, depth=0):
    """the expression is bounded by a constant-derived cap whatever the document says: `x.min(K)`, `min(x, K / size)`, a constant,
    or a crate helper all of whose results are such"""
    e = strip(e)
    if const_usize(e) is not None or e[0] == "const":
        return True
    if e[0] == "bin" and str(e[1]).startswith(("Div", "Shr", "Rem")):
        return _bounded_amount(f, b, e[2], depth + 1)
    if e[0] == "call" and e[2] in ("min",) and len(e[3]) == 2:
        return any(_bounded_amount(f, b, a, depth + 1) for a in e[3])
    if e[0] == "call" and depth < 2 and len(e) > 4 and isinstance(e[4], dict):
        cb = f.crate_fn_for_call(e[4])
        if cb is not None and cb.kind != "Closure" and cb.blocks:
            hd = Dfx(cb)
            rets = [strip(hd.rvalue(st["rv"])) for _, _, st in cb.stmts() if st["k"] == "assign" and st["p"]["local"] == 0 and not st["p"]["proj"]]
            rets += [strip(hd.expr({"k": "copy", "p": t_["dest"]})) for _, t_, fn_ in cb.calls() if t_.get("dest") and t_["dest"]["local"] == 0 and not t_["dest"]["proj"] and False]
            call_rets = [(t_, fn_) for _, t_, fn_ in cb.calls() if t_.get("dest") and t_["dest"]["local"] == 0 and not t_["dest"]["proj"]]
            ok = bool(rets) or bool(call_rets)
            for r_ in rets:
                ok = ok and _bounded_amount(f, cb, r_, depth + 1)
            for t_, fn_ in call_rets:
                ok = ok and fn_ is not None and fn_["name"] == "min" and any(_bounded_amount(f, cb, hd.expr(a_), depth + 1) for a_ in t_["args"])
            return ok
    return False


def r_serde(f):
    R = Result("R-SERDE")
    n = 0
    if not any(b.file.replace("\\", "/").endswith("src/serde.rs") for b in f.bodies):
        return R, 0
    td = [a for a in f.adts if a["id"].split("::")[-1] == "TooDee"]
    if not td:
        raise AnchorMissing("struct TooDee")
    field_names = [x["name"] for x in td[0]["fields"]]
    want = set(field_names)

    # ---- t1 (writer, derived): literal <-> field of the same name
    ser = f.get("TooDee as Serialize::serialize")
    if ser is None:
        raise AnchorMissing("impl Serialize for TooDee")
    d = Dfx(ser)
    pairs = []
    for bi, t, fn in ser.calls():
        if fn and fn["name"] == "serialize_field":
            lit = const_str(d.expr(t["args"][1]))
            v = strip(d.expr(t["args"][2]))
            fld = None
            for x in walk(v):
                if x[0] == "field" and strip(x[1]) in (("deref", ("param", 1)), ("param", 1)):
                    fld = field_names[x[2]] if x[2] < len(field_names) else None
            if fld is None:
                # hand-written: the field read through the crate's getter of the same name (`self.data()`, `&self.num_rows()`)
                for x in walk(v):
                    if x[0] == "call" and x[2] in field_names and len(x) > 4 and isinstance(x[4], dict) and (x[4].get("krate") == f.raw["crate"] or x[4].get("resolved_krate") == f.raw["crate"]) \
                            and x[3] and any(y in (("param", 1), ("deref", ("param", 1))) for y in walk(x[3][0])):
                        fld = x[2]
            pairs.append((lit, fld))
    n += 1
    ok = len(pairs) == len(field_names) and all(a == b2 for a, b2 in pairs) and {a for a, _ in pairs} == want
    # every field is written for every value: each serialize_field call dominates the `end()` of the struct (a
    # `skip_serializing_if` attribute makes one of them conditional, and the reader requires all three keys)
    sf_blocks = [bi for bi, t, fn in ser.calls() if fn and fn["name"] == "serialize_field"]
    end_blocks = [bi for bi, t, fn in ser.calls() if fn and fn["name"] == "end"]
    dom_s = ser.dominators()
    cond = [bi for bi in sf_blocks if not all(bi in dom_s.get(eb, set()) for eb in end_blocks)]
    skips = [bi for bi, t, fn in ser.calls() if fn and fn["name"] == "skip_field"]
    if ok and (cond or skips or not end_blocks):
        ok = False
        pairs = pairs + [("<conditional>", "a field is skipped for some values")]
    R.inst(ser.ident, "t1 owned-array writer emits (key, field) pairs %s (derived: %s)" % (pairs, ser.d.get("derived")), ok)
    if not ok:
        R.fail(ser.ident, "t1:writer:%s" % ",".join("%s=%s" % p for p in pairs), "the owned array's serialiser writes %s; every key must carry the struct field of the same name and all of %s must be written" % (pairs, sorted(want)), ser.where())

    # ---- t1 (view writers): literal <-> getter of the same name; "data" <-> cells()
    size_map = size_components(f)

    def writer_pairs(b, selfparam=1, depth=0):
        d = Dfx(b)
        pairs = []
        for bi, t, fn in b.calls():
            if fn and fn["name"] == "serialize_field":
                lit = const_str(d.expr(t["args"][1]))
                v = strip(d.expr(t["args"][2]))
                getter = None
                for x in walk(v):
                    if x[0] == "call" and ((x[4] or {}).get("krate") == f.raw["crate"] or (x[4] or {}).get("resolved_krate") == f.raw["crate"]):
                        getter = x[2]
                        break
                # a component of size(): (num_cols, num_rows)
                for x in walk(v):
                    if x[0] == "field" and strip(x[1])[0] == "call" and strip(x[1])[2] == "size" and x[2] in size_map:
                        getter = size_map[x[2]]
                if lit == "data":
                    names = [x[2] for x in walk(v) if x[0] == "call"]
                    getter = "cells" if "cells" in names else (names[0] if names else None)
                    if getter in (None, "new", "with_capacity"):
                        # a Vec filled by `self.cells().for_each(|c| data.push(c))` / a for loop over cells() pushing each cell
                        cells_loops = [t2 for _, t2, fn2 in b.calls() if fn2 and fn2["name"] in ("for_each", "into_iter", "extend", "collect") and any(y[0] == "call" and y[2] == "cells" for a2 in t2["args"] for y in walk(d.expr(a2)))]
                        pushes = [1 for c in [b] + b.closures() for _, _, fn2 in c.calls() if fn2 and fn2["path"].startswith("alloc::vec::Vec::<T, A>::push")]
                        if cells_loops and (pushes or any((t2["func"].get("fn") or {}).get("name") in ("extend", "collect") for t2 in cells_loops)):
                            getter = "cells"
                    if getter is None:
                        # a crate wrapper type around the view whose own Serialize impl writes the sequence of cells()
                        for x in walk(v):
                            if x[0] == "agg" and x[1].startswith("adt:") and any(y in (("param", selfparam), ("deref", ("param", selfparam))) for fl_ in x[2] for y in walk(fl_)):
                                wname = x[1][4:].split("::")[-2] if x[1].count("::") else x[1][4:]
                                wb = [c for c in f.fn_bodies if c.name == "serialize" and c.impl_trait and c.self_head == wname]
                                if len(wb) == 1:
                                    wd = Dfx(wb[0])
                                    seqs = [t2 for _, t2, fn2 in wb[0].calls() if fn2 and fn2["name"] in ("collect_seq", "serialize_seq", "serialize_element")]
                                    inner = [y[2] for _, t2, fn2 in wb[0].calls() for a2 in t2["args"] for y in walk(wd.expr(a2)) if y[0] == "call"]
                                    if seqs and "cells" in inner:
                                        getter = "cells"
                pairs.append((lit, getter))
        if not pairs and depth < 2:
            # the body may have moved into a crate-local helper that receives the view
            for bi, t, fn in b.calls():
                cb = f.crate_fn_for_call(fn) if fn else None
                if cb is not None and cb.id != b.id and any(strip(d.expr(a)) in (("param", selfparam), ("deref", ("param", selfparam))) or _whole_view(strip(d.expr(a)), selfparam) for a in t["args"]):
                    sub = writer_pairs(cb, 1, depth + 1)
                    if sub:
                        return sub
        return pairs

    for who in ("TooDeeView", "TooDeeViewMut"):
        b = f.get("%s as Serialize::serialize" % who)
        if b is None:
            raise AnchorMissing("impl Serialize for %s" % who)
        pairs = writer_pairs(b)
        n += 1
        ok = len(pairs) == 3 and {a for a, _ in pairs} == want and all((k == g) or (k == "data" and g == "cells") for k, g in pairs)
        R.inst(b.ident, "t1 view writer emits (key, getter) pairs %s" % pairs, ok)
        if not ok:
            R.fail(b.ident, "t1:view-writer:%s" % ",".join("%s=%s" % p for p in pairs), "%s writes %s; each key must be paired with the getter of the same name and \"data\" with cells()" % (b.ident, pairs), b.where())
    # ---- reader
    vm = f.get("TooDeeVisitor as Visitor::visit_map")
    if vm is None:
        cands = [b for b in f.fn_bodies if b.name == "visit_map" and b.kind == "AssocFn"]
        if len(cands) != 1:
            raise AnchorMissing("Visitor::visit_map of the TooDee deserialiser")
        vm = cands[0]
    names = {}
    for v in vm.d.get("debug", []):
        val = v.get("v")
        if isinstance(val, dict) and "local" in val and not val.get("proj"):
            names.setdefault(val["local"], v["name"])
    # named slots that are handed to a callee by `&mut` are written there: never read them as their initial value
    mut_borrowed = {st["rv"]["p"]["local"] for _, _, st in vm.stmts() if st["k"] == "assign" and st["rv"]["k"] in ("ref", "rawptr") and (st["rv"].get("mut") or "Mut" in str(st["rv"].get("kind", ""))) and not any(e["k"] == "deref" for e in st["rv"]["p"]["proj"])}
    d = Dfx(vm, opaque={l for l in mut_borrowed if l in names and names[l] in want})
    # t2 key type
    keytys = [fn["args"][-1] for bi, t, fn in vm.calls() if fn and fn["name"] in ("next_key", "next_entry")]
    n += 1
    ok = bool(keytys) and all(not norm_ty(k).startswith("&") and "&" not in norm_ty(k).split("<")[0] for k in keytys)
    R.inst(vm.ident, "t2 map keys are requested as an owned-capable type: %s" % [norm_ty(k) for k in keytys], ok)
    if not ok:
        R.fail(vm.ident, "t2:key:%s" % ",".join(norm_ty(k) for k in keytys), "visit_map asks the MapAccess for keys of type %s; a borrowed &str can only be produced by deserialisers that own the whole input and only for keys without escapes - from_reader / from_value (and escaped keys) fail" % [norm_ty(k) for k in keytys], vm.where())
    # t1 reader literals
    arms = []       # (literal, block of the eq call, true successor)
    for bi, t, fn in vm.calls():
        if fn and fn["name"] == "eq" and ("str" in fn["path"] or "str" in " ".join(fn.get("args", []))):
            lit = None
            for a in t["args"]:
                cs = const_str(d.expr(a))
                if cs is not None:
                    lit = cs
            if lit is not None:
                # the switch on the result
                tb = vm.blocks[t["target"]]["term"] if t["target"] is not None else None
                true_succ = None
                if tb and tb["k"] == "switch":
                    tm = dict((int(a), b2) for a, b2 in tb["targets"])
                    true_succ = tb["otherwise"] if 0 in tm else tm.get(1)
                arms.append((lit, bi, true_succ))
    # keys parsed into a crate enum first (`enum Field` with its own Deserialize): literal -> variant in that impl, variant ->
    # arm of the `match key` in visit_map
    if not arms:
        for kt in keytys:
            ename = norm_ty(kt).split("::")[-1].split("<")[0]
            fbs = [b2 for b2 in f.fn_bodies if b2.name == "deserialize" and b2.impl_trait and b2.self_head == ename]
            if len(fbs) != 1:
                continue
            fb_ = fbs[0]
            fd_ = Dfx(fb_)
            # t2 for the enum: how the key text is obtained
            src_tys = [norm_ty(fn2.get("self_ty") or "") for _, _, fn2 in fb_.calls() if fn2 and fn2["name"] == "deserialize" and (fn2.get("trait") or "").endswith("Deserialize")]
            n += 1
            if src_tys:
                okk = all(not t_.startswith("&") for t_ in src_tys)
                R.inst(fb_.ident, "t2 the key enum reads its text as %s" % src_tys, okk)
                if not okk:
                    R.fail(fb_.ident, "t2:key:%s" % ",".join(src_tys), "%s reads the key as %s: a borrowed &str can only be produced by deserialisers that own the whole input and only for keys without escapes - from_reader / from_value (and escaped keys) fail" % (fb_.ident, src_tys), fb_.where())
            else:
                # visitor-based: deserialize_identifier / _str / _string (FieldVisitor): serde forwards borrowed and owned text to
                # visit_str by default, so a visitor that implements visit_str accepts every transport; one that only
                # implements visit_borrowed_str (or visit_string) does not
                vts = []
                for _, _, fn2 in fb_.calls():
                    if fn2 and fn2["name"] in ("deserialize_identifier", "deserialize_str", "deserialize_string", "deserialize_any"):
                        vts.append(norm_ty((fn2.get("args") or ["?"])[-1]).split("::")[-1].split("<")[0])
                meths = sorted({b2.name for b2 in f.fn_bodies if b2.impl_trait and b2.trait_head == "Visitor" and b2.self_head in vts and b2.name.startswith("visit_")})
                if vts and meths:
                    okk = "visit_str" in meths
                    R.inst(fb_.ident, "t2 the key enum's visitor %s implements %s" % (vts, meths), okk)
                    if not okk:
                        R.fail(fb_.ident, "t2:key:visitor:%s" % ",".join(meths), "%s parses keys with a visitor that implements only %s: transient or owned key text (from_reader, from_value, escaped keys) is rejected - visit_str is the method every transport can reach" % (fb_.ident, meths), fb_.where())
                else:
                    R.inconc(fb_.ident, "t2: how %s obtains the key text is not modelled (visitor-based identifier)" % ename)
            lit2var = {}
            # the classification may sit in the impl itself or in a visitor it hands to the deserialiser (visit_str / visit_string)
            class_bodies = [fb_] + [b2 for b2 in f.fn_bodies if b2 is not fb_ and b2.file == fb_.file and b2.kind != "Closure" and b2.locals and re.search(r"Result<[\w:]*%s\b" % re.escape(ename), norm_ty(b2.locals[0]))]
            for fb_, bi, t, fn in [(cbody, bi, t, fn) for cbody in class_bodies for bi, t, fn in cbody.calls()]:
                fd_ = Dfx(fb_)
                if fn and fn["name"] == "eq" and ("str" in fn["path"] or "str" in " ".join(fn.get("args", []))):
                    lit = None
                    for a in t["args"]:
                        cs = const_str(fd_.expr(a))
                        if cs is not None:
                            lit = cs
                    tb = fb_.blocks[t["target"]]["term"] if t["target"] is not None else None
                    if lit is None or not tb or tb["k"] != "switch":
                        continue
                    tm = dict((int(a), b2) for a, b2 in tb["targets"])
                    ts = tb["otherwise"] if 0 in tm else tm.get(1)
                    seen_, work_ = set(), [ts]
                    while work_:
                        x = work_.pop(0)
                        if x is None or x in seen_ or len(seen_) > 12:
                            continue
                        seen_.add(x)
                        hit = None
                        for st in fb_.blocks[x]["stmts"]:
                            if st["k"] == "assign" and st["rv"]["k"] == "agg" and st["rv"].get("agg") == "adt" and st["rv"]["adt"].split("::")[-1] == ename:
                                hit = st["rv"].get("variant_idx", st["rv"].get("variant"))
                        if hit is not None:
                            lit2var[lit] = hit
                            break
                        tt = fb_.blocks[x]["term"]
                        if tt and tt["k"] == "call" and (tt["func"].get("fn") or {}).get("name") == "eq":
                            continue
                        work_.extend(fb_.succs(x))
            # variant -> block in visit_map
            ead = [a for a in f.adts if a["id"].split("::")[-1] == ename]
            vnames = [v_["name"] if isinstance(v_, dict) else v_ for v_ in (ead[0].get("variants") or [])] if ead else []
            dlocals = set()
            for _, _, st in vm.stmts():
                if st["k"] == "assign" and st["rv"]["k"] == "discr" and not st["p"]["proj"]:
                    pl = st["rv"]["p"]
                    ty_ = norm_ty(vm.locals[pl["local"]])
                    if not pl["proj"] and ty_.split("::")[-1].split("<")[0] == ename:
                        dlocals.add(st["p"]["local"])
            for bi, bl in enumerate(vm.blocks):
                tt = bl["term"]
                if bl["cleanup"] or not tt or tt["k"] != "switch":
                    continue
                dd = tt["discr"]
                if not (dd["k"] in ("copy", "move") and not dd["p"]["proj"] and dd["p"]["local"] in dlocals):
                    continue
                tm = dict((int(a), b2) for a, b2 in tt["targets"])
                for lit, var in lit2var.items():
                    idx = var if isinstance(var, int) else (vnames.index(var) if var in vnames else None)
                    if idx is None:
                        continue
                    arms.append((lit, bi, tm.get(idx, tt["otherwise"])))
    # match on a str may also compile to a jump table on length + memcmp; literals then appear as constants
    lits = sorted({a[0] for a in arms})
    n += 1
    ok = set(lits) == want
    R.inst(vm.ident, "t1 reader matches keys %s (writer keys %s)" % (lits, sorted(want)), ok)
    if not ok:
        R.fail(vm.ident, "t1:reader-keys:%s" % ",".join(lits), "the reader recognises keys %s but the writers emit %s" % (lits, sorted(want)), vm.where())
    # arm -> local stored
    stored = {}
    dup = {}
    for lit, bi, ts in arms:
        if ts is None:
            continue
        seen, work, depth = set(), [(ts, 0)], 0
        while work:
            x, dd = work.pop(0)
            if x in seen or dd > 14:
                continue
            seen.add(x)
            bl = vm.blocks[x]
            hit = False
            for st in bl["stmts"]:
                if st["k"] == "assign" and not st["p"]["proj"] and st["p"]["local"] in names:
                    ev = strip(d.rvalue(st["rv"]))
                    if ev[0] == "agg" and ev[1].endswith("Option::Some"):
                        stored.setdefault(lit, names[st["p"]["local"]])
                        hit = True
            tt = bl["term"]
            if tt and tt["k"] == "call" and tt["func"].get("fn") and not hit:
                # a crate helper that receives `&mut slot` and stores Some(next_value()) through it
                hb = f.crate_fn_for_call(tt["func"]["fn"])
                if hb is not None and hb.id != vm.id:
                    for ai, a in enumerate(tt["args"]):
                        ea = strip(d.expr(a))
                        if ea[0] == "refmut" and strip(ea[1])[0] == "var" and strip(ea[1])[1] in names and _stores_some_through(hb, ai + 1):
                            stored.setdefault(lit, names[strip(ea[1])[1]])
                            hit = True
                    if hit:
                        ls = [const_str(d.expr(a)) for a in tt["args"] if const_str(d.expr(a)) is not None]
                        if ls and any(fn3 and fn3["name"] == "duplicate_field" for _, _, fn3 in hb.calls()):
                            dup[lit] = ls[0]
            if tt and tt["k"] == "call" and tt["func"].get("fn") and tt["func"]["fn"]["name"] == "duplicate_field":
                dl = [const_str(d.expr(a)) for a in tt["args"]]
                dup[lit] = dl[0] if dl else None
            if tt and tt["k"] == "call" and tt["func"].get("fn") and tt["func"]["fn"]["name"] in ("next_key",):
                continue
            if hit:
                continue
            for y in vm.succs(x):
                work.append((y, dd + 1))
    n += 1
    ok = all(stored.get(l) == l for l in lits) and len(lits) > 0
    R.inst(vm.ident, "t1 each key's value is stored in the local of the same name: %s" % stored, ok)
    if not ok:
        R.fail(vm.ident, "t1:reader-store:%s" % ",".join("%s->%s" % (k, v) for k, v in sorted(stored.items())), "the reader stores the value of a key in a differently named slot: %s" % stored, vm.where())
    # t3 note
    if sorted(k for k in dup) != lits:
        R.note("t3: duplicate keys are rejected for %s but silently overwritten for %s (C19 does not list duplicates among the documents that must be rejected)" % (sorted(dup), sorted(set(lits) - set(dup))))
    for k, v in dup.items():
        if v != k:
            R.note("t3: the duplicate_field error for key %s names %s" % (k, v))
    # missing_field literals
    miss = []
    for c in [vm] + vm.closures():
        dc = Dfx(c)
        for bi, t, fn in c.calls():
            if fn and fn["name"] == "missing_field":
                miss += [const_str(dc.expr(a)) for a in t["args"]]
    n += 1
    ok = set(miss) == want
    R.inst(vm.ident, "t1 every field has a missing_field error: %s" % sorted(miss), ok)
    if not ok:
        R.fail(vm.ident, "t1:missing:%s" % ",".join(sorted(miss)), "missing_field is raised for %s, expected one per field %s: a document lacking a field would be accepted or mis-reported" % (sorted(miss), sorted(want)), vm.where())
    # t1c the reader does not depend on the ORDER of the entries: what the arm of one key reads or decides never looks at the
    # slot of another key (a document may list `data` before the dimensions - serde_json's own `Value` sorts its keys)
    if arms:
        domv_ = vm.dominators()
        slot_of = {loc: nm for loc, nm in names.items() if nm in want}
        cross = []
        for lit, abi, tsucc in arms:
            if lit not in want or tsucc is None:
                continue
            region = [x for x in range(len(vm.blocks)) if (x == tsucc or tsucc in domv_.get(x, set())) and not vm.blocks[x]["cleanup"]]
            for x in region:
                bl_ = vm.blocks[x]
                for pl in _places_sd([bl_["stmts"], {k_: v_ for k_, v_ in (bl_["term"] or {}).items() if k_ != "dest"}]):
                    nm_ = slot_of.get(pl["local"])
                    if nm_ and nm_ != lit:
                        cross.append((lit, nm_, x))
        n += 1
        R.inst(vm.ident, "t1c no arm of the key match reads the slot of another key (order independence)", not cross)
        for lit, nm_, x in cross[:1]:
            R.fail(vm.ident, "t1c:order:%s-reads-%s" % (lit, nm_), "the arm for `%s` reads the slot of `%s`: what is accepted for `%s` then depends on whether `%s` came earlier in the document, and self-describing formats do not promise an order (serde_json's Value sorts keys: `data` comes first)" % (lit, nm_, lit, nm_), vm.where())
    # t1b the slots start empty: a slot that is pre-filled (from the visitor's own state, say) makes the missing-field test pass
    # for documents that lack the entry, and hides a repeated entry
    keyblocks = [bi for bi, t, fn in vm.calls() if fn and fn["name"] in ("next_key", "next_entry", "next_key_seed")]
    domv = vm.dominators()
    d_plain = Dfx(vm)
    for loc, nm in sorted(names.items()):
        if nm not in want or not keyblocks:
            continue
        inits = [(bi, si, st) for bi, si, st in vm.stmts() if st["k"] == "assign" and st["p"]["local"] == loc and not st["p"]["proj"]
                 and all(bi == kb or bi in domv.get(kb, set()) for kb in keyblocks)]
        if len(inits) != 1:
            continue
        e0 = strip(d_plain.rvalue(inits[0][2]["rv"]))
        empty = e0[0] == "agg" and str(e0[1]).endswith("None") or (e0[0] == "const" and "None" in str(e0[1]))
        if not ("Option" in str(vm.locals[loc])):
            continue
        n += 1
        R.inst(vm.ident, "t1b the slot `%s` starts as None" % nm, bool(empty))
        if not empty:
            R.fail(vm.ident, "t1b:prefilled:%s" % nm, "visit_map's slot for `%s` does not start empty (it starts as %s): a document without a `%s` entry passes the missing-field test with whatever the slot held, and a repeated entry is not noticed" % (nm, show(e0)[:80], nm), vm.where(inits[0][2]["span"]))
    # FIELDS table
    fb = [b for b in f.bodies if b.kind.startswith("Const") and b.name == "FIELDS"]
    if fb:
        fl = []
        for p in fb[0].d.get("promoted", []):
            for bl in p["blocks"]:
                for st in bl["stmts"]:
                    if st["k"] == "assign" and st["rv"]["k"] == "agg":
                        for o in st["rv"]["fields"]:
                            m = re.match(r'^(?:const )?"(.*)"$', o.get("val", ""))
                            if m:
                                fl.append(m.group(1))
        n += 1
        ok = set(fl) == want
        R.inst(fb[0].ident, "t1 FIELDS table lists %s" % fl, ok)
        if not ok:
            R.fail(fb[0].ident, "t1:FIELDS:%s" % ",".join(fl), "the FIELDS table (reported to the user by unknown_field) lists %s, the format has %s" % (fl, sorted(want)), fb[0].where())
    # constructor call: arguments are the parsed locals in parameter order
    ctor = [(bi, t, fn) for bi, t, fn in vm.calls() if fn and f.crate_fn_for_call(fn) is not None and norm_ty(vm.locals[t["dest"]["local"]] if not t["dest"]["proj"] else "").startswith("toodee::TooDee<")]
    ctor = [(bi, t, fn) for bi, t, fn in vm.calls() if fn and fn["name"] in ("from_vec", "from_box", "init", "new") and f.crate_fn_for_call(fn) is not None and f.crate_fn_for_call(fn).self_head == "TooDee"]
    host, names_vm = vm, names
    if not ctor:
        # the validation tail may live in a crate helper that receives the parsed values
        for bi_, t_, fn_ in vm.calls():
            hb_ = f.crate_fn_for_call(fn_) if fn_ else None
            if hb_ is None or hb_.kind == "Closure" or hb_.id == vm.id:
                continue
            hc_ = [(bi2, t2, fn2) for bi2, t2, fn2 in hb_.calls() if fn2 and fn2["name"] in ("from_vec", "from_box", "init", "new") and f.crate_fn_for_call(fn2) is not None and f.crate_fn_for_call(fn2).self_head == "TooDee"]
            if not hc_:
                continue
            # the helper must receive each parsed value in the parameter of the same name
            hpn = hb_.param_names()
            got_ = []
            for a in t_["args"]:
                e = strip(d.expr(a)); nm = None
                for x in walk(e):
                    if x[0] in ("var", "param") and x[1] in names:
                        nm = names[x[1]]; break
                got_.append(nm)
            want_ = [hpn.get(i + 1) for i in range(len(t_["args"]))]
            n += 1
            okh = all((w == a) or (w not in want) for w, a in zip(want_, got_))
            R.inst(vm.ident, "t1 helper %s%s receives the parsed values %s" % (hb_.ident, tuple(want_), got_), okh)
            if not okh:
                R.fail(vm.ident, "t1:ctor-args:%s" % ",".join(str(a) for a in got_), "visit_map passes %s to %s%s: dimensions exchanged or wrong slot" % (got_, hb_.ident, tuple(want_)), vm.where(t_["span"]))
            host, ctor = hb_, hc_
            names = {}
            for v in hb_.d.get("debug", []):
                val = v.get("v")
                if isinstance(val, dict) and "local" in val and not val.get("proj"):
                    names.setdefault(val["local"], v["name"])
            d = Dfx(hb_)
            break
    if not ctor:
        R.inconc(vm.ident, "no call of a TooDee constructor found in visit_map (built differently?)")
        return R, n
    # the last constructor call with non-constant dimensions is the one that carries the parsed values
    ctor = sorted(ctor, key=lambda c_: sum(1 for a in c_[1]["args"] if a["k"] == "const"))
    bi, t, fn = ctor[0]
    cb = f.crate_fn_for_call(fn)
    vm_orig, vm = vm, host
    pn = cb.param_names()
    argn = []
    for a in t["args"]:
        e = strip(d.expr(a))
        nm = None
        for x in walk(e):
            if x[0] in ("var", "param") and x[1] in names:
                nm = names[x[1]]
                break
        if nm is None and a["k"] in ("copy", "move"):
            nm = names.get(a["p"]["local"])
        argn.append(nm)
    wantn = [pn.get(i + 1) for i in range(len(t["args"]))]
    n += 1
    ok = all((w == a) or (w not in want and a == "data") for w, a in zip(wantn, argn))
    R.inst(vm.ident, "t1 constructor %s%s receives the parsed values %s" % (cb.ident, tuple(wantn), argn), ok)
    if not ok:
        R.fail(vm.ident, "t1:ctor-args:%s" % ",".join(str(a) for a in argn), "visit_map passes %s to %s%s: dimensions exchanged or wrong slot" % (argn, cb.ident, tuple(wantn)), vm.where(t["span"]))

    # ---- t4: panic-free reader
    # (i) no panicking callee in the reader's own code
    reader_bodies = [vm_orig] + vm_orig.closures()
    for b in f.fn_bodies:
        if b in reader_bodies:
            continue
        fl_ = b.file.replace("\\", "/")
        if not fl_.endswith("src/serde.rs"):
            continue
        root_b = f.by_id.get(b.d["root"], b)
        it = norm_ty(root_b.impl_trait or "")
        if "Serialize" in it and "Deserialize" not in it:
            continue          # the writers
        sig_ = norm_ty(root_b.d.get("sig") or "")
        if re.search(r"\bSerializer\b|ser::Serialize", sig_) or any(fn_ and fn_["name"] in ("serialize_struct", "serialize_field", "serialize_seq", "serialize_map") for _, _, fn_ in root_b.calls()):
            continue          # helpers of the writers
        # every deserialisation-side body of the module: Deserialize / Visitor / DeserializeSeed impls, helper types' methods, closures
        reader_bodies.append(b)
    bad = []
    ctor_ids = {b.id for b in f.fn_bodies if b.self_head == "TooDee" and b.name in ("from_vec", "from_box", "init", "new")}
    ncalls = 0
    for b in reader_bodies:
        for bi2, t2, fn2 in b.calls():
            ncalls += 1
            if fn2 is None:
                bad.append((b, t2, "indirect call"))
                continue
            path2 = fn2.get("resolved") or fn2["path"]
            if fn2["name"] == "with_capacity" and fn2["path"].startswith("alloc::vec::Vec::<T>::") and t2["args"] and _bounded_amount(f, b, Dfx(b).expr(t2["args"][0])):
                continue          # an initial capacity capped by `min(.., constant / size)`: a hint, not the document's claim
            if PANICKING.match(path2) or PANICKING.match(fn2["path"]):
                bad.append((b, t2, fn2["path"]))
                continue
            if is_caller_code(fn2) or fn2.get("krate") in ("serde_core", "serde") and fn2.get("trait"):
                continue          # the transport's / element type's code: declined (documented)
            cb2 = f.crate_fn_for_call(fn2)
            if cb2 is not None:
                if cb2.id in ctor_ids or cb2 in reader_bodies or cb2.kind == "Closure":
                    continue      # the asserting constructor is handled through its classified preconditions below
                # any other crate function: must itself be free of panics (one level)
                inner = [fn3["path"] for _, _, fn3 in cb2.calls() if fn3 and (PANICKING.match(fn3["path"]) or not (NOPANIC.match(fn3.get("resolved") or fn3["path"]) or NOPANIC.match(fn3["path"]) or is_caller_code(fn3) or f.crate_fn_for_call(fn3) is not None))]
                asserts = [tt for bi3, bl in enumerate(cb2.blocks) for tt in [bl["term"]] if tt and tt["k"] == "assert" and not bl["cleanup"] and not tt["kind"].startswith("Overflow") and not _div_guarded(cb2, bi3, tt)]
                if inner or asserts:
                    bad.append((b, t2, "%s (which can panic: %s)" % (norm_ty(cb2.id), (inner + ["assert"])[:2])))
                continue
            if NOPANIC.match(path2) or NOPANIC.match(fn2["path"]):
                continue
            bad.append((b, t2, "may-panic callee " + norm_ty(path2)))
        for bi2, bl in enumerate(b.blocks):
            tt = bl["term"]
            if tt and tt["k"] == "assert" and not bl["cleanup"] and not tt["kind"].startswith("Overflow") and not _div_guarded(b, bi2, tt):
                bad.append((b, tt, "assert " + tt["kind"]))
    n += 1
    R.inst(vm.ident, "t4 the reader's own code (%d bodies, %d calls) only calls the transport / element code, non-panicking std primitives and the asserting constructor; no division or bounds assertion" % (len(reader_bodies), ncalls), not bad)
    for b, t2, p in bad:
        R.fail(b.ident, "t4:panic:%s" % re.sub(r"[^A-Za-z0-9_:<> ]", "", p.split("::")[-1])[:40], "%s can panic (%s) while deserialising; it must return Err" % (b.ident, p), b.where(t2["span"]))
    # (ii) constructor preconditions K_OVF, K_LEN discharged
    kinds = classify_ctor_panics(f, cb)
    dom = vm.dominators()
    cargs = [strip(d.expr(a)) for a in t["args"]]
    dim_args = [cargs[i] for i in range(len(cargs)) if cb.locals[i + 1] == "usize"]
    for kind in sorted(kinds):
        if kind == "K_ZERO":
            continue          # R-ZERO's constructor sink decides it
        n += 1
        ok, why = False, "no dominating guard"
        for gb in sorted(dom.get(bi, set())):
            tt = vm.blocks[gb]["term"]
            if not tt or tt["k"] != "switch":
                continue
            e = strip(d.expr(tt["discr"]))
            tm = dict((int(a), b2) for a, b2 in tt["targets"])
            false_succ = tm.get(0, tt["otherwise"])
            true_succ = tm.get(1) if 1 in tm else tt["otherwise"]
            reach_t = bi in vm.reachable(true_succ) if true_succ is not None else False
            reach_f = bi in vm.reachable(false_succ)
            if kind == "K_OVF":
                # overflow flag of a multiplication of exactly the two dimension arguments
                hit = False
                for x in walk(e):
                    if x[0] == "field" and x[2] == 1 and x[1][0] == "call" and x[1][2] == "overflowing_mul" and _same_pair(x[1][3], dim_args):
                        hit = "flag"
                    if x[0] == "discr" and any(y[0] == "call" and y[2] == "checked_mul" and _same_pair(y[3], dim_args) for y in walk(x)):
                        # Option (None = 0) or, after `.ok_or(..)?`, the ControlFlow of Try::branch (Continue = 0)
                        inner = strip(x[1])
                        hit = "discr-cf" if inner[0] == "call" and inner[2] == "branch" else "discr"
                if hit == "flag" and reach_f and not reach_t:
                    ok, why = True, "overflow flag of overflowing_mul(num_cols, num_rows) branches to Err"
                if hit == "discr" and reach_t and not reach_f:
                    ok, why = True, "checked_mul(num_cols, num_rows) None branches to Err"
                if hit == "discr-cf" and reach_f and not reach_t:
                    ok, why = True, "checked_mul(num_cols, num_rows).ok_or(..)? : None becomes Err and is returned by `?`"
            if kind == "K_LEN" and e[0] == "bin" and e[1] in ("Ne", "Eq"):
                sides = [strip(e[2]), strip(e[3])]
                has_len = any(s_[0] == "call" and s_[2] == "len" for s_ in sides)
                has_prod = any(_is_product(s_, dim_args) for s_ in sides)
                if has_len and has_prod:
                    good_is_true = e[1] == "Eq"
                    if (good_is_true and reach_t and not reach_f) or ((not good_is_true) and reach_f and not reach_t):
                        ok, why = True, "product compared with data.len(), mismatch branches to Err"
        R.inst(vm.ident, "t4 constructor precondition %s is discharged before the call: %s" % (kind, why), ok)
        if not ok:
            R.fail(vm.ident, "t4:%s" % kind, "visit_map calls %s, which panics on %s, without first returning Err for such documents" % (cb.ident, {"K_OVF": "num_cols*num_rows overflowing", "K_LEN": "num_cols*num_rows != data.len()"}.get(kind, kind)), vm.where(t["span"]))
    if "K_UNKNOWN" in kinds:
        R.fail(vm.ident, "t4:K_UNKNOWN", "the constructor %s has a panic condition the classifier does not recognise; it cannot be shown to be discharged" % cb.ident, vm.where(t["span"]))
    return R, n


def _whole_view(e, selfparam):
    """`&self.view((0, 0), self.size())`: a read-only view of the whole receiver (same dimensions, same cells)"""
    e = strip(e)
    if e[0] in ("ref", "refmut"):
        e = strip(e[1])
    if e[0] != "call" or e[2] != "view" or len(e[3]) != 3:
        return False
    recv, start, end = [strip(x) for x in e[3]]
    me = (("param", selfparam), ("deref", ("param", selfparam)), ("ref", ("deref", ("param", selfparam))))
    if recv not in me:
        return False
    if not (start[0] == "agg" and start[1] == "tuple" and [const_usize(strip(x)) for x in start[2]] == [0, 0]):
        return False
    return end[0] == "call" and end[2] == "size" and len(end[3]) == 1 and strip(end[3][0]) in me


def _stores_some_through(hb, param):
    """the helper assigns `*param = Some(<value obtained from next_value / next_element>)`"""
    hd = Dfx(hb)
    for _, _, st in hb.stmts():
        if st["k"] == "assign" and st["p"]["local"] == param and [e["k"] for e in st["p"]["proj"]] == ["deref"]:
            ev = strip(hd.rvalue(st["rv"]))
            if ev[0] == "agg" and ev[1].endswith("Option::Some") and any(x[0] == "call" and x[2] in ("next_value", "next_value_seed", "next_element") for x in walk(ev)):
                return True
    return False


def size_components(f):
    """tuple component -> getter name of the provided `size()` (today (num_cols, num_rows)), read from its own body"""
    out = {}
    for b in f.fn_bodies:
        if b.name == "size" and b.trait_provided and b.trait_head == "TooDeeOps":
            d = Dfx(b)
            e = strip(d.local_expr(0))
            if e[0] == "agg" and e[1] == "tuple":
                for i, x in enumerate(e[2]):
                    x = strip(x)
                    if x[0] == "call":
                        out[i] = x[2]
    return out


def _same_pair(args, dim_args):
    a = [strip(x) for x in args]
    return len(a) == 2 and len(dim_args) >= 2 and ((a[0] == dim_args[0] and a[1] == dim_args[1]) or (a[0] == dim_args[1] and a[1] == dim_args[0]))


def _is_product(e, dim_args):
    e = strip(e)
    if e[0] == "field" and e[2] == 0 and e[1][0] == "call" and e[1][2] in ("overflowing_mul",) and _same_pair(e[1][3], dim_args):
        return True
    if e[0] == "bin" and e[1].startswith("Mul") and _same_pair([e[2], e[3]], dim_args):
        return True
    if e[0] == "field" and e[2] == 0 and strip(e[1])[0] == "downcast" and strip(e[1])[2] == "Some":
        inner = strip(strip(e[1])[1])
        if inner[0] == "call" and inner[2] == "checked_mul" and _same_pair(inner[3], dim_args):
            return True
    if e[0] == "call" and e[2] in ("unwrap", "unwrap_unchecked") and e[3] and strip(e[3][0])[0] == "call" and strip(e[3][0])[2] == "checked_mul" and _same_pair(strip(e[3][0])[3], dim_args):
        return True
    # the value carried out of `checked_mul(..).ok_or_else(..)?`: peel Continue/Some/Ok payloads, Try::branch and ok_or*
    x = e
    for _ in range(8):
        x = strip(x)
        if x[0] == "field" and x[2] == 0 and strip(x[1])[0] == "downcast" and strip(x[1])[2] in ("Continue", "Some", "Ok"):
            x = strip(x[1])[1]
        elif x[0] == "call" and x[2] in ("branch", "ok_or_else", "ok_or") and x[3]:
            x = x[3][0]
        elif x[0] == "call" and x[2] == "checked_mul":
            return _same_pair(x[3], dim_args)
        else:
            break
    return False


def classify_ctor_panics(f, cb):
    """panic conditions of an asserting constructor, from its own MIR: every diverging block is classified by the
    condition of the nearest dominating branch that decides it (not by which panic function is called)"""
    kinds = set()
    d = Dfx(cb)
    dom = cb.dominators()
    for bi, t, fn in cb.calls():
        if not fn:
            continue
        p = fn["path"]
        if p in ("core::option::Option::<T>::unwrap", "core::option::Option::<T>::expect"):
            e = strip(d.expr(t["args"][0]))
            if e[0] == "call" and e[2] in ("checked_mul",):
                kinds.add("K_OVF")
            else:
                kinds.add("K_UNKNOWN")
            continue
        diverges = t["target"] is None or p.startswith("core::panicking::")
        if not diverges:
            continue
        # nearest dominating switch
        cands = sorted((x for x in dom.get(bi, set()) if x != bi and cb.blocks[x]["term"] and cb.blocks[x]["term"]["k"] == "switch"), key=lambda x: len(dom.get(x, set())))
        kind = "K_UNKNOWN"
        # look at all dominating conditions from the nearest outwards until one classifies
        for x in reversed(cands):
            e = strip(d.expr(cb.blocks[x]["term"]["discr"]))
            leaves = [y for y in walk(e) if y[0] in ("param", "call", "const", "var", "field")]
            names = [y[2] for y in walk(e) if y[0] == "call"]
            if "len" in names:
                kind = "K_LEN"
                break
            if any(nm in ("checked_mul", "overflowing_mul", "checked_add") for nm in names):
                kind = "K_OVF"
                break
            params = {y[1] for y in walk(e) if y[0] == "param"}
            consts = [const_usize(y) for y in walk(e) if y[0] == "const"]
            if params and not names and all(c in (0, None) for c in consts) and all(cb.locals[p_] == "usize" for p_ in params):
                kind = "K_ZERO"
                break
        kinds.add(kind)
    return kinds
