"""E3 compile-fail witnesses: a generated crate that path-depends on the tree under analysis, with the tree's own
Cargo.lock, run with `cargo +nightly test --doc --offline` (error codes are only honoured on nightly).
Only rustc runs (type checking of tiny programs against the crate's public API); the compiling twins are `no_run`."""
import hashlib, os, re, shutil, subprocess, tempfile
from .core import Result
from . import facts as F


def r_witness(root=None):
    R = Result("R-ENCAPS-W")
    root = os.path.abspath(root or F.REPO)
    src = os.path.join(F.VERIF, "witness", "src", "lib.rs")
    # the verdicts depend only on the tree and on the witness source: computed once per tree (rustc really runs each time the
    # tree changes), shared by the three checks that include them
    key = F._sha_tree(root) + hashlib.sha256(open(src, "rb").read()).hexdigest()[:8]
    tag = "repo" if root == "/repo" else "scratch" + hashlib.sha256(root.encode()).hexdigest()[:10]
    cfile = os.path.join(F.WORK, "facts", "%s-%s-witness.txt" % (tag, key))
    tmp = tempfile.mkdtemp(prefix="wit-", dir=F.WORK if os.path.isdir(F.WORK) else None)
    try:
        os.makedirs(os.path.join(tmp, "src"))
        shutil.copy(src, os.path.join(tmp, "src", "lib.rs"))
        with open(os.path.join(tmp, "Cargo.toml"), "w") as fh:
            fh.write('[package]\nname = "toodee-witness"\nversion = "0.0.0"\nedition = "2021"\n\n[dependencies]\ntoodee = { path = "%s" }\n\n[workspace]\n' % root)
        lock = os.path.join(root, "Cargo.lock")
        if os.path.exists(lock):
            txt = open(lock).read()
            # add our own package entry so that --offline --locked resolution succeeds without network
            shutil.copy(lock, os.path.join(tmp, "Cargo.lock"))
        env = dict(os.environ, CARGO_NET_OFFLINE="true", CARGO_TARGET_DIR=os.path.join(tmp, "target"))
        env.pop("RUSTC_WORKSPACE_WRAPPER", None)
        if os.path.exists(cfile) and os.path.getsize(cfile) > 200:
            out = open(cfile).read()
        else:
            import fcntl
            os.makedirs(os.path.dirname(cfile), exist_ok=True)
            with open(cfile + ".lock", "w") as lk:
                fcntl.flock(lk, fcntl.LOCK_EX)
                if os.path.exists(cfile) and os.path.getsize(cfile) > 200:
                    out = open(cfile).read()
                else:
                    r = subprocess.run(["cargo", "+nightly", "test", "--doc", "--offline"], cwd=tmp, env=env, stdout=subprocess.PIPE, stderr=subprocess.STDOUT, text=True)
                    out = r.stdout
                    if re.search(r"^test src/lib.rs - ", out, re.M):
                        for fn_ in os.listdir(os.path.dirname(cfile)):
                            if fn_.startswith(tag + "-") and fn_.endswith("-witness.txt"):
                                try:
                                    os.remove(os.path.join(os.path.dirname(cfile), fn_))
                                except OSError:
                                    pass
                        with open(cfile, "w") as fh:
                            fh.write(out)
        tests = re.findall(r"^test src/lib.rs - (\w+) \(line (\d+)\)( - compile fail| - compile)? \.\.\. (\w+)", out, re.M)
        if not tests:
            R.fail("<witness>", "harness", "the witness crate did not build / run:\n%s" % out[-1500:])
            return R, 0
        for name, line, kind, verdict in tests:
            is_cf = "fail" in (kind or "")
            ok = verdict == "ok"
            what = ("%s: violating program is rejected by the compiler with the expected error code" if is_cf else "%s: compiling twin (differs only in the offending line) type-checks") % name
            R.inst(name, what, ok)
            if not ok:
                if is_cf:
                    R.fail(name, "compiles", "witness %s: a program that breaks the encapsulation of the shape state from outside the crate now compiles (or fails with a different error): see witness/src/lib.rs line %s" % (name, line), "witness/src/lib.rs:%s" % line)
                else:
                    R.fail(name, "twin-broken", "witness %s: the compiling twin no longer compiles - the public API it uses changed, the witness is vacuous" % name, "witness/src/lib.rs:%s" % line)
        R.require_floor(len(tests), 20, "witness doctests")
        return R, len(tests)
    finally:
        shutil.rmtree(tmp, ignore_errors=True)
