"""Property -> rules table (DESIGN.md section 4).  Each entry names the clauses decided and declined."""
import re
from .core import Result
from . import rules_struct as S
from . import rules_zero as Z
from . import rules_shape as SH
from . import rules_units as U
from . import rules_guard as GU
from . import rules_serde as SE
from . import rules_encaps as EN
from . import rules_cursor as CU
from . import rules_layout as LA
from . import rules_flat as FL
from . import witness as WI
from . import rules_misc as MI
from . import rules_rawbounds as RB

TRUSTED_BASE = [
    "rustc nightly (type checker, MIR construction at mir-opt-level=0, compile_fail diagnostics)",
    "std's documented contracts for the modelled callees (Vec::set_len/drain/clear/truncate, split_at*, get_unchecked*, ptr::*, mem::take, swap/rotate/reverse, sort_by vs sort_unstable_by, checked_/overflowing_ arithmetic)",
    "serde's derive contract (field names of the struct are the keys written)",
    "the layout lemmas L-POS, L-ROW, L-COLV, L-COLO, L-PREFIX, L-WINDOW, L-EMPTY, L-ROWITEM, L-SWAPROWS, L-NTH and the strided-cursor induction (DESIGN.md 3.4, 3.5; pen and paper)",
    "the table of parameter roles/units read off the API documentation (DESIGN.md 3.4)",
]
ASSUMPTIONS = [
    "static analysis of MIR only: no toodee code is executed, no solver is called",
    "language-inserted overflow assertions are neither guards nor unwind points",
    "the clauses decided are necessary conditions of the property; the declined clauses (coverage.declined) are not decided",
]

_cache = {}


def _run(name, f):
    key = (name, f.path)
    if key in _cache:
        return _cache[key]
    if name == "deleg":
        r = [S.r_deleg(f)]
    elif name == "take":
        r = [S.r_take(f)[0]]
    elif name == "ovf":
        r = [S.r_ovf(f)[0]]
    elif name == "sortshape":
        r = [S.r_sortshape(f)[0]]
    elif name == "dup":
        r = [S.r_dup(f)[0]]
    elif name == "zstptr":
        r = [S.r_zstptr(f)[0]]
    elif name == "flat_struct":
        r = [S.r_flat_struct(f)[0]]
    elif name == "zero":
        r = [Z.r_zero(f, serde_sinks=True)[0]]
    elif name == "nonzero":
        r = [Z.r_nonzero(f)[0]]
    elif name == "shape":
        r = SH.r_shape(f)[0]
    elif name == "units":
        r = [U.r_units(f)[0]]
    elif name == "guard":
        r = GU.r_guard(f)[0]
    elif name == "serde":
        r = [SE.r_serde(f)[0]]
    elif name == "encaps":
        r = [EN.r_encaps(f)[0]]
    elif name == "cursor":
        r = [CU.r_cursor(f)[0]]
    elif name == "layout":
        r = [LA.r_layout(f)[0]]
    elif name == "nth":
        r = [LA.r_nth(f)[0]]
    elif name == "flatseq":
        r = [FL.r_flatseq(f)[0]]
    elif name in ("copyshape", "flipshape", "conv", "intoiter", "sortkey", "fillshape", "drainlit", "lockstep", "noshift", "rotate"):
        r = [{"copyshape": MI.r_copyshape, "flipshape": MI.r_flipshape, "conv": MI.r_conv, "intoiter": MI.r_intoiter,
              "sortkey": MI.r_sortkey, "fillshape": MI.r_fill, "drainlit": MI.r_drainlit, "lockstep": MI.r_lockstep, "noshift": MI.r_noshift, "rotate": MI.r_rotate}[name](f)[0]]
    elif name == "rawbounds":
        r = [RB.r_rawbounds(f)[0]]
    elif name == "witness":
        # compile-fail witnesses are configuration independent: run them once, with the default feature set
        r = [WI.r_witness(f.root)[0]] if getattr(f, "config", "default") == "default" else []
    else:
        mod = EXTRA.get(name)
        if mod is None:
            raise KeyError(name)
        r = mod(f)
    _cache[key] = r
    return r


EXTRA = {}      # later engines register here: name -> callable(f) -> [Result]


def sel(name, fn=None, rules=None, desc=None, keep_rule_floor=True):
    """run engine `name`, keep the instances / findings whose function ident matches regex `fn`, whose rule is in
    `rules`, and whose descriptor matches regex `desc`"""
    fre = re.compile(fn) if fn else None
    dre = re.compile(desc) if desc else None

    def g(f, cfg, tier):
        out = []
        for x in _run(name, f):
            if rules is not None and x.rule not in rules:
                continue
            y = Result(x.rule)

            def okfn(s):
                return fre is None or fre.search(s) is not None
            y.instances = [i for i in x.instances if okfn(i["fn"]) and (dre is None or dre.search(i["what"]))]
            y.findings = [fd for fd in x.findings if (okfn(fd.fn) and (dre is None or dre.search(fd.desc))) or (fd.fn == "<rule>" and keep_rule_floor)]
            y.notes = list(x.notes) if fre is None else []
            y.inconclusive = [i for i in x.inconclusive if okfn(i["fn"])]
            out.append(y)
        return out
    return g


DYN_ENGINES = ("layout", "nth", "cursor", "take", "ovf", "flatseq", "flat_struct", "nonzero", "units")


def sel_dyn(anchor_re, engines=DYN_ENGINES, exclude=None):
    """dependency-driven selection (analysis/reach.py): conformance findings / instances of `engines` in any function that the
    operations matching `anchor_re` reach in the current tree's call graph"""
    from . import reach as RE
    xre = re.compile(exclude) if exclude else None

    def g(f, cfg, tier):
        ids = RE.reach(f, anchor_re)

        def okfn(s):
            base = s.split("::{closure")[0]
            return (s in ids or base in ids) and not (xre and xre.search(s))
        out = []
        for name in engines:
            for x in _run(name, f):
                y = Result(x.rule)
                y.instances = [i for i in x.instances if okfn(i["fn"])]
                y.findings = [fd for fd in x.findings if okfn(fd.fn)]
                y.inconclusive = [i for i in x.inconclusive if okfn(i["fn"])]
                out.append(y)
        return out
    return g


A_SWAPS = r"(::swap( |$)|::swap_rows|::swap_cols|::row_pair_mut|::fill( |$))"
A_COPY = r"(copy_from_slice|clone_from_slice|copy_from_toodee|clone_from_toodee|copy_within)"
A_TRANS = r"(translate_with_wrap|flip_rows|flip_cols)"
A_VIEWMUT = r"^(TooDeeViewMut( as |::)|TooDeeOpsMut::|CopyOps::|SortOps::|TranslateOps::)"
A_OWNED = r"^(TooDee( as |::)|TooDeeOpsMut::|TooDeeOps::|CopyOps::|SortOps::|TranslateOps::)"
A_CELLS = r"(::cells( |$)|::cells_mut|^FlattenExact|IntoIterator)"
NOT_VIEW = r"^(TooDeeView|calculate_view_dimensions|get_col_params)"

PROPS = {}


def prop(pid, rules, explanation, declined=(), assumptions=()):
    PROPS[pid] = {"rules": list(rules), "explanation": explanation, "declined": list(declined), "assumptions": list(assumptions)}


def run(pid, f, cfg, tier):
    out = []
    # one view normally; two when an inherent method hides a trait method that the type also implements itself (facts.views)
    for fv in (f.views() if hasattr(f, "views") else [f]):
        for g in PROPS[pid]["rules"]:
            out.extend(g(fv, cfg, tier))
    # merge results of the same rule
    merged = {}
    for r in out:
        m = merged.get(r.rule)
        if m is None:
            merged[r.rule] = r
        else:
            keys = {(i["fn"], i["what"]) for i in m.instances}
            m.instances += [i for i in r.instances if (i["fn"], i["what"]) not in keys]
            have = {x.key for x in m.findings}
            m.findings += [x for x in r.findings if x.key not in have]
            m.notes += [x for x in r.notes if x not in m.notes]
            m.inconclusive += [x for x in r.inconclusive if x not in m.inconclusive]
    return list(merged.values())


CTORS = r"^(TooDee::(new|init|from_vec|from_box|with_capacity)|TooDee as (Default|Clone|From<.*>)::|TooDeeView(Mut)?::(new|from_toodee)|TooDeeView as From)"
VIEWS = r"(TooDeeView|TooDeeViewMut|calculate_view_dimensions|get_col_params|TooDee as TooDeeOps(Mut)?::view)"
INSERT = r"TooDee::(insert_row|insert_col|push_row|push_col)"
REMOVE = r"(TooDee::(remove_row|remove_col|pop_row|pop_col)|DrainCol|DropGuard)"
ROWCUR = r"^(Rows|RowsMut) as "
COLCUR = r"^(Col|ColMut) as "
SWAPS = r"(swap|row_pair_mut|fill)"



# ---- layers a property builds on (DESIGN.md 4.2): the machinery another property's statement quantifies over.  A property
# stated "for any array or view" / "for owned arrays and views alike" is decided on the algorithm's own code *and* on the
# layers that hand it its rows, columns, cells and windows: a slip in such a layer breaks the property for that receiver.
def L_INV():
    """the owned array's shape invariant at every exit point (premise of everything computed from the dimensions)"""
    return [sel("shape", rules=["R-UNWIND", "R-LEAK", "R-LEAK-DRAIN", "R-STALE"]), sel("zero", fn=r"^(TooDee|DrainCol|DropGuard)")]


def L_VIEWS(mutable_only=False):
    """the window constructors: slice, dimensions and stride handed to every view"""
    if mutable_only:
        return [sel("layout", fn=r"(::view_mut$|^TooDeeViewMut::(from_toodee|new)|<rule>)"), sel("units", fn=r"(TooDeeViewMut|calculate_view_dimensions|::view_mut$)"), sel("zero", fn=r"(TooDeeViewMut|calculate_view_dimensions|::view_mut$)")]
    return [sel("layout", fn=r"(::view$|::view_mut$|from_toodee|TooDeeView(Mut)?::new|<rule>)"), sel("units", fn=VIEWS), sel("zero", fn=VIEWS)]


def L_ROWCUR(which=r"(Rows|RowsMut)"):
    """row cursors and the rows()/rows_mut() constructors of the three receivers"""
    w = which
    ctor = {r"(Rows|RowsMut)": r"(::rows$|::rows_mut$|<rule>)", "RowsMut": r"(::rows_mut$|<rule>)", "Rows": r"(::rows$|<rule>)"}[w]
    return [sel("cursor", fn=r"^%s( |:|$)|<rule>" % w), sel("take", fn=r"^%s as " % w), sel("ovf", fn=r"^%s as " % w), sel("nonzero", fn=r"^%s |<rule>" % w), sel("layout", fn=ctor)]


def L_COLCUR(which=r"(Col|ColMut)"):
    """column cursors and the col()/col_mut() constructors (with the shared get_col_params) of the three receivers"""
    w = which
    ctor = {r"(Col|ColMut)": r"(::col$|::col_mut$|<rule>)", "ColMut": r"(::col_mut$|<rule>)", "Col": r"(::col$|<rule>)"}[w]
    return [sel("cursor", fn=r"^%s( |:|$)|<rule>" % w), sel("take", fn=r"^%s as " % w), sel("ovf", fn=r"^%s as " % w), sel("layout", fn=ctor),
            sel("units", fn=r"(::col$|::col_mut$|get_col_params|^%s as )" % w), sel("guard", fn=r"(::col$|::col_mut$| as TooDeeOps(Mut)?::col|get_col_params)")]


def L_CELLS():
    """cells()/cells_mut(): the flattening adaptor over the row cursors"""
    return [sel("flatseq"), sel("flat_struct"), sel("intoiter")] + L_ROWCUR()


prop("C01", [sel("layout", fn=r"^TooDeeView(Mut)?::new$"), sel("rawbounds"), sel("encaps"), sel("witness", fn=r"^(W1|W2|W3|W4|W6|W7|W9|<rule>|<witness>)"), sel("zero", fn=r"^(TooDee|DrainCol|DropGuard| as Drop)"), sel("zero", fn=r"^TooDee"), sel("shape"), sel("deleg", fn=r"TooDee::(push|pop)"), sel("cursor", fn=r"^Col( |:|$)|<rule>"), sel("sortshape"), sel("sortkey"), sel("deleg"), sel("copyshape"), sel("flipshape"), sel("fillshape", fn=r"^(TooDee as |TooDeeOpsMut::)"), sel("lockstep"), sel("noshift"), sel("guard", fn=r"^(TooDee( as |::)|TooDeeOpsMut::|CopyOps::|SortOps::|TranslateOps::)"), sel_dyn(A_OWNED, exclude=NOT_VIEW), sel("nonzero", fn=r"is_empty")],
     "Shape invariant of the owned array, structural clauses: (R-ENCAPS) the three fields are private to module toodee, no exported signature / impl hands out `&mut Vec`, so only the enumerated shape writers can change (len, num_rows, num_cols) - backed by compile_fail witnesses with compiling twins (assigning a field, building the struct or a cursor from parts, AsMut<Vec>, observing the array while a drain / mutable cursor is alive must not type-check); (R-ZERO) num_rows==0 <=> num_cols==0 in every abstract state at every TooDee construction site and at every return of a dimension writer; (R-UNWIND/R-LEAK/R-LEAK-DRAIN/R-HIDE) at every point where control can leave a writer (panic in caller code or a rejected call, leak of the returned drain, return) the triple is untouched, all-zero or in product form; (R-DELEG) push/pop delegate to insert/remove with the dimension as index; (R-RAWBOUNDS, a necessary condition of the cells clause) the raw block moves of insert/remove stay inside the buffer and consecutive moves that shift cells the same way proceed in the only order that does not read already-overwritten cells (back to front when shifting right, front to back when shifting left); (R-CURSOR, Col) the column drain steps and counts through an embedded Col cursor, whose conformance to the ideal strided cursor is what its destructor's compaction relies on.",
     declined=["that the length written by insert_row/insert_col/remove_row on the success path equals the new product (loop/pointer arithmetic, DESIGN 2.4)", "cells equal those of a rows-of-cells model (runtime values) beyond the move-order clause"])
prop("C02", [sel("layout", fn=r"(Index|IndexMut|::col$|::col_mut$|get_unchecked|::view|::view_mut|from_toodee|TooDeeView(Mut)?::new|<rule>)"), sel("shape", rules=["R-UNWIND", "R-LEAK", "R-LEAK-DRAIN", "R-STALE"]), sel("zero", fn=r"^(TooDee|DrainCol|DropGuard)"), sel("guard", fn=r"(Index|IndexMut|::col$|::col_mut$| as TooDeeOps(Mut)?::col|get_col_params)"), sel("guard", rules=["R-ARITH"], fn=COLCUR), sel("units", fn=r"(Index|::col|get_unchecked|get_col_params|Col as|ColMut as)"), sel("units", fn=VIEWS), sel("cursor", fn=r"^(Col|ColMut) as Index")],
     "Checked access, structural clauses: (R-GUARD) every caller index of Index/IndexMut (row and coordinate forms) and col()/col_mut() on the three receivers is compared strictly with the dimension of its own unit by a guard whose failing edge panics and whose surviving edge dominates every arithmetic use and unchecked access; (R-ARITH) Col/ColMut indexing forms idx*(1+skip) only with checked arithmetic and reaches the cell through a checked slice index (no wrap for huge indices with overflow checks off); (R-UNITS) rows are never compared/multiplied as columns. (R-LAYOUT) every unchecked access of the accessors (Index/IndexMut, col/col_mut, the four get_unchecked*) on the three receivers has, as a canonical polynomial after composing nested slices, the address row*S+col (or the row / column range forms) with S the object's own stride, and the matching lemma's hypotheses (row < R, col < C) are path facts - hence all accessors denote one and the same cell; the view constructors hand every view the slice, dimensions and stride these formulas assume (R-LAYOUT literals), and - because every accessor is an unchecked access justified by the shape invariant - the invariant's own exit-point rules (R-UNWIND, R-LEAK, R-LEAK-DRAIN, R-STALE, R-ZERO of C01) are part of this check as its premise.",
     declined=["the pen-and-paper lemmas L-POS/L-ROW/L-COL* themselves (trusted base)"])
prop("C03", [sel("guard", rules=["R-ARITH"], fn=r"^TooDeeView(Mut)? as (Index|IndexMut)"), sel("guard", fn=r"(::view$|::view_mut$|from_toodee|calculate_view_dimensions)"), sel("layout", fn=r"(::view|::view_mut|from_toodee|TooDeeView(Mut)?::new|^TooDeeView(Mut)? as |<rule>)"), sel("zero", fn=VIEWS), sel("units", fn=VIEWS), sel("encaps", fn=r"^TooDeeView")],
     "Views, structural clauses: (R-ZERO) every TooDeeView/TooDeeViewMut construction site receives dimensions that are both zero or both non-zero - through the computed (not assumed) summary of the shared window validator, or through the zero-rule guard of the slice constructors; (R-UNITS) start/end/stride are used with the right axis; fields of the view types are module-private. (R-LAYOUT) the six view constructors, evaluated path-wise with the shared window validator inlined, hand get_unchecked a range that matches L-WINDOW (start*stride+start.0 .. + (rows-1)*stride+cols, with sr<er<=R, sc<ec<=C among the path facts) for non-empty windows and the constant empty range L-EMPTY for empty ones, slice the receiver's own backing slice, and store the receiver's own stride; TooDeeView::new / TooDeeViewMut::new slice the prefix num_cols*num_rows under the fact size <= len (L-PREFIX); the views' own accessors (Index/IndexMut, get_unchecked*, rows/rows_mut, col/col_mut, swap_rows), through which 'cell (c,r) of the window' is read and written, address row*stride+col of that slice.",
     declined=["cell-by-cell equality of view and parent (runtime values)"])
prop("C04", [sel("fillshape", fn=r"^TooDeeViewMut"), sel("encaps", fn=r"^(TooDeeViewMut|RowsMut|ColMut|<impls>)"), sel("witness", fn=r"^(W5|W8|W10|<witness>)", keep_rule_floor=False), sel("units", fn=r"TooDeeViewMut"), sel("dup"), sel("take", fn=r"^(RowsMut|ColMut)"), sel("cursor", fn=r"^(RowsMut|ColMut)( |:|$)|<rule>"), sel("layout", fn=r"^TooDeeViewMut|<rule>"), sel("nth"), sel("units", fn=SWAPS), sel("ovf", fn=r"^(RowsMut|ColMut) as "), sel_dyn(A_VIEWMUT)],
     "Confinement to a mutable view, structural clauses: the view's fields are module-private and RowsMut/ColMut fields crate-private, TooDeeViewMut/RowsMut/ColMut are not Clone (no second writer), the generic algorithm layers (ops/sort/translate/copy) are written against the trait only and use only permutation primitives (R-DUP); the mutable cursors never read a taken slice (R-TAKE). (R-LAYOUT) every writer of module view (index_mut x2, get_unchecked*_mut, col_mut, rows_mut, swap_rows, view_mut, from_toodee, new) matches a confined schema with S = the view's stride: L-POS / L-ROW / L-COLV / L-SWAPROWS / L-WINDOW and the literals RowsMut { cols: C, skip_cols: stride - C }, ColMut { skip: stride - 1 }; (R-CURSOR) RowsMut / ColMut then hand out only [k*(C+K), +C) / single cells; (R-NTH, R-UNITS) the provided swap / swap_rows / row_pair_mut a mutable view inherits address exactly the named cells.",
     declined=["effect inside the rectangle equals the effect on an owned copy (runtime values)"])
prop("C05", [sel("rawbounds"), sel("conv", fn=r"IntoIterator|From<toodee"), sel("shape", rules=["R-HIDE", "R-LEAK", "R-LEAK-DRAIN", "R-DRAINSTEP", "R-DRAINORDER", "R-STALE", "R-RESTORE"]), sel("dup"), sel("zstptr"), sel("guard", fn=r"(::view$|::view_mut$|from_toodee|calculate_view_dimensions)"), sel("cursor", fn=r"^Col( |:|$)|<rule>"), sel("drainlit")],
     "clauses only: ownership discipline of C05 - (R-RAWBOUNDS) every ptr::copy / ptr::write / ptr::read / from_raw_parts on the array's buffer in insert_row, insert_col, remove_col and the drain's destructor reads inside the extent that was initialised when the window opened and writes inside the reserved capacity, for every shape and index: offsets are polynomials relative to as_mut_ptr(), counted loops are summarised by induction-variable analysis (checked at the first and last iteration), and each bound is discharged by substituting the path facts (index <= dim, len == rows*cols) and checking coefficient signs; (R-HIDE) every bitwise move of elements (ptr::copy/read/write) happens while the Vec length is lowered and every normal path restores it, no restore on an unwind path; (R-DUP) the generic layers only permute; (R-ZSTPTR) progress is never decided by comparing element pointers (zero-sized T); (R-LEAK / R-LEAK-DRAIN) a leaked drain leaves a buffer whose visible part contains no moved-out element; (R-DRAINSTEP) the column drain's iterator methods only single-step the embedded cursor and read out each stepped-over element (a jumping override would forget elements), and the embedded Col cursor conforms to the ideal strided cursor (R-CURSOR); (R-GUARD) a window never extends past the array's rows/columns - a view reaching into the Vec's spare capacity would resurrect dropped elements.",
     declined=["the count: that raw moves copy each element to exactly one live slot (placement inside the buffer; DESIGN 2.1) - only that they stay inside it"])
prop("C06", [sel("shape", rules=["R-DRAINSTEP"]), sel("cursor", fn=r"^Col( |:|$)|<rule>"), sel("flatseq"), sel("rotate"), sel("rawbounds", fn=INSERT + r"|<rule>"), sel("guard", fn=INSERT), sel("zero", fn=INSERT), sel("shape", fn=INSERT), sel("deleg", fn=r"TooDee::push"), sel("zstptr", fn=INSERT), sel("units", fn=INSERT), sel("guard", rules=["R-ARITH"], fn=r"TooDee::reserve")],
     "clauses only: insert_row/insert_col/push_* - (R-RAWBOUNDS) the shift / fill pointer arithmetic stays inside the reserved buffer for every (index, rows, cols), including the back-to-front loop of insert_col; (R-GUARD) index <= the dimension of its own unit before anything else; (R-ZERO) the dimension grows only when data was inserted, an empty line into an empty array stays (0,0); (R-UNWIND) any rejected call or panicking iterator leaves a valid (possibly emptied) array; (R-HIDE) raw moves only in the hidden window; (R-DELEG) push_* pass the dimension as index; (R-ZSTPTR) the fill loop counts elements; the crate's own iterators that are natural item sources when a line is moved between arrays - the column drain (R-DRAINSTEP, R-CURSOR Col) and cells() (R-FLATSEQ) - yield the sequence they denote, from either end.",
     declined=["placement of the new line and preservation of the other cells (pointer arithmetic of the shift loops, DESIGN 2.1)"])
prop("C07", [sel("rotate"), sel("rawbounds", fn=REMOVE + r"|<rule>"), sel("drainlit"), sel("guard", fn=REMOVE), sel("deleg", fn=r"TooDee::pop"), sel("zero", fn=REMOVE), sel("shape", fn=REMOVE), sel("units", fn=REMOVE), sel("encaps", fn=r"^DrainCol")] + L_COLCUR("Col")[:3],
     "clauses only: remove_row/remove_col/pop_* - (R-RAWBOUNDS) the column cursor's region and every block move of the destructor's compaction loop stay inside the original buffer (the last move ends exactly at the original length); (R-GUARD) index < dimension of its unit; (R-DELEG) pop_* are guarded on non-emptiness and pass dim-1; (R-ZERO) removing the last line zeroes both dimensions; (R-LEAK, R-LEAK-DRAIN) the returned drain may be leaked at any stage; (R-UNWIND) the drain's destructor restores a product-form array even when an element's Drop panics; DrainCol implements Iterator + DoubleEndedIterator + ExactSizeIterator; (R-DRAINLIT) its cursor is Col { v: buffer[index .. index + len - num_cols + 1], skip: num_cols - 1 } - exactly the removed column, whose iteration order is C09's; (R-DRAINSTEP) every step reads the element out; (R-RESTORE) the destructor's caller-code points run under a live restorer guard.",
     declined=["the compaction arithmetic of DrainCol's destructor and the order of yielded elements (DESIGN 2.1; the latter follows from C09 for the embedded Col cursor)"])
prop("C08", L_ROWCUR() + L_VIEWS() + L_INV() + [sel("zero", fn=CTORS)],
     "Row cursors: (R-CURSOR) for Rows and RowsMut each of next, next_back, nth, nth_back, last, count, size_hint is evaluated path-wise over canonical polynomials and slice intervals and its (result, remaining slice) must equal the ideal strided-cursor update with item width cols and gap skip_cols; because the cursor state is one slice the ideal post-state is unique, so per-function conformance plus the recorded two-line induction covers every interleaving and every n (the overflow flag is a path atom); (R-TAKE) no read of the cursor slice after mem::take; (R-OVF) nth/nth_back multiply n with overflow detection that reaches the emptying branch; (R-LAYOUT) rows()/rows_mut() of the three receivers start the cursor on the whole backing slice with cols = num_cols, skip_cols = stride - num_cols, and the window constructors hand each view the slice, dimensions and stride this assumes; the owned array's shape invariant (R-ZERO, R-UNWIND, R-LEAK*, R-STALE of C01) is the premise of 'num_rows() rows'.",
     declined=["fold/rfold and the other provided methods are std's own over next/next_back unless overridden; an override that reads the cursor's fields in an unrecognised way is listed as undecided, not judged"])
prop("C09", L_COLCUR() + [sel("guard", rules=["R-ARITH"], fn=COLCUR)] + L_VIEWS() + L_INV() + [sel("zero", fn=CTORS)],
     "Column cursors: R-CURSOR (as C08 with item width 1 and gap skip) for Col and ColMut; R-TAKE, R-OVF as for rows; (R-ARITH) indexing multiplies with overflow detection and uses a checked slice index; (R-GUARD) col(c)/col_mut(c) panic for c >= num_cols on the three receivers; (R-LAYOUT, R-UNITS) col()/col_mut() and the shared get_col_params start the cursor at cell c of the first row with skip = stride - 1 and end it in the last row (empty only for an empty receiver); window constructors and the shape invariant as in C08.")
prop("C10", [sel("nonzero", fn=r"^FlattenExact|<rule>")] + L_CELLS() + L_VIEWS() + L_INV() + [sel("zero", fn=CTORS), sel_dyn(A_CELLS)],
     "Cell iterators: (R-FLATSEQ) next, next_back, nth, nth_back of FlattenExact are evaluated from the four entry configurations (partial front row / partial back row present or not, symbolic remaining lengths, symbolic n) with the inner iterators modelled by their C08 contract as intervals of one flattened index space; on every path the returned element must be element 0 / n (from the respective end) and the merged remaining intervals must be exactly the ideal remaining sequence - since the ideal is stated on the denotation, per-function conformance covers every interleaving; (R-FLAT f2) front-direction methods of FlattenExact only advance inner iterators from the front, back-direction methods only from the back, fold/rfold chain front row, remaining rows, back row and fold in the matching direction; unsafe code is forbidden in the adaptor; (R-INTOITER) the five IntoIterator impls on references resolve to cells()/cells_mut(), which are FlattenExact::new(rows()/rows_mut()) starting with both partial rows None; last() is next_back(); size_hint is num_cols*iter.len() plus the partial rows; fold/rfold chain frontiter, iter, backiter; the inner row cursors conform to the ideal strided cursor (R-CURSOR, C08) and are started by rows()/rows_mut() as C08 requires; window constructors and the shape invariant as in C08.",
     declined=["third-party TooDeeIterator implementations honouring their contract"])
prop("C11", [sel("shape", rules=["R-UNWIND", "R-HIDE", "R-RESTORE", "R-DRAINORDER"]), sel("zero", fn=r"^(TooDee::(insert|remove|clear|swap_dim)|DrainCol|DropGuard)"), sel("sortshape", desc=r"s5"), sel("guard", rules=["R-ARITH"], fn=r"TooDee::reserve")],
     "Panic safety is an exit-point property: (R-UNWIND) at every may-unwind terminator (caller code recognised structurally: trait methods on type parameters, closure parameters, drops of types mentioning a type parameter; allocation failure in reserve; assertion failures) of every shape writer, with a shape write still pending, the triple (len, rows, cols) - followed through cleanup blocks and restorer drops - is untouched, all-zero or in product form; (R-HIDE) bitwise duplicates only exist beyond the lowered length and no unwind path restores it; (R-SORTSHAPE s5) comparators/key functions run only inside the side sort, which dominates all array writes.",
     declined=["'every reachable cell holds a live element' beyond the three consistent forms"])
prop("C12", [sel("witness", fn=r"^(W6|W7|W9|<witness>)", keep_rule_floor=False), sel("shape", rules=["R-LEAK", "R-LEAK-DRAIN"]), sel("zero", fn=r"^TooDee::remove"), sel("encaps", fn=r"^(DrainCol|<api>)"), sel("shape", rules=["R-HIDE", "R-DRAINSTEP", "R-RESTORE"], fn=r"(DrainCol|DropGuard|remove_)")],
     "Leak safety: (R-LEAK) a function returning a crate type whose destructor writes the shape returns with a consistent triple as if the destructor never ran; (R-LEAK-DRAIN) a returned std Drain over the buffer is a tail drain, so that Vec's leaked length equals the already-updated dimensions' product; (R-ZERO) the dimensions written eagerly obey the zero rule.  Iterators/views perform no shape write and have no shape-writing drop glue (they are not shape writers in the enumeration).",
     declined=["range.start == new_rows*new_cols for the tail drain (arithmetic, DESIGN 2.4)"])
prop("C13", L_INV() + [sel("encaps", fn=r"(<raw span>|raw span used by (TooDeeOpsMut|CopyOps|SortOps|TranslateOps|TooDeeViewMut|TooDee as ))"), sel("fillshape"), sel("nth"), sel("layout", fn=r"(swap|<rule>)"), sel("guard", fn=SWAPS), sel("units", fn=SWAPS), sel("dup", fn=r"(swap|fill|row_pair)")] + L_ROWCUR("RowsMut") + L_COLCUR("ColMut")[:4] + L_VIEWS(True) + [sel("layout", fn=r"(get_unchecked|<rule>)"), sel("zero", fn=CTORS), sel_dyn(A_SWAPS)],
     "Swap/fill primitives, structural clauses: (R-GUARD) swap, swap_rows, swap_cols, row_pair_mut on the owned array, the mutable view and the provided defaults compare each index strictly with the right dimension (directly, via the ordered-swap idiom, or via nth(..).unwrap()); (R-UNITS) no row/column mix-up; (R-DUP) only swap primitives move elements. (R-LAYOUT) TooDee::swap addresses row*C+col for both cells (L-POS), both swap_rows overrides address [r1*S,+C) and [r2*S,+C) as polynomial identities after composing the nested slices (stride-aware for the view); (R-NTH) the provided swap_rows / row_pair_mut / swap that third-party implementors inherit address, through rows_mut().nth(a) followed by nth(k) (rows a and a+1+k), exactly the rows / cells named by their arguments on every path, row_pair_mut returning them in argument order; (R-GUARD) no normal return bypasses a bounds check; the layers the provided methods run on - RowsMut (R-CURSOR, R-OVF: nth(huge) must yield None so that unwrap panics), ColMut, rows_mut()/col_mut()/get_unchecked* of the three receivers (R-LAYOUT) and the mutable window constructors ('identically for owned arrays and views').")
prop("C14", L_INV() + [sel("encaps", fn=r"(<raw span>|raw span used by (TooDeeOpsMut|CopyOps|SortOps|TranslateOps|TooDeeViewMut|TooDee as ))"), sel("copyshape"), sel("nonzero", fn=r"(copy_|clone_from|CopyOps|<rule>)"), sel("guard", fn=r"copy_within"), sel("units", fn=r"(copy_|clone_from)"), sel("dup", fn=r"(copy_|clone_from|CopyOps)")] + L_ROWCUR() + L_VIEWS() + [sel("zero", fn=CTORS), sel_dyn(A_COPY)],
     "clauses only: guard/unit clauses of C14 - (R-COPYSHAPE) each of the eight copy functions compares the sizes with a diverging guard that dominates every write (or is one std slice copy of the whole buffer, which checks lengths) and transfers rows destination <- source from zip(rows_mut(), source rows); (R-GUARD) the six coordinates of copy_within are bounded against the dimension of their unit (directly or through the ordered source rectangle); (R-ARITH) no `+` on a caller coordinate before its guard; (R-UNITS) row offsets index rows, column offsets slice rows; (R-DUP) bitwise copies only under T: Copy via slice methods; (R-NONZERO) no chunks*/division sees a possibly-zero column count (empty destinations are valid shapes); the rows transferred come from Rows / RowsMut started by rows()/rows_mut() of source and destination (R-CURSOR, R-LAYOUT), over windows built by the view constructors.",
     declined=["row-major equality of the result as values; for overlapping rectangles the row ORDER is decided (overlap-order clause), the absence of any other read-after-write hazard inside one row copy is std's slice::copy_within / copy_from_slice contract"])
prop("C15", L_INV() + [sel("encaps", fn=r"(<raw span>|raw span used by (TooDeeOpsMut|CopyOps|SortOps|TranslateOps|TooDeeViewMut|TooDee as ))"), sel("flipshape"), sel("lockstep"), sel("noshift"), sel("layout", fn=r"get_unchecked_row_mut|<rule>"), sel("guard", fn=r"translate"), sel("units", fn=r"(translate|flip)"), sel("dup", fn=r"(Translate|translate|flip)")] + L_ROWCUR("RowsMut") + L_VIEWS(True) + [sel("zero", fn=CTORS), sel_dyn(A_TRANS)],
     "clauses only: guard and permutation clauses of C15 - (R-FLIPSHAPE) flip_rows swaps next() with next_back() of one rows_mut() cursor, flip_cols reverses every row; mid <= (num_cols, num_rows) with the right units; translate.rs moves elements only with swap_with_slice / rotate_left / reverse on rows obtained from the trait (no element lost or duplicated); the unchecked row getters it relies on address row*stride .. +num_cols on every implementor (R-LAYOUT L-ROW); no cross-axis comparison of a mid-point with the other dimension (R-UNITS u1, also for equalities); (R-LOCKSTEP) in the cycle-leader loop of translate_with_wrap the row cursor and the running column offset are induction variables of one loop that are advanced on exactly the same iterations and re-initialised at the same loop depth (a necessary condition of 'row k of a cycle is rotated by k*col_mid'); the layers both algorithms run on: RowsMut and rows_mut() (R-CURSOR, R-LAYOUT) and the mutable window constructors ('on any array or view').",
     declined=["the position formula new[(c,r)] == old[((c+mc)%C,(r+mr)%R)] and index validity inside the cycle-leader loop (number theory, DESIGN 2.2): R-LOCKSTEP decides only that the two cursors move together, not that the walk visits every row once"])
prop("C16", L_INV() + [sel("encaps", fn=r"(<raw span>|raw span used by (TooDeeOpsMut|CopyOps|SortOps|TranslateOps|TooDeeViewMut|TooDee as ))"), sel("sortkey", fn=r"sort_.*row"), sel("deleg", fn=r"sort_.*row"), sel("sortshape", fn=r"sort_.*row|^sort::"), sel("guard", fn=r"sort_.*row"), sel("units", fn=r"sort_.*row"), sel("dup", fn=r"sort_.*row")] + L_ROWCUR("RowsMut") + L_VIEWS(True) + [sel("layout", fn=r"(Index<usize>|IndexMut<usize>|<rule>)"), sel("zero", fn=CTORS), sel_dyn(r"sort_.*row")],
     "clauses only: sort-by-row family - (R-DELEG) each wrapper reaches the core of its own axis and stability with its index forwarded; (R-SORTSHAPE) s1 side sort of matching stability, s3 the key line is self[row] (resp. self.col(col)) of the given index, s2 comparator/key argument order, s4 the swap trace is applied to every row, s5 user code only before the first write; (R-GUARD) row < num_rows; (R-DUP) only ptr::swap moves elements; the layers the family runs on: the key row self[row] (R-LAYOUT of Index<usize> on the three receivers), RowsMut/rows_mut() through which the trace is applied, and the mutable window constructors.",
     declined=["build_swap_trace turning the permutation into transpositions; sortedness/stability as observed (std's contract given s1-s2)"])
prop("C17", L_INV() + [sel("encaps", fn=r"(<raw span>|raw span used by (TooDeeOpsMut|CopyOps|SortOps|TranslateOps|TooDeeViewMut|TooDee as ))"), sel("layout", fn=r"swap_rows|<rule>"), sel("nth", fn=r"swap_rows"), sel("sortkey", fn=r"sort_.*col"), sel("deleg", fn=r"sort_.*col"), sel("sortshape", fn=r"sort_.*col|^sort::"), sel("guard", fn=r"sort_.*col"), sel("units", fn=r"sort_.*col"), sel("dup", fn=r"sort_.*col")] + L_ROWCUR("RowsMut") + L_COLCUR("Col") + L_VIEWS(True) + [sel("zero", fn=CTORS), sel_dyn(r"sort_.*col")],
     "clauses only: sort-by-column family - as C16 with columns: wrappers reach the *_col cores (R-DELEG, R-UNITS u4), the trace is applied with swap_rows - whose three implementations move exactly the two named rows (R-LAYOUT L-SWAPROWS with the object's own stride, R-NTH for the default) - col < num_cols; the layers the family runs on: the key column self.col(col) (Col cursor and col() constructors, R-CURSOR/R-LAYOUT), RowsMut/rows_mut() under the default swap_rows, and the mutable window constructors.",
     declined=["as C16"])
prop("C18", [sel("zero", fn=VIEWS), sel("serde")] + L_CELLS() + L_INV(),
     "Serialisation, structural clauses: (t1) writer and reader tables agree - struct field names (derived Serialize), the literals of both view serialisers paired with the getter of the same name and cells(), the reader's key literals, missing_field literals and FIELDS are the same set; each key's value is stored in the slot of the same name and handed to the constructor in parameter order; (t2) map keys are requested as an owned-capable type, so every transport (str, bytes, reader, value tree, escaped keys) can supply them; (t4) the reader cannot panic on a document the writer produced (no division, force-unwrap, allocation-size or bounds panic in the reader's own code - this includes element types of size zero); the written cells are cells() of the array or view (R-FLATSEQ, R-CURSOR Rows, rows() constructors), and 'every owned array' means every array the API can produce - the shape invariant's exit-point rules are the premise that such an array is one the reader accepts.",
     declined=["equality of round-tripped cells (element Serialize/Deserialize are caller code)"])
prop("C19", [sel("serde"), sel("zero", fn=r"visit_|Deserialize|Visitor|Seed|serde::")],
     "Deserialisation, structural clauses: (t4) the reader's own code has no panicking callee or bounds assertion, and each panic condition of the asserting constructor it calls - K_OVF, K_LEN (classified from the constructor's MIR), K_ZERO (R-ZERO at the call) - is discharged by a dominating guard whose failing edge returns Err; (t1) missing/unknown fields are errors; the constructor receives the parsed values in order.",
     declined=["panics inside serde / serde_json / the element type's Deserialize"])
prop("C20", [sel("conv"), sel("layout", fn=r"TooDeeView(Mut)?::new|<rule>"), sel("zero", fn=CTORS), sel("deleg", fn=r"from_box"), sel("units", fn=CTORS), sel("units", desc=r"(from_vec|from_box|new|init)\(")],
     "Constructors, structural clauses: (R-ZERO) new/init/from_vec/TooDeeView::new/TooDeeViewMut::new and every other construction site only build arrays whose dimensions are both zero or both non-zero; (R-UNITS u5) fields are initialised from parameters of their own unit (no exchanged dimensions, also in From<view>); (R-DELEG) from_box forwards to from_vec in order; (R-CONV) into_iter / From<TooDee> for Vec and Box move the Vec whole, From<view> x2 append view.rows() front to back and take both dimensions from the view's own getters, Clone/PartialEq/Hash are compiler-derived; (R-LAYOUT) the slice constructors of the views keep exactly the prefix num_cols*num_rows of the given buffer (L-PREFIX, exact extent).",
     declined=["row-major equality of contents as values; Hash/Eq agreement is the derive's contract"])

# explanations: clauses added in round 6 (kept here so that MANIFEST / evidence texts follow the selections)
_DYN = " Dependency-driven selection (analysis/reach.py): the conformance findings (R-LAYOUT, R-NTH, R-CURSOR, R-TAKE, R-OVF, R-FLATSEQ, R-FLAT, R-NONZERO, R-UNITS) of every function that the operations named by this property reach in the current tree's call graph (trait calls fanned out to all implementations) are reported under this property as well."
for _pid in ("C01", "C04", "C10", "C13", "C14", "C15", "C16", "C17"):
    PROPS[_pid]["explanation"] += _DYN
PROPS["C01"]["explanation"] += " The sentence 'the cells equal those of a rows-of-cells model driven by the same history' covers the in-place algorithms: the structural clauses of C13-C17 (R-SORTSHAPE, R-SORTKEY, R-DELEG, R-COPYSHAPE, R-FLIPSHAPE, R-FILL, R-LOCKSTEP, R-NOSHIFT, R-GUARD of the owned array and the provided methods) are selected here too."
for _pid in ("C08", "C09"):
    PROPS[_pid]["explanation"] += " Overrides: every method of the cursor's Iterator / DoubleEndedIterator / ExactSizeIterator impls is enumerated; `len` is decided like size_hint (the number of remaining items under the cursor invariant, division by zero included); any other override of a provided method must either step the cursor only through its own judged methods in the direction of its family (fold / for_each / count .. from the front, rfold / rfind .. from the back) or walk the slice with a recognised chunking idiom (chunks(stride) + leading cells, rchunks(stride) + trailing cells; chunks_exact / windows / a wrong step are violations)."
PROPS["C02"]["explanation"] += " (R-CURSOR) Col / ColMut indexing returns, on every returning path, the element at offset idx*(1+skip) of the cursor's slice (path-wise abstract evaluation)."
PROPS["C10"]["explanation"] += " Overrides of FlattenExact: count / len are decided against the denotation like size_hint; any further override belongs to the direction family of the trait that declares it (R-FLAT f2)."
PROPS["C12"]["explanation"] += " The drain's own iterator and destructor are included (R-HIDE: every ptr::read of the drain happens while the buffer is hidden, whichever end is consumed first; R-DRAINSTEP; R-RESTORE)."
for _pid in ("C05", "C07", "C11", "C12", "C01"):
    PROPS[_pid]["explanation"] += " R-RESTORE also decides that the destructor drops what the caller did not consume before the compaction overwrites it (exhaustion dominates the block moves on the normal path) and that a restorer which itself steps the cursor is entered, on the normal path, only with the cursor exhausted."
PROPS["C20"]["explanation"] += " Hand-written Clone / PartialEq / Hash are decided structurally: clone builds every field from the same field, an overridden clone_from writes all three fields (or *self) on every path, eq looks at all three fields of both operands, hash feeds nothing that eq does not compare."
for _pid in ("C06", "C11", "C01"):
    PROPS[_pid]["explanation"] += " R-ARITH on TooDee::reserve / reserve_exact: the requested capacity (an iterator's claimed length) enters no plain or wrapping sum, so Vec's capacity-overflow panic is reached before insert_* lower the length."
PROPS["C14"]["explanation"] += " Overlap order: for every row_pair_mut(s, d) inside a counted loop the walk is classified ascending / descending from the coefficient of the loop item in s, and the branch facts dominating the computation of s must justify it (ascending: src.0.1 >= dest.1 or dest.1 >= src.1.1; descending: src.0.1 <= dest.1 or dest.1 + height <= src.0.1). copy_within placement identities: for every row_pair_mut(s, d) the distance d - s equals dest.1 - src.0.1, the per-row copy takes columns [src.0.0, src.1.0) to [dest.0, dest.0 + width), the same-row case is row.copy_within(src.0.0..src.1.0, dest.0) - as polynomial identities over the parameters; an endpoint compared strictly with its bound (an empty rectangle rejected) is reported as over-strict."

# explanations: clauses added in round 8
_SHADOW = " Inherent methods that hide a trait method of the same name (method-call syntax resolves to them, in the crate and in caller code) are analysed under the trait method's identity (facts.py: `T as Trait::m`), so every clause that applies to an override applies to them."
for _pid in ("C01", "C03", "C04", "C08", "C09", "C13", "C14", "C15", "C16", "C17"):
    PROPS[_pid]["explanation"] += _SHADOW
for _pid in ("C13", "C14", "C15", "C16", "C17"):
    PROPS[_pid]["explanation"] += " Premise layer: the owned array's shape invariant at every exit point (R-UNWIND, R-LEAK, R-LEAK-DRAIN, R-STALE, R-ZERO) - the in-place algorithms compute their unchecked offsets from the dimensions."
PROPS["C04"]["explanation"] += " (R-ENCAPS) the raw span `v` of a Rows / RowsMut / Col / ColMut cursor - which includes the cells between the rows of a strided view - is used for more than its length only by the cursor's own impls; (R-FILL) a method of the mutable view applies a whole-slice mutator (fill, copy_from_slice, swap_with_slice, reverse, rotate_*, sort*, iter_mut ..) to its whole backing span only under `stride == num_cols` or `data.len() == num_cols * num_rows`."
PROPS["C13"]["explanation"] += " (R-FILL) a method of the mutable view applies a whole-slice mutator to its whole backing span only under a test that establishes contiguity."
for _pid in ("C06", "C11"):
    PROPS[_pid]["explanation"] += " TooDee::reserve / reserve_exact hand the caller's count to Vec::reserve undiminished (Vec::reserve is relative to the length already)."
for _pid in ("C07", "C12", "C01"):
    PROPS[_pid]["explanation"] += " (R-ENCAPS) the column drain, which owns the removed cells, is not Clone / Copy."
PROPS["C20"]["explanation"] += " A hand-written eq answers a literal `true` only on paths that examined all three fields of both operands (no address / single-field shortcut)."
PROPS["C19"]["explanation"] += " (t1b) every slot of visit_map starts as None, so the missing-field test cannot be passed by a pre-filled slot."
for _pid in ("C02", "C03"):
    PROPS[_pid]["explanation"] += " (R-ARITH) no dimension or length is converted to an integer type narrower than usize on the way to an accessor (also through a helper's parameter)."
PROPS["C16"]["explanation"] += " s1 applies to every override / hiding inherent method of a SortOps method as well."
PROPS["C17"]["explanation"] += " s1 applies to every override / hiding inherent method of a SortOps method as well."

for _pid in ("C13", "C14", "C15", "C16", "C17"):
    PROPS[_pid]["explanation"] += " (R-ENCAPS) the in-place algorithms never reach into the raw span of a row / column cursor (which includes the cells between the rows of a strided view)."
PROPS["C20"]["explanation"] += " An overridden `ne` is the negation of eq (calls it, or examines the same three fields); a crate type returned by the by-value into_iter forwards each iterator method within its own direction family."
PROPS["C07"]["explanation"] += " The emptiness comparison of pop_* must decide whether remove_* runs (a switch one arm of which dominates the call, or the closure of `then`): `cond.then_some(self.remove_*(..))` evaluates the call first."
for _pid in ("C06", "C11"):
    PROPS[_pid]["explanation"] += " Every normal return of TooDee::reserve / reserve_exact has the room reserved: a panicking Vec::reserve*, or a try_reserve* whose failure panics."
for _pid in ("C08", "C09", "C10"):
    PROPS[_pid]["explanation"] += " size_hint / len: a plain `+` on the slice length itself adds at most the gap K (zero-sized cells make slices of usize::MAX elements real; L + K is still a length of the parent buffer, anything more can overflow)."
for _pid in ("C18", "C19"):
    PROPS[_pid]["explanation"] += " (t1c) no arm of the reader's key match reads the slot of another key, so the result does not depend on the order of the entries."
PROPS["C01"]["explanation"] += " The owned array's constructors include From<TooDeeView> / From<TooDeeViewMut>, which copy `view.rows()`: the slice-view constructors TooDeeView::new / TooDeeViewMut::new (R-LAYOUT: the window handed to the view is exactly num_cols * num_rows cells) are therefore part of this property."
