"""Property -> rules table (DESIGN.md section 4).  Each entry names the clauses decided and declined."""
from .core import Result
from . import rules_struct as S

TRUSTED_BASE = [
    "rustc nightly (type checker, MIR construction at mir-opt-level=0, compile_fail diagnostics)",
    "std's documented contracts for the modelled callees (Vec::set_len/drain/clear/truncate, split_at*, get_unchecked*, ptr::*, mem::take, swap/rotate/reverse, sort_by vs sort_unstable_by, checked_/overflowing_ arithmetic)",
    "serde's derive contract (field names of the struct are the keys written)",
    "the layout lemmas L-POS, L-ROW, L-COLV, L-COLO, L-PREFIX, L-WINDOW, L-EMPTY, L-ROWITEM, L-SWAPROWS, L-NTH and the strided-cursor induction (DESIGN.md 3.4, 3.5; pen and paper)",
    "the table of parameter roles/units read off the API documentation (DESIGN.md 3.4)",
]
ASSUMPTIONS = [
    "static analysis of MIR only: no toodee code is executed, no solver is called",
    "language-inserted overflow assertions are neither guards nor unwind points",
    "the clauses decided are necessary conditions of the property; the declined clauses (coverage.declined) are not decided",
]


def _wrap(fn):
    def g(f, cfg, tier):
        r = fn(f)
        return r[0] if isinstance(r, tuple) else r
    return g


R = {
    "deleg": _wrap(S.r_deleg),
    "take": _wrap(S.r_take),
    "ovf": _wrap(S.r_ovf),
    "sortshape": _wrap(S.r_sortshape),
    "dup": _wrap(S.r_dup),
    "zstptr": _wrap(S.r_zstptr),
    "flat_struct": _wrap(S.r_flat_struct),
}

PROPS = {}


def prop(pid, rules, explanation, declined=(), assumptions=()):
    PROPS[pid] = {"rules": list(rules), "explanation": explanation, "declined": list(declined), "assumptions": list(assumptions)}


def run(pid, f, cfg, tier):
    out = []
    for name in PROPS[pid]["rules"]:
        r = R[name](f, cfg, tier)
        if isinstance(r, (list, tuple)):
            out.extend(r)
        else:
            out.append(r)
    return out


def filt(rule_name, pred):
    """restrict a rule's instances / findings to the functions relevant for one property"""
    base = R[rule_name]

    def g(f, cfg, tier):
        r = base(f, cfg, tier)
        rs = r if isinstance(r, (list, tuple)) else [r]
        out = []
        for x in rs:
            y = Result(x.rule)
            y.instances = [i for i in x.instances if pred(i["fn"])]
            y.findings = [fd for fd in x.findings if pred(fd.fn) or fd.fn == "<rule>"]
            y.notes = x.notes
            y.inconclusive = [i for i in x.inconclusive if pred(i["fn"])]
            out.append(y)
        return out
    return g
