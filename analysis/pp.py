"""Readable dump of a body from the facts file (debugging aid): python3 -m analysis.pp <substring of ident>"""
import sys
from . import facts as F


def place(p):
    s = "_%d" % p["local"]
    for e in p["proj"]:
        k = e["k"]
        if k == "deref":
            s = "(*%s)" % s
        elif k == "field":
            s = "%s.%d" % (s, e["i"])
        elif k == "index":
            s = "%s[_%d]" % (s, e["local"])
        elif k == "downcast":
            s = "(%s as %s)" % (s, e["name"])
        else:
            s = "%s{%s}" % (s, e.get("dbg"))
    return s


def operand(o):
    if o["k"] in ("copy", "move"):
        return "%s %s" % (o["k"], place(o["p"]))
    if o["k"] == "const":
        if "fn" in o:
            return "fn:" + (o["fn"].get("resolved") or o["fn"]["path"])
        return o["val"]
    return str(o)


def rvalue(r):
    k = r["k"]
    if k == "use":
        return operand(r["o"])
    if k == "ref":
        return "&%s%s" % ("mut " if r["mut"] else "", place(r["p"]))
    if k == "rawptr":
        return "&raw %s %s" % (r["kind"], place(r["p"]))
    if k == "binop":
        return "%s(%s, %s)" % (r["op"], operand(r["l"]), operand(r["r"]))
    if k == "unop":
        return "%s(%s)" % (r["op"], operand(r["o"]))
    if k == "cast":
        return "%s as %s [%s]" % (operand(r["o"]), r["ty"], r["kind"])
    if k == "discr":
        return "discr(%s)" % place(r["p"])
    if k == "agg":
        nm = r.get("adt", r["agg"])
        if r["agg"] == "adt":
            nm += "::" + r["variant"]
        return "%s{%s}" % (nm, ", ".join(operand(f) for f in r["fields"]))
    return str(r)


def term(t):
    if t is None:
        return "<none>"
    k = t["k"]
    if k == "goto":
        return "goto bb%d" % t["target"]
    if k == "switch":
        return "switch(%s) [%s] else bb%d" % (operand(t["discr"]), ", ".join("%s->bb%d" % (a, b) for a, b in t["targets"]), t["otherwise"])
    if k == "call":
        fn = t["func"].get("fn")
        nm = (fn.get("resolved") or fn["path"]) if fn else operand(t["func"])
        ga = ("::<%s>" % ", ".join(fn["args"])) if fn and fn.get("args") else ""
        return "%s = %s%s(%s) -> bb%s unwind %s" % (place(t["dest"]), nm, ga, ", ".join(operand(a) for a in t["args"]), t["target"], t["unwind"])
    if k == "drop":
        return "drop(%s : %s) -> bb%d unwind %s" % (place(t["p"]), t["ty"], t["target"], t["unwind"])
    if k == "assert":
        return "assert(%s == %s) [%s] -> bb%d" % (operand(t["cond"]), t["expected"], t["kind"], t["target"])
    return k


def dump(b, out=sys.stdout):
    print("fn %s   [%s]  args=%d" % (b.id, b.ident, b.arg_count), file=out)
    for i, ty in enumerate(b.locals):
        nm = b.debug_name(i)
        print("    let _%d: %s%s" % (i, ty, ("   // " + nm) if nm else ""), file=out)
    for bi, bl in enumerate(b.blocks):
        print("  bb%d%s:" % (bi, " (cleanup)" if bl["cleanup"] else ""), file=out)
        for st in bl["stmts"]:
            if st["k"] == "assign":
                print("      %s = %s        // L%s" % (place(st["p"]), rvalue(st["rv"]), st["span"]["lo"]), file=out)
            else:
                print("      %s" % st, file=out)
        print("      %s" % term(bl["term"]), file=out)


if __name__ == "__main__":
    f = F.load(sys.argv[2] if len(sys.argv) > 2 else "default")
    for b in f.bodies:
        if sys.argv[1] in b.ident:
            dump(b)
            for i, p in enumerate(b.d.get("promoted", [])):
                print("  -- promoted[%d]" % i)
