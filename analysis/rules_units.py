"""R-UNITS (DESIGN 3.4): ROW / COL / CELL dimensional analysis of indices and extents.

Seeds come from the repository: struct field names (ADT table), getters, every parameter of type
Coordinate ((col,row)), parameter debug names and a small override table keyed by function name.
Obligations: (u1) ordering comparisons relate equal units; (u2) products are ROW*COL; (u3) sums never add a
ROW to a COL; (u4) call arguments carry the unit of the callee's parameter; (u5) field initialisers carry
the field's unit.  Values with no inferred unit are not checked (no alarm); the number of seeded
parameter slots is floored so that losing the seeds fails the check."""
import re
from .core import Result, AnchorMissing
from .facts import norm_ty
from .dfx import Dfx, show

ROW, COL, CELL = "ROW", "COL", "CELL"
FIELD_UNITS = {"num_rows": ROW, "num_cols": COL, "stride": COL, "cols": COL, "skip_cols": COL, "skip": COL, "col": COL}
NAME_UNITS = {"row": ROW, "r1": ROW, "r2": ROW, "num_rows": ROW, "row1": ROW, "row2": ROW, "rows": ROW, "row_mid": ROW,
              "col": COL, "c1": COL, "c2": COL, "num_cols": COL, "cols": COL, "col1": COL, "col2": COL, "stride": COL, "col_mid": COL}
OVERRIDE = {("insert_row", "index"): ROW, ("remove_row", "index"): ROW, ("insert_col", "index"): COL, ("remove_col", "index"): COL}
GETTERS = {"num_rows": ROW, "num_cols": COL, "stride": COL}
EXEMPT = {"swap_dimensions"}        # its purpose is to exchange the units
STRUCTS = ("TooDee", "TooDeeView", "TooDeeViewMut", "Rows", "RowsMut", "Col", "ColMut", "DrainCol")


def field_table(f):
    out = {}
    for a in f.adts:
        nm = a["id"].split("::")[-1]
        if nm in STRUCTS:
            out[a["id"]] = {i: FIELD_UNITS[fl["name"]] for i, fl in enumerate(a["fields"]) if fl["name"] in FIELD_UNITS and fl["ty"] == "usize"}
    if len(out) < 8:
        raise AnchorMissing("the eight shape-carrying structs (found %s)" % sorted(k.split("::")[-1] for k in out))
    return out


def struct_of(FT, ty):
    t = norm_ty(ty)
    for k in FT:
        if re.match(r"^%s(<|$)" % re.escape(k), t):
            return k
    return None


def strip_ptr(ty):
    while True:
        m = re.match(r"^&(?:'\S+ )?(?:mut )?(.*)$", ty) or re.match(r"^\*(?:mut|const) (.*)$", ty)
        if not m:
            return ty
        ty = m.group(1)


_SAME_UNIT = {}


def same_unit_params(cb):
    """classes of usize parameters of a crate function that are unit-less by name but are related inside it by operations
    that need equal units (Rem, Sub, Add, ordering / equality, plain copies between them)"""
    if cb.id in _SAME_UNIT:
        return _SAME_UNIT[cb.id]
    _SAME_UNIT[cb.id] = []
    pn = cb.param_names()
    params = [loc for loc in range(1, cb.arg_count + 1) if cb.locals[loc] == "usize" and not (NAME_UNITS.get(pn.get(loc)) or OVERRIDE.get((cb.name, pn.get(loc))))]
    if len(params) < 2 or cb.kind == "Closure":
        return []
    parent = {}
    def find(x):
        while parent.get(x, x) != x:
            x = parent[x]
        return x
    def union(a, b):
        ra, rb = find(a), find(b)
        if ra != rb:
            parent[ra] = rb
    def loc(o):
        return o["p"]["local"] if o and o.get("k") in ("copy", "move") and all(e["k"] == "field" for e in o["p"]["proj"]) and cb.locals[o["p"]["local"]] in ("usize", "(usize, bool)", "(usize, usize)") else None
    for _, _, st in cb.stmts():
        if st["k"] != "assign":
            continue
        rv = st["rv"]
        dl = st["p"]["local"] if cb.locals[st["p"]["local"]] in ("usize", "(usize, bool)") else None
        if rv["k"] in ("use", "cast"):
            a = loc(rv["o"])
            if a is not None and dl is not None:
                union(a, dl)
        elif rv["k"] == "binop":
            a, b2 = loc(rv["l"]), loc(rv["r"])
            op = rv["op"].replace("WithOverflow", "").replace("Unchecked", "")
            if op in ("Rem", "Sub", "Add", "Lt", "Le", "Gt", "Ge", "Eq", "Ne") and a is not None and b2 is not None:
                union(a, b2)
            if op in ("Rem", "Sub", "Add") and dl is not None:
                for x in (a, b2):
                    if x is not None:
                        union(x, dl)
    for _, t, fn in cb.calls():
        # recursion / swap keep the relation
        if fn and fn["path"] == "core::mem::swap":
            pass
        if fn and (cb.facts.crate_fn_for_call(fn) is cb):
            for i, a in enumerate(t["args"]):
                la = loc(a)
                if la is not None and (i + 1) in params:
                    union(la, i + 1)
    classes = {}
    for p_ in params:
        classes.setdefault(find(p_), set()).add(p_)
    out = [c for c in classes.values() if len(c) >= 2]
    _SAME_UNIT[cb.id] = out
    return out


class UBody:
    def __init__(self, body, f, FT):
        self.body, self.b, self.f, self.FT = body, body.d, f, FT
        self.unit = {}
        self.cmp_units = {}
        self.errors = []
        self.d = Dfx(body)
        self.names = body.param_names()
        fl = body.file.replace("\\", "/")
        self.generic_layer = fl.endswith(("src/ops.rs", "src/sort.rs", "src/translate.rs", "src/copy.rs"))
        self.body_file = fl

    def pkey(self, p):
        ty = self.b["locals"][p["local"]]
        path = []
        seeded = None
        for e in p["proj"]:
            if e["k"] == "deref":
                ty = strip_ptr(ty)
            elif e["k"] == "field":
                st = struct_of(self.FT, strip_ptr(ty))
                seeded = self.FT[st].get(e["i"]) if st else None
                path.append(e["i"])
                ty = e["ty"]
            elif e["k"] == "downcast":
                pass
            else:
                return None, None
        return (p["local"], tuple(path)), seeded

    def setu(self, key, u, why):
        if key is None or u is None:
            return False
        old = self.unit.get(key)
        if old is None:
            self.unit[key] = u
            return True
        if old == COL and u == CELL:
            self.unit[key] = CELL
            return True
        return False

    def op_unit(self, o):
        if o["k"] in ("copy", "move"):
            key, seeded = self.pkey(o["p"])
            if seeded:
                return seeded
            if key is None:
                return None
            return self.unit.get(key)
        return "CONST" if o["k"] == "const" and re.search(r"\d+_usize", o["val"]) else None

    def capacity_only(self):
        """locals whose value only ever reaches the capacity argument of with_capacity / reserve* (directly or through
        further arithmetic and overflow assertions): a performance hint, never an address or a dimension"""
        if hasattr(self, "_cap"):
            return self._cap
        b = self.b
        uses = {}        # local -> list of ("cap",) | ("into", dest_local) | ("other",)
        def use(o, what):
            if o and o.get("k") in ("copy", "move"):
                uses.setdefault(o["p"]["local"], []).append(what)
        for bl in b["blocks"]:
            for st in bl["stmts"]:
                if st["k"] != "assign":
                    continue
                rv = st["rv"]
                dest = ("into", st["p"]["local"]) if not any(e["k"] == "deref" for e in st["p"]["proj"]) else ("other",)
                for o in [rv.get("o"), rv.get("l"), rv.get("r")] + list(rv.get("fields", []) or []):
                    use(o, dest)
                if rv.get("p"):
                    uses.setdefault(rv["p"]["local"], []).append(("other",))
            t = bl["term"]
            if not t:
                continue
            if t["k"] == "call":
                fn = t["func"].get("fn") or {}
                capcall = fn.get("name") in ("with_capacity", "reserve", "reserve_exact", "try_reserve", "try_reserve_exact") and (fn.get("path") or "").startswith("alloc::")
                for i, a in enumerate(t["args"]):
                    use(a, ("cap",) if capcall and i == len(t["args"]) - 1 else ("other",))
            elif t["k"] == "assert":
                use(t.get("cond"), ("assert",))
            elif t["k"] == "switch":
                use(t.get("discr"), ("other",))
            elif t["k"] == "drop":
                uses.setdefault(t["p"]["local"], []).append(("other",))
        cap = set()
        changed = True
        while changed:
            changed = False
            for l, us in uses.items():
                if l in cap or l <= b["arg_count"]:
                    continue
                if us and all(u[0] in ("cap", "assert") or (u[0] == "into" and u[1] in cap) for u in us) and any(u[0] != "assert" for u in us):
                    cap.add(l); changed = True
        self._cap = cap
        return cap

    def err(self, rule, desc, msg, span):
        self.errors.append((rule, desc, msg, span))

    def sh(self, o):
        return show(self.d.expr(o), self.names)

    def combine(self, op, a, b, span, lo, ro):
        if op in ("Add", "Sub", "AddWithOverflow", "SubWithOverflow", "AddUnchecked", "SubUnchecked"):
            if a == "CONST":
                return b
            if b == "CONST":
                return a
            if a is None or b is None:
                if self.generic_layer and (a or b) in (ROW, COL):
                    # the generic algorithm layers have no cell arithmetic: a counter advanced by a ROW distance is a ROW position
                    return a or b
                return (a or b) if (a == CELL or b == CELL) else None
            if {a, b} == {ROW, COL}:
                self.err("u3", "%s%s%s" % (a, "+" if op.startswith("Add") else "-", b), "adds/subtracts a ROW quantity and a COL quantity: %s %s %s" % (self.sh(lo), op, self.sh(ro)), span)
                return None
            if CELL in (a, b):
                return CELL
            return a
        if op in ("Mul", "MulWithOverflow", "MulUnchecked", "overflowing_mul", "checked_mul"):
            if a == "CONST":
                return b
            if b == "CONST":
                return a
            if a is None or b is None:
                return None
            if {a, b} == {ROW, COL}:
                return CELL
            self.err("u2", "%s*%s" % (a, b), "multiplies %s by %s (a cell offset is ROW*COL): %s * %s" % (a, b, self.sh(lo), self.sh(ro)), span)
            return None
        if op in ("Lt", "Le", "Gt", "Ge"):
            # u10: a unit-less counter that is ordered against a ROW count in one place and a COL count in another
            for mine, other, o_ in ((a, b, lo), (b, a, ro)):
                if mine is None and other in (ROW, COL) and self.generic_layer and o_["k"] in ("copy", "move") and not o_["p"]["proj"] and o_["p"]["local"] > self.b["arg_count"]:
                    l_ = o_["p"]["local"]
                    for _ in range(3):      # the comparison reads a temporary copy of the named variable
                        ds_ = self.d.single_def(l_)
                        if ds_ and ds_[0] == "stmt" and ds_[3]["rv"]["k"] == "use" and ds_[3]["rv"]["o"]["k"] in ("copy", "move") and not ds_[3]["rv"]["o"]["p"]["proj"]:
                            l_ = ds_[3]["rv"]["o"]["p"]["local"]
                        else:
                            break
                    if not self.body.debug_name(l_):
                        continue
                    seen_ = self.cmp_units.setdefault(l_, {})
                    seen_.setdefault(other, span)
                    if len(seen_) == 2:
                        self.err("u10", "%s:ROW+COL" % self.body.debug_name(l_), "the counter `%s` is ordered against a ROW quantity in one place and a COL quantity in another (here: %s %s %s)" % (self.body.debug_name(l_), self.sh(lo), op, self.sh(ro)), span)
            if a in (ROW, COL) and b in (ROW, COL) and a != b:
                self.err("u1", "%s%s%s" % (a, {"Lt": "<", "Le": "<=", "Gt": ">", "Ge": ">="}[op], b), "ordering comparison of a %s with a %s: %s %s %s" % (a, b, self.sh(lo), op, self.sh(ro)), span)
            return None
        if op in ("Eq", "Ne"):
            # equalities between the two dimension *counts* are the zero-rule guard (assert_eq!(num_rows, num_cols));
            # an index / mid-point of one axis compared for equality with the count of the other axis is a mix-up
            if a in (ROW, COL) and b in (ROW, COL) and a != b and not (self.is_count(lo) and self.is_count(ro)):
                self.err("u1", "%s%s%s" % (a, "==" if op == "Eq" else "!=", b), "equality comparison of a %s position with a %s quantity: %s %s %s" % (a, b, self.sh(lo), op, self.sh(ro)), span)
            return None
        return None

    def is_count(self, o, depth=0):
        """operand is a dimension count: a num_rows / num_cols field, getter, size() component, or a parameter / local
        so named"""
        if o["k"] not in ("copy", "move") or depth > 6:
            return False
        p = o["p"]
        key, seeded = self.pkey(p)
        if seeded:
            return True
        if not p["proj"]:
            nm = self.body.debug_name(p["local"])
            if nm in ("num_rows", "num_cols"):
                return True
        if p["proj"] and all(e["k"] in ("deref",) for e in p["proj"]) or not p["proj"]:
            d = self.d.single_def(p["local"])
            if d is not None:
                if d[0] == "call":
                    fn = d[2]["func"].get("fn") or {}
                    return fn.get("name") in ("num_rows", "num_cols")
                rv = d[3]["rv"]
                if rv["k"] in ("use", "cast"):
                    return self.is_count(rv["o"], depth + 1)
                if rv["k"] == "ref":
                    return self.is_count({"k": "copy", "p": rv["p"]}, depth + 1)
        if len(p["proj"]) == 1 and p["proj"][0]["k"] == "field":
            d = self.d.single_def(p["local"])
            if d is not None and d[0] == "call" and (d[2]["func"].get("fn") or {}).get("name") == "size":
                return True
            if d is not None and d[0] == "stmt" and d[3]["rv"]["k"] == "agg" and d[3]["rv"]["agg"] == "tuple":
                return self.is_count(d[3]["rv"]["fields"][p["proj"][0]["i"]], depth + 1)
        return False

    def callee_params(self, fn):
        """list index -> (debug name, unit | 'COORD') for the parameters of the crate callee"""
        f = self.f
        cb = f.crate_fn_for_call(fn)
        cands = [cb] if cb is not None else []
        if not cands:
            # trait method without a body on this receiver: any implementor with that name (units are by name)
            cands = [x for x in f.fn_bodies if x.name == fn["name"] and x.kind == "AssocFn" and (x.impl_trait or x.trait_provided)]
        for c in cands:
            out = {}
            for loc, nm in c.param_names().items():
                ty = c.locals[loc]
                u = OVERRIDE.get((c.name, nm)) or NAME_UNITS.get(nm)
                if ty == "(usize, usize)":
                    u = "COORD"
                elif ty != "usize":
                    u = None
                out[loc - 1] = (nm, u)
            if out:
                return out, c
        return None, None

    def seed_params(self):
        b = self.b
        n = 0
        for loc, nm in self.names.items():
            ty = b["locals"][loc]
            if ty == "(usize, usize)":
                self.unit[(loc, (0,))] = COL
                self.unit[(loc, (1,))] = ROW
                n += 2
            elif ty == "((usize, usize), (usize, usize))":
                for i in (0, 1):
                    self.unit[(loc, (i, 0))] = COL
                    self.unit[(loc, (i, 1))] = ROW
                    n += 2
            elif ty == "usize":
                u = OVERRIDE.get((self.body.name, nm)) or NAME_UNITS.get(nm)
                if u:
                    self.unit[(loc, ())] = u
                    n += 1
        # tuple-pattern parameters `(col1, row1): Coordinate`: the debug info points into the tuple
        for v in b.get("debug", []):
            val = v.get("v")
            if isinstance(val, dict) and "local" in val and 1 <= val["local"] <= b["arg_count"] and val.get("proj"):
                ty = b["locals"][val["local"]]
                if ty == "(usize, usize)":
                    if (val["local"], (0,)) not in self.unit:
                        self.unit[(val["local"], (0,))] = COL
                        self.unit[(val["local"], (1,))] = ROW
                        n += 2
        return n

    def infer(self):
        b = self.b
        if self.body.name in EXEMPT:
            return 0
        nseed = self.seed_params()
        changed, rounds = True, 0
        while changed and rounds < 25:
            changed = False
            rounds += 1
            self.errors = []
            for bl in b["blocks"]:
                if bl["cleanup"]:
                    continue
                for st in bl["stmts"]:
                    if st["k"] != "assign":
                        continue
                    key, seeded = self.pkey(st["p"])
                    rv = st["rv"]
                    u = None
                    if rv["k"] in ("use", "cast"):
                        u = self.op_unit(rv["o"])
                        if rv["o"]["k"] in ("copy", "move"):
                            sk, _ = self.pkey(rv["o"]["p"])
                            if sk and key:
                                for (l, path), uu in list(self.unit.items()):
                                    if l == sk[0] and path[:len(sk[1])] == sk[1] and len(path) > len(sk[1]):
                                        changed |= self.setu((key[0], key[1] + path[len(sk[1]):]), uu, "tuple copy")
                    elif rv["k"] == "binop":
                        ne_ = len(self.errors)
                        u = self.combine(rv["op"], self.op_unit(rv["l"]), self.op_unit(rv["r"]), st["span"], rv["l"], rv["r"])
                        if st["p"]["local"] in self.capacity_only():
                            del self.errors[ne_:]       # a capacity hint (Vec::with_capacity / reserve): its value changes no behaviour
                        if rv["op"].endswith("WithOverflow") and key and u in (ROW, COL, CELL):
                            changed |= self.setu((key[0], key[1] + (0,)), u, "ovf tuple")
                            u = None
                    elif rv["k"] == "agg":
                        if rv["agg"] == "tuple" and key:
                            for i, fo in enumerate(rv["fields"]):
                                fu = self.op_unit(fo)
                                if fu in (ROW, COL, CELL):
                                    changed |= self.setu((key[0], key[1] + (i,)), fu, "tuple build")
                                if fo["k"] in ("copy", "move"):
                                    sk, _ = self.pkey(fo["p"])
                                    if sk:
                                        for (l, path), uu in list(self.unit.items()):
                                            if l == sk[0] and path[:len(sk[1])] == sk[1] and len(path) > len(sk[1]):
                                                changed |= self.setu((key[0], key[1] + (i,) + path[len(sk[1]):]), uu, "tuple build")
                        elif rv["agg"] == "adt" and rv["adt"].split("::")[-1] in ("Range", "RangeInclusive", "RangeFrom", "RangeTo") and key:
                            # a range of positions carries the unit of its bounds; so do the items of its iteration
                            us = {self.op_unit(fo) for fo in rv["fields"]} - {None, "CONST"}
                            if len(us) == 1:
                                changed |= self.setu(key, "RANGE:" + us.pop(), "range")
                            elif us == {ROW, COL}:
                                self.err("u3", "range:ROW..COL", "a range runs from a %s to a %s position: %s" % (self.op_unit(rv["fields"][0]), self.op_unit(rv["fields"][1]), ", ".join(self.sh(fo) for fo in rv["fields"])), st["span"])
                        elif rv["agg"] == "adt":
                            stn = norm_ty(rv["adt"])
                            fu_map = self.FT.get(stn)
                            if fu_map:
                                for i, fo in enumerate(rv["fields"]):
                                    fu = self.op_unit(fo)
                                    if i in fu_map and fu in (ROW, COL) and fu != fu_map[i]:
                                        fname = rv["fields_names"][i]
                                        self.err("u5", "%s.%s=%s" % (stn.split("::")[-1], fname, fu), "field %s.%s (%s) is initialised with a %s value: %s" % (stn.split("::")[-1], fname, fu_map[i], fu, self.sh(fo)), st["span"])
                    if seeded and u in (ROW, COL) and u != seeded:
                        self.err("u5", "store:%s<-%s" % (seeded, u), "a %s field is assigned a %s value: %s" % (seeded, u, show(self.d.rvalue(rv), self.names)), st["span"])
                    if (u in (ROW, COL, CELL) or (isinstance(u, str) and u.startswith("RANGE:"))) and key and not seeded:
                        changed |= self.setu(key, u, "assign")
                t = bl["term"]
                if t and t["k"] == "call" and t["func"].get("fn"):
                    fn = t["func"]["fn"]
                    name = fn["name"]
                    dk, _ = self.pkey(t["dest"])
                    if name in GETTERS and len(t["args"]) == 1:
                        changed |= self.setu(dk, GETTERS[name], "getter")
                    # ranges: adaptors keep the unit, stepping yields items of that unit
                    if t["args"] and t["args"][0]["k"] in ("copy", "move"):
                        ak0, _ = self.pkey(t["args"][0]["p"])
                        au0 = self.unit.get(ak0) if ak0 else None
                        if au0 is None and ak0 is not None:
                            # through `&mut range`
                            dd = self.d.single_def(t["args"][0]["p"]["local"]) if not t["args"][0]["p"]["proj"] else None
                            for _ in range(3):
                                if dd is not None and dd[0] == "stmt" and dd[3]["rv"]["k"] == "ref":
                                    rk, _ = self.pkey(dd[3]["rv"]["p"])
                                    au0 = self.unit.get((rk[0], tuple(x for x in rk[1]))) if rk else None
                                    if au0 is None and rk and len(dd[3]["rv"]["p"]["proj"]) == 1 and dd[3]["rv"]["p"]["proj"][0]["k"] == "deref":
                                        dd = self.d.single_def(dd[3]["rv"]["p"]["local"])
                                        continue
                                break
                        if isinstance(au0, str) and au0.startswith("RANGE:") and dk:
                            if name in ("into_iter", "rev", "clone"):
                                changed |= self.setu(dk, au0, "range adaptor")
                            elif name in ("next", "next_back") :
                                changed |= self.setu((dk[0], dk[1] + (0,)), au0[6:], "range item")
                    # u9: a raw pointer into the row-major buffer is moved by cell or column quantities (the distance between rows
                    # is a column count), and the flat buffer is rotated / drained by cells: never by a ROW quantity
                    if len(t["args"]) == 2 and (re.match(r"^core::ptr::(mut_ptr|const_ptr)::<impl \*(mut|const) T>::(add|sub|offset|wrapping_add|wrapping_sub)$", fn["path"]) or
                                                (fn["path"] in ("core::slice::<impl [T]>::rotate_left", "core::slice::<impl [T]>::rotate_right") and self.body_file.endswith("src/toodee.rs"))):
                        if self.op_unit(t["args"][1]) == ROW:
                            self.err("u9", "%s(ROW)" % name, "the flat row-major buffer is stepped / rotated by a ROW quantity: %s(%s) - consecutive rows are a column count apart" % (name, self.sh(t["args"][1])), t["span"])
                    # u7: a Coordinate is (col, row); ordering two of them lexicographically (tuple <, <=, >, >=, cmp) compares
                    # the column first and the row only on ties - never what a bounds / direction decision needs
                    if name in ("lt", "le", "gt", "ge", "cmp", "partial_cmp", "min", "max") and re.search(r"\(usize, usize\)", " ".join(fn.get("args", []))) \
                            and (fn["path"].startswith("core::tuple::") or fn["path"].startswith("core::cmp::")):
                        self.err("u7", "coord-%s" % name, "two Coordinates are ordered lexicographically (%s on (col,row) tuples): the column decides and the row only breaks ties" % name, t["span"])
                    # stepping a row / column cursor by a COL quantity
                    if name in ("nth", "nth_back") and len(t["args"]) == 2 and re.search(r"iter::(Rows|RowsMut|Col|ColMut)<", (fn.get("self_ty") or "") + (fn.get("resolved") or "")):
                        au = self.op_unit(t["args"][1])
                        if au == COL:
                            self.err("u4", "%s(n:ROW<-COL)" % name, "a row/column cursor is advanced by a COL quantity: %s(%s)" % (name, self.sh(t["args"][1])), t["span"])
                    # u6: positions inside a row slice are COL quantities
                    if self.generic_layer and re.match(r"^core::slice::<impl \[T\]>::(get_unchecked|get_unchecked_mut|rotate_left|rotate_right|split_at|split_at_mut|swap|copy_within)$", fn["path"]):
                        for a in t["args"][1:]:
                            if self.op_unit(a) == ROW:
                                self.err("u6", "%s(ROW)" % name, "a row slice is indexed / rotated / split by a ROW quantity: %s(%s)" % (name, self.sh(a)), t["span"])
                    if name == "size" and (fn.get("trait") or "").endswith("TooDeeOps") and dk:
                        changed |= self.setu((dk[0], dk[1] + (0,)), COL, "size")
                        changed |= self.setu((dk[0], dk[1] + (1,)), ROW, "size")
                    if name in ("overflowing_mul", "checked_mul") and len(t["args"]) == 2:
                        u = self.combine(name, self.op_unit(t["args"][0]), self.op_unit(t["args"][1]), t["span"], t["args"][0], t["args"][1])
                        if name == "overflowing_mul" and dk and u:
                            changed |= self.setu((dk[0], dk[1] + (0,)), u, "omul")
                    if name in ("cmp", "partial_cmp", "lt", "le", "gt", "ge") and fn["path"].startswith("core::cmp::") and len(t["args"]) == 2 and "usize" in " ".join(fn.get("args") or [fn.get("self_ty") or ""]):
                        # `a.cmp(&b)` orders two values exactly like `a < b`: u1 applies (the operands are passed by reference)
                        def ref_unit(a_, depth=0):
                            if a_["k"] in ("copy", "move") and not a_["p"]["proj"] and depth < 4:
                                ds_ = self.d.single_def(a_["p"]["local"])
                                if ds_ and ds_[0] == "stmt" and ds_[3]["rv"]["k"] == "ref":
                                    pl_ = ds_[3]["rv"]["p"]
                                    if len(pl_["proj"]) == 1 and pl_["proj"][0]["k"] == "deref":      # a reborrow `&*r`
                                        return ref_unit({"k": "copy", "p": {"local": pl_["local"], "proj": []}}, depth + 1)
                                    return self.op_unit({"k": "copy", "p": pl_})
                            return self.op_unit(a_)
                        ua, ub = ref_unit(t["args"][0]), ref_unit(t["args"][1])
                        if {ua, ub} == {ROW, COL}:
                            self.err("u1", "%scmp%s" % (ua, ub), "ordering comparison (%s) of a %s with a %s: %s vs %s" % (name, ua, ub, self.sh(t["args"][0]), self.sh(t["args"][1])), t["span"])
                    if name in ("min", "max") and fn["path"].startswith("core::cmp::Ord::") and len(t["args"]) == 2:
                        a, b2 = self.op_unit(t["args"][0]), self.op_unit(t["args"][1])
                        if a in (ROW, COL) and a == b2:
                            changed |= self.setu(dk, a, "min/max")
                    if fn.get("krate") == self.f.raw["crate"] or fn.get("resolved_krate") == self.f.raw["crate"]:
                        pu, cb = self.callee_params(fn)
                        # u8: parameters that the callee compares / subtracts / takes remainders of with one another are of one unit
                        # (a private gcd(a, b), min-max helper ..): the arguments must be, too
                        if cb is not None:
                            for cls in same_unit_params(cb):
                                us = [(i, self.op_unit(t["args"][i - 1])) for i in sorted(cls) if i - 1 < len(t["args"])]
                                us = [(i, u) for i, u in us if u in (ROW, COL)]
                                if len({u for _, u in us}) > 1:
                                    self.err("u8", "%s(%s)" % (name, ",".join(u for _, u in us)), "%s relates its parameters %s to one another (%%, -, <, ==), so they are of one unit, but receives %s: %s" % (name, sorted(cls), [u for _, u in us], ", ".join(self.sh(t["args"][i - 1]) for i, _ in us)), t["span"])
                        if pu:
                            for i, a in enumerate(t["args"]):
                                if i not in pu:
                                    continue
                                pname, punit = pu[i]
                                if punit in (ROW, COL):
                                    au = self.op_unit(a)
                                    if au in (ROW, COL) and au != punit:
                                        self.err("u4", "%s(%s:%s<-%s)" % (name, pname, punit, au), "argument `%s` of %s is a %s, but receives a %s value: %s" % (pname, name, punit, au, self.sh(a)), t["span"])
                                elif punit == "COORD" and a["k"] in ("copy", "move"):
                                    ak, _ = self.pkey(a["p"])
                                    if ak:
                                        for j, want in ((0, COL), (1, ROW)):
                                            got = self.unit.get((ak[0], ak[1] + (j,)))
                                            if got in (ROW, COL) and got != want:
                                                self.err("u4", "%s(%s.%d:%s<-%s)" % (name, pname, j, want, got), "coordinate argument `%s` of %s has component .%d = %s (a Coordinate is (col,row))" % (pname, name, j, got), t["span"])
        return nseed


def r_units(f):
    R = Result("R-UNITS")
    _SAME_UNIT.clear()
    FT = field_table(f)
    seeded = 0
    nb = 0
    for b in f.fn_bodies:
        fl = b.file.replace("\\", "/")
        if "/tests" in fl or b.d.get("derived"):
            continue
        U = UBody(b, f, FT)
        try:
            ns = U.infer()
        except RecursionError:
            R.inconc(b.ident, "recursion limit")
            continue
        seeded += ns
        checked = [(k, u) for k, u in U.unit.items()]
        if ns or U.errors:
            nb += 1
        seen = set()
        for rule, desc, msg, span in U.errors:
            if (rule, desc) in seen:
                continue
            seen.add((rule, desc))
            R.fail(b.ident, "%s:%s" % (rule, desc), "%s: %s" % (b.ident, msg), b.where(span))
        if ns:
            R.inst(b.ident, "%d parameter slots seeded, %d places carry a unit; u1-u5 hold" % (ns, len(checked)), not U.errors)
    from .rules_struct import cfg_features
    if len(cfg_features(f)) == 4:
        R.require_floor(seeded, 100, "seeded parameter slots")
    else:
        R.require_floor(seeded, 60, "seeded parameter slots")
    return R, seeded
