"""Def-use expressions over MIR (mode (b) of DESIGN 1: no path evaluation).

`Dfx(body).expr(operand)` substitutes single-definition temporaries by their defining rvalue /
call, giving a small expression tree of tuples:

  ("param", i)                 function parameter local _i (i >= 1)
  ("var", local)               a local with several definitions (a `mut` variable, loop-carried)
  ("field", e, i)              e.i  (tuple / struct field)
  ("deref", e)                 *e
  ("ref", e) / ("refmut", e)   &e / &mut e  (also raw pointers)
  ("const", text, ty)
  ("fn", path)                 function item constant
  ("bin", op, a, b)            op in Add Sub Mul Div Rem Eq Ne Lt Le Gt Ge ... (WithOverflow stripped)
  ("un", op, a)
  ("cast", a, ty)
  ("call", path, name, [args], fn)   result of a call terminator (fn = the resolved-callee record)
  ("agg", what, [fields])      tuple / adt / closure aggregate
  ("discr", e)
  ("downcast", e, variant)
  ("index", e, idx)
"""
import re


class Dfx:
    def __init__(self, body, opaque=()):
        self.b = body
        self.opaque = set(opaque)     # locals never replaced by their definition (mutated through `&mut` by callees)
        self.defs = {}           # local -> list of ("stmt", bi, si, st) | ("call", bi, term)
        for bi, bl in enumerate(body.blocks):
            for si, st in enumerate(bl["stmts"]):
                if st["k"] == "assign":
                    self.defs.setdefault(st["p"]["local"], []).append(("stmt", bi, si, st))
            t = bl["term"]
            if t and t["k"] == "call":
                self.defs.setdefault(t["dest"]["local"], []).append(("call", bi, t))
        self._memo = {}

    def whole_defs(self, local):
        """definitions that assign the whole local (no projection)"""
        out = []
        for d in self.defs.get(local, []):
            if d[0] == "stmt":
                if not d[3]["p"]["proj"]:
                    out.append(d)
            else:
                if not d[2]["dest"]["proj"]:
                    out.append(d)
        return out

    def single_def(self, local):
        ds = self.defs.get(local, [])
        if len(ds) == 1:
            d = ds[0]
            proj = d[3]["p"]["proj"] if d[0] == "stmt" else d[2]["dest"]["proj"]
            if not proj:
                return d
        return None

    def local_expr(self, local, depth=0):
        if 1 <= local <= self.b.arg_count:
            # a parameter that is assigned again has two definitions (the caller's value and the new one): a variable
            return ("param", local) if not self.whole_defs(local) else ("var", local)
        if local in self._memo:
            return self._memo[local]
        d = self.single_def(local)
        if d is None or depth > 60 or local in self.opaque:
            return ("var", local)
        self._memo[local] = ("var", local)      # cycle guard
        if d[0] == "stmt":
            e = self.rvalue(d[3]["rv"], depth + 1)
        else:
            t = d[2]
            fn = t["func"].get("fn")
            args = [self.expr(a, depth + 1) for a in t["args"]]
            if fn:
                e = ("call", fn.get("resolved") or fn["path"], fn["name"], args, fn)
            else:
                e = ("call", "<indirect>", "<indirect>", [self.expr(t["func"], depth + 1)] + args, None)
        self._memo[local] = e
        return e

    def place(self, p, depth=0):
        e = self.local_expr(p["local"], depth)
        for pe in p["proj"]:
            k = pe["k"]
            if k == "deref":
                e = e[1] if e[0] in ("ref", "refmut") else ("deref", e)
            elif k == "field":
                if e[0] == "agg" and e[1] in ("tuple", "closure") and pe["i"] < len(e[2]):
                    e = e[2][pe["i"]]
                elif e[0] == "bin" and e[1].endswith("WithOverflow"):
                    e = ("bin", e[1][:-len("WithOverflow")], e[2], e[3]) if pe["i"] == 0 else ("ovf", e)
                else:
                    e = ("field", e, pe["i"])
            elif k == "downcast":
                e = ("downcast", e, pe.get("name"))
            elif k == "index":
                e = ("index", e, self.local_expr(pe["local"], depth))
            else:
                e = ("proj?", e, pe.get("dbg"))
        return e

    def expr(self, o, depth=0):
        if o["k"] in ("copy", "move"):
            return self.place(o["p"], depth)
        if o["k"] == "const":
            if "fn" in o:
                return ("fn", o["fn"].get("resolved") or o["fn"]["path"], o["fn"])
            return ("const", o["val"], o["ty"])
        return ("?", str(o))

    def rvalue(self, r, depth=0):
        k = r["k"]
        if k == "use":
            return self.expr(r["o"], depth)
        if k == "ref":
            return ("refmut" if r["mut"] else "ref", self.place(r["p"], depth))
        if k == "rawptr":
            return ("refmut" if "Mut" in r["kind"] else "ref", self.place(r["p"], depth))
        if k == "binop":
            return ("bin", r["op"], self.expr(r["l"], depth), self.expr(r["r"], depth))
        if k == "unop":
            return ("un", r["op"], self.expr(r["o"], depth))
        if k == "cast":
            return ("cast", self.expr(r["o"], depth), r["ty"])
        if k == "discr":
            return ("discr", self.place(r["p"], depth))
        if k == "agg":
            what = r["agg"] if r["agg"] != "adt" else "adt:%s::%s" % (r["adt"], r["variant"])
            if r["agg"] == "closure":
                return ("agg", "closure", [self.expr(f, depth) for f in r["fields"]], r.get("def"))
            return ("agg", what, [self.expr(f, depth) for f in r["fields"]])
        return ("?", str(r)[:80])


def strip(e):
    """look through casts, copies, reborrows, derefs of refs"""
    while True:
        if e[0] == "cast":
            e = e[1]
        elif e[0] == "deref" and e[1][0] in ("ref", "refmut"):
            e = e[1][1]
        elif e[0] in ("ref", "refmut") and e[1][0] == "deref":
            e = e[1][1]
        else:
            return e


def const_usize(e):
    e = strip(e)
    if e[0] == "const":
        m = re.match(r"^(?:const )?(\d+)_usize$", e[1])
        if m:
            return int(m.group(1))
    return None


def const_str(e):
    e = strip(e)
    if e[0] == "const":
        m = re.match(r'^(?:const )?"(.*)"$', e[1])
        if m:
            return m.group(1)
    return None


def walk(e):
    yield e
    if isinstance(e, tuple):
        for x in e[1:]:
            if isinstance(x, tuple):
                yield from walk(x)
            elif isinstance(x, list):
                for y in x:
                    if isinstance(y, tuple):
                        yield from walk(y)


def show(e, names=None):
    """compact text of an expression (no line numbers -> usable in violation keys)"""
    k = e[0]
    if k == "param":
        return (names or {}).get(e[1], "_%d" % e[1])
    if k == "var":
        return (names or {}).get(e[1], "v%d" % e[1])
    if k == "field":
        return "%s.%d" % (show(e[1], names), e[2])
    if k == "deref":
        return "*%s" % show(e[1], names)
    if k in ("ref", "refmut"):
        return "&%s" % show(e[1], names)
    if k == "const":
        return e[1].replace("const ", "")
    if k == "fn":
        return e[1]
    if k == "bin":
        sym = {"Add": "+", "Sub": "-", "Mul": "*", "Div": "/", "Rem": "%", "Eq": "==", "Ne": "!=", "Lt": "<", "Le": "<=", "Gt": ">", "Ge": ">=",
               "AddWithOverflow": "+", "SubWithOverflow": "-", "MulWithOverflow": "*", "AddUnchecked": "+", "SubUnchecked": "-", "MulUnchecked": "*"}.get(e[1], e[1])
        return "(%s %s %s)" % (show(e[2], names), sym, show(e[3], names))
    if k == "un":
        return "%s(%s)" % (e[1], show(e[2], names))
    if k == "cast":
        return show(e[1], names)
    if k == "call":
        return "%s(%s)" % (e[2], ", ".join(show(a, names) for a in e[3]))
    if k == "agg":
        return "%s{%s}" % (e[1].split("::")[-1] if e[1].startswith("adt:") else e[1], ", ".join(show(a, names) for a in e[2]))
    if k == "discr":
        return "discr(%s)" % show(e[1], names)
    if k == "downcast":
        return "(%s as %s)" % (show(e[1], names), e[2])
    if k == "index":
        return "%s[%s]" % (show(e[1], names), show(e[2], names))
    if k == "ovf":
        return "ovf(%s)" % show(e[1], names)
    return str(e)[:60]
