"""Fact extraction and access layer.

Facts are produced by /verif/driver (a rustc_private driver injected with
RUSTC_WORKSPACE_WRAPPER into `cargo +nightly check` of /repo's *current working tree*) and
are cached under /verif/.work/facts keyed by a SHA-256 over Cargo.toml, Cargo.lock and every
file under src/.  Nothing of toodee is ever executed: the only program run is rustc.
"""
import fcntl, hashlib, json, os, re, shutil, subprocess, sys, tempfile, time

VERIF = os.path.dirname(os.path.dirname(os.path.abspath(__file__)))
REPO = os.environ.get("VERIF_REPO", "/repo")
WORK = os.path.join(VERIF, ".work")
DRIVER_DIR = os.path.join(VERIF, "driver")
DRIVER_BIN = os.path.join(DRIVER_DIR, "target", "release", "toodee-facts")

# configurations: name -> (cargo feature args, extra rustflags)
CONFIGS = {
    "default": ([], []),
    "nofeat": (["--no-default-features"], []),
    "only-sort": (["--no-default-features", "--features", "sort"], []),
    "only-translate": (["--no-default-features", "--features", "translate"], []),
    "only-copy": (["--no-default-features", "--features", "copy"], []),
    "only-serde": (["--no-default-features", "--features", "serde"], []),
    "nodebug": ([], ["-C", "debug-assertions=off", "-C", "overflow-checks=off"]),
}
QUICK_CONFIGS = ["default"]
THOROUGH_CONFIGS = list(CONFIGS)


def profile_dependent_source(root=None):
    """True when some source file of the crate names `debug_assertions` (in a `#[cfg(..)]`, `cfg!(..)` or `cfg_attr`): the code the
    compiler sees then differs between the dev and the release profile beyond std's own `debug_assert!`s, so the quick tier adds
    the `nodebug` configuration (the thorough tier always has it).  Comments count too - that only costs a second extraction."""
    src = os.path.join(root or REPO, "src")
    for dp, dn, fn in os.walk(src):
        for x in fn:
            if x.endswith(".rs"):
                try:
                    with open(os.path.join(dp, x), errors="replace") as fh:
                        if re.search(r"\bdebug_assertions\b", fh.read()):
                            return True
                except OSError:
                    pass
    return False


def extra_quick_configs(root=None):
    """Configurations the quick tier adds to `default` because the SOURCE says that the code differs under them in ways the default
    build cannot show: `nodebug` when `debug_assertions` is named, the feature configurations when a feature is tested negatively
    (`not(feature = ..)`) or with `cfg!(..)`.  Today's tree names none of these, so its quick run is the default build alone; the
    thorough tier always runs all of them."""
    src = os.path.join(root or REPO, "src")
    text = []
    for dp, dn, fn in os.walk(src):
        for x in fn:
            if x.endswith(".rs"):
                try:
                    with open(os.path.join(dp, x), errors="replace") as fh:
                        text.append(fh.read())
                except OSError:
                    pass
    text = "\n".join(text)
    out = []
    # a feature test anywhere but on the module declarations / re-exports of lib.rs and on a `cfg_attr(.., derive(..))`
    stray = False
    for dp, dn, fn in os.walk(src):
        for x in fn:
            if x.endswith(".rs") and x != "lib.rs":
                try:
                    with open(os.path.join(dp, x), errors="replace") as fh:
                        for line in fh:
                            if re.search(r"feature\s*=", line) and not re.search(r"cfg_attr\(\s*feature\s*=\s*\"\w+\"\s*,\s*derive\(", line) and not line.lstrip().startswith("//"):
                                stray = True
                except OSError:
                    pass
    if re.search(r"\bdebug_assertions\b", text):
        out.append("nodebug")
    if stray or re.search(r"not\s*\(\s*feature\b|cfg!\s*\(\s*(not|any|all)?\s*\(?\s*feature\b|not\s*\(\s*(any|all)\s*\(\s*feature\b", text):
        out += [c for c in CONFIGS if c not in ("default", "nodebug")]
    return out


class ExtractionError(Exception):
    pass


def _sha_tree(root, files=("Cargo.toml", "Cargo.lock"), dirs=("src",)):
    h = hashlib.sha256()
    paths = []
    for f in files:
        p = os.path.join(root, f)
        if os.path.exists(p):
            paths.append(p)
    for d in dirs:
        for dp, dn, fn in os.walk(os.path.join(root, d)):
            dn.sort()
            for f in sorted(fn):
                paths.append(os.path.join(dp, f))
    for p in sorted(paths):
        h.update(os.path.relpath(p, root).encode() + b"\0")
        with open(p, "rb") as fh:
            h.update(fh.read())
        h.update(b"\0")
    # the driver itself is part of the key
    for p in (os.path.join(DRIVER_DIR, "src", "main.rs"),):
        with open(p, "rb") as fh:
            h.update(fh.read())
    return h.hexdigest()[:24]


def sysroot():
    return subprocess.check_output(["rustc", "+nightly", "--print", "sysroot"], text=True).strip()


def ensure_driver():
    src = os.path.join(DRIVER_DIR, "src", "main.rs")
    if os.path.exists(DRIVER_BIN) and os.path.getmtime(DRIVER_BIN) >= os.path.getmtime(src):
        return
    os.makedirs(WORK, exist_ok=True)
    with open(os.path.join(WORK, "driver.lock"), "w") as lk:
        fcntl.flock(lk, fcntl.LOCK_EX)
        if os.path.exists(DRIVER_BIN) and os.path.getmtime(DRIVER_BIN) >= os.path.getmtime(src):
            return
        env = dict(os.environ, CARGO_NET_OFFLINE="true")
        r = subprocess.run(["cargo", "build", "--release", "--offline"], cwd=DRIVER_DIR, env=env,
                           stdout=subprocess.PIPE, stderr=subprocess.STDOUT, text=True)
        if r.returncode != 0 or not os.path.exists(DRIVER_BIN):
            raise ExtractionError("driver build failed:\n" + r.stdout[-4000:])


def _save_depcache(target, dcache):
    """keep the dependency artifacts of a finished extraction (everything except the analysed crate's own files)"""
    tmpc = dcache + ".tmp%d" % os.getpid()
    shutil.rmtree(tmpc, ignore_errors=True)
    os.makedirs(tmpc)
    subprocess.run(["cp", "-al", target, os.path.join(tmpc, "target")], check=True, stdout=subprocess.PIPE, stderr=subprocess.STDOUT)
    for dp, dns, fns in os.walk(os.path.join(tmpc, "target")):
        for nm in list(dns):
            if nm.startswith("toodee-") or nm == "incremental":
                shutil.rmtree(os.path.join(dp, nm), ignore_errors=True)
                dns.remove(nm)
        for nm in fns:
            if re.match(r"^(lib)?toodee-", nm):
                os.remove(os.path.join(dp, nm))
    try:
        os.rename(tmpc, dcache)
    except OSError:
        shutil.rmtree(tmpc, ignore_errors=True)      # somebody else saved it first


def extract(config="default", root=None, crate_dir=None):
    """Returns the path of a facts file for the current tree of `root` in `config`."""
    root = root or REPO
    feat, rflags = CONFIGS[config]
    ensure_driver()
    key = _sha_tree(root)
    aroot = os.path.abspath(root)
    tag = "repo" if aroot == "/repo" else "scratch" + hashlib.sha256(aroot.encode()).hexdigest()[:10]
    out = os.path.join(WORK, "facts", "%s-%s-%s.json" % (tag, key, config))
    if os.path.exists(out) and os.path.getsize(out) > 1000:
        return out
    os.makedirs(os.path.dirname(out), exist_ok=True)
    with open(out + ".lock", "w") as lk:
        fcntl.flock(lk, fcntl.LOCK_EX)
        if os.path.exists(out) and os.path.getsize(out) > 1000:
            return out
        tdir = tempfile.mkdtemp(prefix="tgt-", dir=WORK)
        try:
            tmp_out = os.path.join(tdir, "facts.json")
            # dependencies (serde, serde_derive, syn ..) are identical for every tree: seed the fresh target directory with a
            # hard-linked copy of a cache that holds ONLY dependency artifacts (the crate's own fingerprints are never cached,
            # so the wrapper always runs on the crate itself; asserted below by the presence of the facts file)
            dcache = os.path.join(WORK, "depcache-%s" % config)
            if os.path.isdir(os.path.join(dcache, "target")):
                r0 = subprocess.run(["cp", "-al", os.path.join(dcache, "target"), os.path.join(tdir, "target")], stdout=subprocess.PIPE, stderr=subprocess.STDOUT)
                if r0.returncode != 0:
                    shutil.rmtree(os.path.join(tdir, "target"), ignore_errors=True)
            env = dict(os.environ)
            env.update({
                "LD_LIBRARY_PATH": sysroot() + "/lib" + (":" + env["LD_LIBRARY_PATH"] if env.get("LD_LIBRARY_PATH") else ""),
                "RUSTFLAGS": " ".join(["-Zmir-opt-level=0", "-Awarnings"] + rflags),
                "RUSTC_WORKSPACE_WRAPPER": DRIVER_BIN,
                "CARGO_TARGET_DIR": os.path.join(tdir, "target"),
                "FACTS_OUT": tmp_out,
                "CARGO_NET_OFFLINE": "true",
            })
            env.pop("RUSTC_WRAPPER", None)
            cmd = ["cargo", "+nightly", "check", "--offline", "--lib"] + feat
            r = subprocess.run(cmd, cwd=root, env=env, stdout=subprocess.PIPE, stderr=subprocess.STDOUT, text=True)
            if r.returncode != 0:
                raise ExtractionError("cargo check failed for config %s (the tree does not compile?):\n%s" % (config, r.stdout[-6000:]))
            if not os.path.exists(tmp_out):
                raise ExtractionError("driver did not write facts (wrapper skipped?) for config " + config)
            # prune old fact files of this tag/config (keep disk small)
            now = time.time()
            for f in os.listdir(os.path.dirname(out)):
                fp = os.path.join(os.path.dirname(out), f)
                try:
                    stale_same = f.startswith(tag + "-") and f.endswith("-%s.json" % config) and f != os.path.basename(out)
                    stale_scratch = f.startswith("scratch") and now - os.path.getmtime(fp) > 3600
                    if stale_same or stale_scratch:
                        os.remove(fp)
                except OSError:
                    pass
            shutil.move(tmp_out, out)
            if not os.path.isdir(os.path.join(dcache, "target")):
                try:
                    _save_depcache(os.path.join(tdir, "target"), dcache)
                except OSError:
                    shutil.rmtree(dcache, ignore_errors=True)
        finally:
            shutil.rmtree(tdir, ignore_errors=True)
    return out


# ---------------------------------------------------------------------------------------------
_LT = re.compile(r"'(?:[A-Za-z_][A-Za-z0-9_]*|\{erased\}|_)(?:/#\d+)?(?:, | )?")
_PIDX = re.compile(r"/#\d+")


def norm_ty(s):
    """strip lifetimes and parameter indices from a type / path string"""
    if s is None:
        return None
    s = _LT.sub("", s)
    s = _PIDX.sub("", s)
    s = s.replace("<>", "")
    return s


def strip_ref(ty):
    m = re.match(r"^&(?:'\S+ )?(mut )?(.*)$", ty)
    return m.group(2) if m else None


def head(ty):
    """`view::TooDeeView<'a, T>` -> `TooDeeView`; `&mut toodee::TooDee<T>` -> `TooDee`"""
    if ty is None:
        return None
    t = norm_ty(ty)
    pre = ""
    while True:
        m = re.match(r"^&(mut )?(.*)$", t)
        if not m:
            break
        pre += "&mut " if m.group(1) else "&"
        t = m.group(2)
    # strip one trailing balanced generic-argument list, then take the last path segment
    if t.endswith(">"):
        depth = 0
        for i in range(len(t) - 1, -1, -1):
            if t[i] == ">":
                depth += 1
            elif t[i] == "<":
                depth -= 1
                if depth == 0:
                    t = t[:i]
                    break
    depth = 0
    last = 0
    for i, ch in enumerate(t):
        if ch == "<":
            depth += 1
        elif ch == ">":
            depth -= 1
        elif ch == ":" and depth == 0 and t[i:i + 2] == "::":
            last = i + 2
    return pre + t[last:]


class Body:
    def __init__(self, d, facts):
        self.d = d
        self.facts = facts
        self.id = d["id"]
        self.nid = norm_ty(d["id"])
        self.name = d.get("name")
        self.kind = d["kind"]
        self.blocks = d.get("blocks", [])
        self.locals = d.get("locals", [])
        self.arg_count = d.get("arg_count", 0)
        self.impl_self = d.get("impl_self")
        self.impl_trait = d.get("impl_trait")
        self.trait_provided = d.get("trait_provided")
        self.shadow_of = None
        self.ident_suffix = ""
        self.file = d["span"]["file"]
        self.line = d["span"]["lo"]
        self._succ = None
        self._dom = None

    # identity that does not depend on lifetimes / order / line numbers
    @property
    def self_head(self):
        return head(self.impl_self) if self.impl_self else None

    @property
    def trait_head(self):
        if self.impl_trait:
            m = re.match(r"^<.* as (.*)>$", norm_ty(self.impl_trait))
            if m:
                t = re.sub(r"^(?:\w+::)*", "", m.group(1))
                return re.sub(r"<[A-Z]>$", "", t)
        if self.trait_provided:
            return self.trait_provided.split("::")[-1]
        return None

    @property
    def ident(self):
        if self.kind == "Closure":
            par = self.facts.by_id.get(self.d["root"])
            base = par.ident if par is not None else norm_ty(self.d["root"])
            return base + "::" + self.id[len(self.d["root"]):].lstrip(":")
        if self.impl_self:
            if self.impl_trait:
                return "%s as %s::%s%s" % (self.self_head, self.trait_head, self.name, self.ident_suffix)
            return "%s::%s" % (self.self_head, self.name)
        if self.trait_provided:
            return "%s::%s (provided)" % (self.trait_head, self.name)
        return self.nid

    def where(self, span=None):
        sp = span or self.d["span"]
        return "%s:%s" % (sp["file"], sp["lo"])

    # ---- CFG
    def succs(self, bi, unwind=False):
        t = self.blocks[bi]["term"]
        if t is None:
            return []
        k = t["k"]
        out = []
        if k == "goto":
            out = [t["target"]]
        elif k == "switch":
            out = [x[1] for x in t["targets"]] + [t["otherwise"]]
        elif k in ("call", "drop", "assert"):
            if t.get("target") is not None:
                out = [t["target"]]
            if unwind and isinstance(t.get("unwind"), int):
                out.append(t["unwind"])
        return out

    def succ_map(self, unwind=False):
        return [self.succs(i, unwind) for i in range(len(self.blocks))]

    def preds(self, unwind=False):
        p = [[] for _ in self.blocks]
        for i in range(len(self.blocks)):
            for s in self.succs(i, unwind):
                p[s].append(i)
        return p

    def reachable(self, start=0, unwind=False):
        seen, work = set(), [start]
        while work:
            x = work.pop()
            if x in seen:
                continue
            seen.add(x)
            work.extend(self.succs(x, unwind))
        return seen

    def dominators(self, unwind=False):
        """dom[b] = set of blocks dominating b (iterative; bodies are small)"""
        n = len(self.blocks)
        reach = self.reachable(0, unwind)
        preds = self.preds(unwind)
        dom = {b: set(reach) for b in reach}
        dom[0] = {0}
        changed = True
        order = sorted(reach)
        while changed:
            changed = False
            for b in order:
                if b == 0:
                    continue
                ps = [p for p in preds[b] if p in reach]
                new = set.intersection(*[dom[p] for p in ps]) if ps else set()
                new = new | {b}
                if new != dom[b]:
                    dom[b] = new
                    changed = True
        return dom

    def has_loop(self):
        color = {}
        sys.setrecursionlimit(10000)

        def dfs(u):
            color[u] = 1
            for v in self.succs(u):
                if color.get(v) == 1:
                    return True
                if v not in color and dfs(v):
                    return True
            color[u] = 2
            return False
        return dfs(0)

    def calls(self, include_cleanup=False):
        for bi, bl in enumerate(self.blocks):
            if bl["cleanup"] and not include_cleanup:
                continue
            t = bl["term"]
            if t and t["k"] == "call":
                fn = t["func"].get("fn")
                yield bi, t, fn

    def stmts(self):
        for bi, bl in enumerate(self.blocks):
            for si, st in enumerate(bl["stmts"]):
                yield bi, si, st

    def debug_name(self, local):
        for v in self.d.get("debug", []):
            val = v.get("v")
            if isinstance(val, dict) and val.get("local") == local and not val.get("proj"):
                return v["name"]
        return None

    def param_names(self):
        """arg index (1-based local) -> debug name, including tuple-pattern parameters"""
        out = {}
        for v in self.d.get("debug", []):
            if v.get("arg", -1) >= 0 or True:
                val = v.get("v")
                if isinstance(val, dict) and "local" in val and 1 <= val["local"] <= self.arg_count and not val.get("proj"):
                    out.setdefault(val["local"], v["name"])
        return out

    def closures(self):
        return [b for b in self.facts.bodies if b.kind == "Closure" and b.d["root"] == self.id]


class Facts:
    def __init__(self, path, alias=True):
        self.path = path
        self.alias = alias
        with open(path) as fh:
            self.raw = json.load(fh)
        self.bodies = []
        self.by_id = {}
        for d in self.raw["bodies"]:
            b = Body(d, self)
            self.bodies.append(b)
            self.by_id[b.id] = b
        self.fn_bodies = [b for b in self.bodies if b.kind in ("Fn", "AssocFn", "Closure")]
        self.adts = self.raw.get("adts", [])
        self.impls = self.raw.get("impls", [])
        self.items = self.raw.get("items", [])
        self.reachable = set(self.raw.get("reachable", []))
        self.shadows = []
        self.shadow_conflicts = []
        if alias:
            self._alias_shadows()
        self.by_ident = {}
        for b in self.bodies:
            self.by_ident.setdefault(b.ident, []).append(b)

    # An inherent method hides a trait method of the same name at every method-call site (`x.len()`, `a.copy_from_slice(..)`),
    # inside the crate and in caller code alike. Such a method IS the trait method as far as users are concerned, so it is
    # analysed under the trait method's identity (`T as Trait::m`) and every rule that applies to an override applies to it.
    STD_TRAIT_METHODS = {
        "core::iter::Iterator": ("next", "size_hint", "count", "last", "nth", "fold", "try_fold", "for_each", "advance_by", "min", "max",
                                 "sum", "position", "find", "any", "all", "collect", "rev", "skip", "step_by"),
        "core::iter::DoubleEndedIterator": ("next_back", "nth_back", "rfold", "try_rfold", "advance_back_by", "rfind"),
        "core::iter::ExactSizeIterator": ("len", "is_empty"),
        "core::clone::Clone": ("clone", "clone_from"), "core::cmp::PartialEq": ("eq", "ne"), "core::hash::Hash": ("hash",),
        "core::ops::Index": ("index",), "core::ops::IndexMut": ("index_mut",), "core::iter::IntoIterator": ("into_iter",),
        "core::default::Default": ("default",), "core::convert::AsRef": ("as_ref",), "core::convert::AsMut": ("as_mut",)}
    MUT_TRAITS = ("TooDeeOpsMut", "SortOps", "TranslateOps", "CopyOps")

    def _alias_shadows(self):
        crate_tm = {}
        for b in self.bodies:
            if b.kind != "Closure" and (b.impl_trait or b.trait_provided):
                th = b.trait_head
                if th in ("TooDeeOps",) + self.MUT_TRAITS:
                    crate_tm.setdefault(th, set()).add(b.name)
        implemented = {}
        for im in self.impls:
            tp = im.get("trait_path")
            if tp:
                implemented.setdefault(head(im.get("self") or ""), set()).add(re.sub(r"<.*$", "", tp))
        for b in self.bodies:
            if b.kind == "Closure" or not b.impl_self or b.impl_trait:
                continue
            T = b.self_head
            hit = None
            if T in ("TooDee", "TooDeeView", "TooDeeViewMut"):
                for tr in ("TooDeeOps",) + (self.MUT_TRAITS if T != "TooDeeView" else ()):
                    if b.name in crate_tm.get(tr, ()):
                        hit = tr
                        break
            if hit is None:
                for tp in sorted(implemented.get(T, ())):
                    if b.name in self.STD_TRAIT_METHODS.get(tp, ()):
                        hit = tp
                        break
            if hit is None:
                continue
            b.shadow_of = hit
            b.impl_trait = "<%s as %s>" % (b.impl_self, hit)
            self.shadows.append(b)
        # the type may have a real impl of the very trait method as well (still reached through UFCS and generic code): in this
        # view the real one steps aside under a marked identity, and the check also runs on the un-aliased view (see `views`)
        for b in self.shadows:
            for o in self.bodies:
                if o is not b and o.kind != "Closure" and o.shadow_of is None and o.impl_trait and o.self_head == b.self_head and o.name == b.name and o.trait_head == b.trait_head:
                    o.ident_suffix = " (trait impl; hidden by an inherent method at method-call sites)"
                    self.shadow_conflicts.append((b, o))

    def views(self):
        """the fact views a check must run on: this one, plus the un-aliased one when an inherent method hides a trait method
        that the type ALSO implements itself (then both bodies are live: `x.m()` and `Trait::m(&x)` / generic code)"""
        if self.alias and self.shadow_conflicts:
            g = Facts(self.path, alias=False)
            for k in ("root", "config"):
                if hasattr(self, k):
                    setattr(g, k, getattr(self, k))
            return [self, g]
        return [self]

    def find(self, self_head=None, trait_head=None, name=None, kind=None):
        out = []
        for b in self.bodies:
            if kind and b.kind != kind:
                continue
            if name is not None and b.name != name:
                continue
            if self_head is not None and b.self_head != self_head:
                continue
            if trait_head is not None:
                th = b.trait_head
                if th is None or not (th == trait_head or th.split("<")[0] == trait_head):
                    continue
            out.append(b)
        return out

    def get(self, ident):
        l = self.by_ident.get(ident, [])
        return l[0] if len(l) == 1 else None

    def crate_fn_for_call(self, fn):
        """Body of the crate function a call resolves to (through `resolved` when the driver
        could devirtualise), else None."""
        if fn is None:
            return None
        for key in ("resolved", "path"):
            p = fn.get(key)
            if p and p in self.by_id:
                return self.by_id[p]
        return None


def is_caller_code(fn):
    """A call is caller code when it is a trait method whose Self is a type parameter / projection /
    opaque type, or a closure parameter invoked through Fn*::call*."""
    if fn is None:
        return True          # indirect call through a value
    if fn.get("resolved"):
        return False
    if fn.get("trait"):
        st = fn.get("self_ty", "")
        if fn.get("self_is_param"):
            return True
        if re.match(r"^(impl |\{closure|Alias\()", st) or st.startswith("<"):
            return True
        # &mut I / &mut impl FnMut ...
        inner = st
        while strip_ref(inner) is not None:
            inner = strip_ref(inner)
        if re.match(r"^[A-Z][A-Za-z0-9]*(/#\d+)?$", inner) and "::" not in inner and fn["trait"].startswith("core::"):
            return True
    return False


def load(config="default", root=None):
    p = extract(config, root)
    f = Facts(p)
    f.root = os.path.abspath(root or REPO)
    f.config = config
    n = len(f.fn_bodies)
    return f
