"""R-ENCAPS (DESIGN 3.1): who can reach the shape state.  (a) field visibility, (b) no exported signature /
trait impl hands out `&mut Vec<T>`, (c) no `&mut` borrow of TooDee::data escapes a function as a Vec
reference, (e) no Clone/Copy for the mutable view, trait-impl table for the drains."""
import re
from .core import Result, AnchorMissing
from .facts import norm_ty, head
from .dfx import Dfx, strip, walk

PRIVATE_ADTS = ("TooDee", "TooDeeView", "TooDeeViewMut", "DrainCol", "FlattenExact")
CRATE_ADTS = ("Rows", "RowsMut", "Col", "ColMut")


def r_encaps(f):
    R = Result("R-ENCAPS")
    n = 0
    seen = set()
    for a in f.adts:
        nm = a["id"].split("::")[-1]
        if nm in PRIVATE_ADTS or nm in CRATE_ADTS:
            seen.add(nm)
            for fl in a["fields"]:
                n += 1
                vis = fl["vis"]
                if nm in PRIVATE_ADTS:
                    ok = vis.startswith("Restricted") and not vis.endswith("~ %s[%s]))" % (f.raw["crate"], "")) and "::" in vis.split("~")[-1]
                    # Restricted(DefId(0:0 ~ toodee[..])) is the crate root = pub(crate): too wide for the array types
                    crate_wide = re.search(r"DefId\(0:0 ", vis) is not None
                    ok = vis.startswith("Restricted") and not crate_wide
                    want = "private to its module"
                else:
                    ok = vis.startswith("Restricted")
                    want = "at most crate-visible"
                R.inst(nm, "field %s.%s is %s (%s)" % (nm, fl["name"], want, vis.split("~")[-1].rstrip(")") if "~" in vis else vis), ok)
                if not ok:
                    R.fail(nm, "field-vis:%s" % fl["name"], "field %s.%s has visibility %s; it must be %s, otherwise code outside the module can break the shape invariant without any method call" % (nm, fl["name"], vis, want), "%s:%s" % (a["span"]["file"], a["span"]["lo"]))
    missing = [x for x in PRIVATE_ADTS + CRATE_ADTS if x not in seen]
    if missing:
        raise AnchorMissing("types %s" % missing)
    # (b) signatures
    bad_sig = re.compile(r"&(?:'\S+ )?mut alloc::vec::Vec<")
    ns = 0
    for it in f.items:
        fl = it["span"]["file"].replace("\\", "/")
        if "/tests" in fl:
            continue
        exported = it["vis"] == "Public" or it.get("trait") or it.get("impl_trait")
        if not exported:
            continue
        ns += 1
        sig = it["sig"]
        if bad_sig.search(sig):
            R.fail(norm_ty(it["id"]), "sig:&mut Vec", "%s has `&mut Vec<..>` in its signature (%s): a caller can change the buffer's length behind the array's back" % (norm_ty(it["id"]), norm_ty(sig)[:160]), "%s:%s" % (it["span"]["file"], it["span"]["lo"]))
    n += 1
    R.inst("<api>", "%d exported signatures scanned: none mentions `&mut Vec<T>`" % ns, not any(x.desc == "sig:&mut Vec" for x in R.findings))
    # impl table: conversions that would expose the Vec mutably; Clone/Copy on the mutable view
    for im in f.impls:
        sh = head(im["self"])
        tp = norm_ty(im.get("trait") or "")
        if sh in ("TooDee", "&mut TooDee") and re.search(r"(DerefMut|BorrowMut<alloc::vec::Vec|AsMut<alloc::vec::Vec)", tp):
            R.fail("TooDee", "impl:%s" % tp.split(" as ")[-1].rstrip(">"), "impl %s gives mutable access to the backing Vec" % tp, "%s:%s" % (im["span"]["file"], im["span"]["lo"]))
        if sh in ("TooDee",) and re.search(r" as core::ops::Deref>", tp):
            pass
        if sh == "TooDeeViewMut" and re.search(r" as core::(clone::Clone|marker::Copy)>", tp):
            R.fail("TooDeeViewMut", "impl:Clone", "TooDeeViewMut implements %s: two mutable views of the same cells could coexist" % tp, "%s:%s" % (im["span"]["file"], im["span"]["lo"]))
        if sh in ("RowsMut", "ColMut") and re.search(r" as core::(clone::Clone|marker::Copy)>", tp):
            R.fail(sh, "impl:Clone", "%s implements %s: its items would alias" % (sh, tp), "%s:%s" % (im["span"]["file"], im["span"]["lo"]))
    n += 1
    R.inst("<impls>", "%d impls scanned: no DerefMut/BorrowMut/AsMut<Vec> for TooDee, no Clone/Copy for TooDeeViewMut/RowsMut/ColMut" % len(f.impls), not any(x.desc.startswith("impl:") for x in R.findings))
    # the drains implement the three iterator traits
    for ty in ("DrainCol",):
        have = {norm_ty(im.get("trait_path") or "").split("::")[-1] for im in f.impls if head(im["self"]) == ty}
        n += 1
        need = {"Iterator", "DoubleEndedIterator", "ExactSizeIterator", "Drop"}
        ok = need <= have
        R.inst(ty, "implements %s" % sorted(need), ok)
        if not ok:
            R.fail(ty, "traits:%s" % ",".join(sorted(need - have)), "%s no longer implements %s" % (ty, sorted(need - have)), None)
    # (c) a `&mut` borrow of the data field never becomes the function's result as a Vec reference
    td = [a for a in f.adts if a["id"].split("::")[-1] == "TooDee"][0]
    di = [x["name"] for x in td["fields"]].index("data")
    nb = 0
    for b in f.fn_bodies:
        if not b.locals:
            continue
        rt = norm_ty(b.locals[0])
        if "alloc::vec::Vec<" in rt and "&mut" in rt:
            nb += 1
            R.fail(b.ident, "ret:&mut Vec", "%s returns %s" % (b.ident, rt), b.where())
    n += 1
    R.inst("<mir>", "no body returns a `&mut Vec`", nb == 0)
    R.require_floor(n, 25, "fields / scans")
    R.require_floor(ns, 100, "exported signatures")
    return R, n
