"""R-ENCAPS (DESIGN 3.1): who can reach the shape state.  (a) field visibility, (b) no exported signature /
trait impl hands out `&mut Vec<T>`, (c) no `&mut` borrow of TooDee::data escapes a function as a Vec
reference, (e) no Clone/Copy for the mutable view, trait-impl table for the drains."""
import re
from .core import Result, AnchorMissing
from .facts import norm_ty, head
from .dfx import Dfx, strip, walk

PRIVATE_ADTS = ("TooDee", "TooDeeView", "TooDeeViewMut", "DrainCol", "FlattenExact")
CRATE_ADTS = ("Rows", "RowsMut", "Col", "ColMut")


def r_encaps(f):
    R = Result("R-ENCAPS")
    n = 0
    seen = set()
    for a in f.adts:
        nm = a["id"].split("::")[-1]
        if nm in PRIVATE_ADTS or nm in CRATE_ADTS:
            seen.add(nm)
            for fl in a["fields"]:
                n += 1
                vis = fl["vis"]
                if nm in PRIVATE_ADTS:
                    ok = vis.startswith("Restricted") and not vis.endswith("~ %s[%s]))" % (f.raw["crate"], "")) and "::" in vis.split("~")[-1]
                    # Restricted(DefId(0:0 ~ toodee[..])) is the crate root = pub(crate): too wide for the array types
                    crate_wide = re.search(r"DefId\(0:0 ", vis) is not None
                    ok = vis.startswith("Restricted") and not crate_wide
                    want = "private to its module"
                else:
                    ok = vis.startswith("Restricted")
                    want = "at most crate-visible"
                R.inst(nm, "field %s.%s is %s (%s)" % (nm, fl["name"], want, vis.split("~")[-1].rstrip(")") if "~" in vis else vis), ok)
                if not ok:
                    R.fail(nm, "field-vis:%s" % fl["name"], "field %s.%s has visibility %s; it must be %s, otherwise code outside the module can break the shape invariant without any method call" % (nm, fl["name"], vis, want), "%s:%s" % (a["span"]["file"], a["span"]["lo"]))
    missing = [x for x in PRIVATE_ADTS + CRATE_ADTS if x not in seen]
    if missing:
        raise AnchorMissing("types %s" % missing)
    # (b) signatures
    bad_sig = re.compile(r"&(?:'\S+ )?mut alloc::vec::Vec<")
    ns = 0
    for it in f.items:
        fl = it["span"]["file"].replace("\\", "/")
        if "/tests" in fl:
            continue
        exported = it["vis"] == "Public" or it.get("trait") or it.get("impl_trait")
        if not exported:
            continue
        ns += 1
        sig = it["sig"]
        if bad_sig.search(sig):
            R.fail(norm_ty(it["id"]), "sig:&mut Vec", "%s has `&mut Vec<..>` in its signature (%s): a caller can change the buffer's length behind the array's back" % (norm_ty(it["id"]), norm_ty(sig)[:160]), "%s:%s" % (it["span"]["file"], it["span"]["lo"]))
    n += 1
    R.inst("<api>", "%d exported signatures scanned: none mentions `&mut Vec<T>`" % ns, not any(x.desc == "sig:&mut Vec" for x in R.findings))
    # impl table: conversions that would expose the Vec mutably; Clone/Copy on the mutable view
    for im in f.impls:
        sh = head(im["self"])
        tp = norm_ty(im.get("trait") or "")
        if sh in ("TooDee", "&mut TooDee") and re.search(r"(DerefMut|BorrowMut<alloc::vec::Vec|AsMut<alloc::vec::Vec)", tp):
            R.fail("TooDee", "impl:%s" % tp.split(" as ")[-1].rstrip(">"), "impl %s gives mutable access to the backing Vec" % tp, "%s:%s" % (im["span"]["file"], im["span"]["lo"]))
        if sh in ("TooDee",) and re.search(r" as core::ops::Deref>", tp):
            pass
        if sh == "TooDeeViewMut" and re.search(r" as core::(clone::Clone|marker::Copy)>", tp):
            R.fail("TooDeeViewMut", "impl:Clone", "TooDeeViewMut implements %s: two mutable views of the same cells could coexist" % tp, "%s:%s" % (im["span"]["file"], im["span"]["lo"]))
        if sh in ("RowsMut", "ColMut") and re.search(r" as core::(clone::Clone|marker::Copy)>", tp):
            R.fail(sh, "impl:Clone", "%s implements %s: its items would alias" % (sh, tp), "%s:%s" % (im["span"]["file"], im["span"]["lo"]))
        if sh == "DrainCol" and re.search(r" as core::(clone::Clone|marker::Copy)>", tp):
            R.fail("DrainCol", "impl:Clone", "DrainCol implements %s: a drain OWNS the cells of the removed column (it reads them out bitwise and closes the gap when dropped), so a copy yields every cell a second time and compacts the buffer twice" % tp, "%s:%s" % (im["span"]["file"], im["span"]["lo"]))
    n += 1
    R.inst("DrainCol <impls>", "the column drain is not Clone / Copy", not any(x.fn == "DrainCol" and x.desc == "impl:Clone" for x in R.findings))
    n += 1
    R.inst("<impls>", "%d impls scanned: no DerefMut/BorrowMut/AsMut<Vec> for TooDee, no Clone/Copy for TooDeeViewMut/RowsMut/ColMut" % len(f.impls), not any(x.desc.startswith("impl:") for x in R.findings))
    # the drains implement the three iterator traits
    for ty in ("DrainCol",):
        have = {norm_ty(im.get("trait_path") or "").split("::")[-1] for im in f.impls if head(im["self"]) == ty}
        n += 1
        need = {"Iterator", "DoubleEndedIterator", "ExactSizeIterator", "Drop"}
        ok = need <= have
        R.inst(ty, "implements %s" % sorted(need), ok)
        if not ok:
            R.fail(ty, "traits:%s" % ",".join(sorted(need - have)), "%s no longer implements %s" % (ty, sorted(need - have)), None)
    # (c) a `&mut` borrow of the data field never becomes the function's result as a Vec reference
    td = [a for a in f.adts if a["id"].split("::")[-1] == "TooDee"][0]
    di = [x["name"] for x in td["fields"]].index("data")
    nb = 0
    for b in f.fn_bodies:
        if not b.locals:
            continue
        rt = norm_ty(b.locals[0])
        if "alloc::vec::Vec<" in rt and "&mut" in rt:
            nb += 1
            R.fail(b.ident, "ret:&mut Vec", "%s returns %s" % (b.ident, rt), b.where())
    n += 1
    R.inst("<mir>", "no body returns a `&mut Vec`", nb == 0)
    # (f) the raw span of a cursor (`Rows.v`, `RowsMut.v`, `Col.v`, `ColMut.v`) contains the gap cells between the rows / column
    # cells of a strided view, i.e. cells OUTSIDE the view.  Only the cursor's own methods may read or write through it; any other
    # function may at most ask for its length.
    nspan = 0
    span_bad = set()
    for b in f.fn_bodies:
        root = b
        k = 0
        while root is not None and root.kind == "Closure" and k < 8:
            root = f.by_id.get(root.d.get("root")); k += 1
        if root is None or root.self_head in CRATE_ADTS:
            continue
        for finding in _span_escapes(f, b):
            nspan += 1
            span_bad.add(finding[0])
            R.fail("%s (raw span used by %s)" % (finding[0], root.ident), "cursor-span:%s.%s" % finding[:2], "%s reaches into the raw span `%s.%s` of a cursor it did not define: that slice includes the cells between the view's rows (cells outside the view), so reading or writing it as a whole bypasses the stride (%s)" % (root.ident, finding[0], finding[1], finding[2]), b.where(finding[3]))
    for ct in CRATE_ADTS:
        n += 1
        R.inst("%s <raw span>" % ct, "no function outside the impls of %s uses its raw span `v` for anything but its length" % ct, ct not in span_bad)
    R.require_floor(n, 30, "fields / scans")
    R.require_floor(ns, 100, "exported signatures")
    return R, n


def _span_escapes(f, b):
    from .rules_cursor import _places
    fields = {a["id"].split("::")[-1]: [x["name"] for x in a["fields"]] for a in f.adts if a["id"].split("::")[-1] in CRATE_ADTS}
    out = []
    hits = []      # (block, stmt index or None, place)
    for bi, bl in enumerate(b.blocks):
        units = [(si, st) for si, st in enumerate(bl["stmts"])] + [(None, bl["term"])]
        for si, u in units:
            for pl in _places(u):
                ty = b.locals[pl["local"]] if pl["local"] < len(b.locals) else None
                ty = ty if isinstance(ty, str) else (ty or {}).get("ty")
                for pe in pl["proj"]:
                    if pe["k"] == "field" and ty:
                        h = re.sub(r"^(&mut |&)+", "", head(ty) or "")
                        if h in fields and pe.get("i") is not None and pe["i"] < len(fields[h]) and fields[h][pe["i"]] == "v":
                            hits.append((bi, si, u, h))
                        ty = pe.get("ty")
                    elif pe["k"] != "deref":
                        ty = None
    # a cursor whose gap is known to be zero on this path (`rows.skip_cols == 0`) has no cells between its rows: its span IS its rows
    dom_ = b.dominators() if hits else {}
    dgap = Dfx(b) if hits else None
    gapless = set()
    for sb, bl in enumerate(b.blocks if hits else []):
        tt = bl["term"]
        if not tt or tt["k"] != "switch" or bl["cleanup"]:
            continue
        e = strip(dgap.expr(tt["discr"]))
        neg = False
        while e[0] == "un" and e[1] == "Not":
            neg = not neg; e = strip(e[2])
        if e[0] != "bin" or e[1] not in ("Eq", "Ne"):
            continue
        l_, r_ = strip(e[2]), strip(e[3])
        fld = l_ if l_[0] == "field" else (r_ if r_[0] == "field" else None)
        zero = any(x[0] == "const" and re.match(r"^(const )?0_usize$", str(x[1])) for x in (l_, r_))
        if fld is None or not zero:
            continue
        is_gap = any(fld[2] < len(fl) and fl[fld[2]] in ("skip_cols", "skip") for fl in fields.values())
        if not is_gap:
            continue
        tm = [(int(a_), b2) for a_, b2 in tt["targets"]]
        for v_, sx in tm + [(None, tt["otherwise"])]:
            if v_ is not None and v_ not in (0, 1):
                continue
            truth = (v_ == 1) or (v_ is None and any(x == 0 for x, _ in tm))
            if neg:
                truth = not truth
            if (e[1] == "Eq") == truth:
                gapless.add(sx)
    for bi, si, u, h in hits:
        if any(g_ == bi or g_ in dom_.get(bi, set()) for g_ in gapless):
            continue
        why, span = None, None
        if si is None:
            fn = (u.get("func") or {}).get("fn") if u.get("k") == "call" else None
            if not (fn and fn.get("name") in ("len", "is_empty")):
                why, span = "passed to %s" % ((fn or {}).get("name") or u.get("k")), u.get("span")
        else:
            st = u
            if st["k"] == "assign" and not st["p"]["proj"]:
                rv = st["rv"]
                if rv["k"] in ("len", "ptr_metadata") or (rv["k"] == "unary" and rv.get("op") == "PtrMetadata"):
                    continue
                tmp = st["p"]["local"]
                uses = _uses_of(b, tmp, (bi, si))
                bad = [x for x in uses if x not in ("len", "is_empty", "PtrMetadata")]
                if bad:
                    why, span = "then used by %s" % ", ".join(sorted(set(bad))), st.get("span")
            else:
                why, span = "stored", st.get("span")
        if why:
            out.append((h, "v", why, span))
    return out


def _uses_of(b, loc, skip, depth=0):
    """how a temporary holding (a reference to / copy of) the span is used: names of the calls it is passed to, `PtrMetadata`, or
    `other`; reborrows and moves into further temporaries are followed"""
    from .rules_cursor import _places
    out = []
    for bi, bl in enumerate(b.blocks):
        for si, st in enumerate(bl["stmts"]):
            if (bi, si) == skip or st["k"] != "assign":
                continue
            if not any(pl["local"] == loc for pl in _places(st["rv"])):
                continue
            rv = st["rv"]
            if rv["k"] in ("len", "ptr_metadata") or (rv["k"] == "unary" and rv.get("op") == "PtrMetadata"):
                out.append("PtrMetadata")
            elif rv["k"] in ("use", "ref", "rawptr", "cast") and not st["p"]["proj"] and depth < 6:
                out.extend(_uses_of(b, st["p"]["local"], (bi, si), depth + 1))
            else:
                out.append("other")
        t = bl["term"]
        if t and any(pl["local"] == loc for pl in _places({k: v for k, v in t.items() if k not in ("dest", "func")} if t["k"] == "call" else t)):
            if t["k"] == "call":
                out.append(((t.get("func") or {}).get("fn") or {}).get("name") or "indirect call")
            elif t["k"] != "drop":
                out.append(t["k"])
    return out
