#![feature(rustc_private)]
extern crate rustc_driver;
extern crate rustc_interface;
extern crate rustc_middle;
extern crate rustc_hir;
extern crate rustc_span;
extern crate rustc_abi;
extern crate rustc_lint;
extern crate rustc_session;

use rustc_driver::Compilation;
use rustc_interface::interface::Compiler;
use rustc_middle::ty::{self, TyCtxt, Ty};
use rustc_middle::mir::*;
use rustc_hir::def::DefKind;
use rustc_hir::def_id::DefId;
use rustc_span::Span;
use std::fmt::Write as _;

fn esc(s: &str) -> String {
    let mut o = String::with_capacity(s.len() + 2);
    o.push('"');
    for c in s.chars() {
        match c {
            '"' => o.push_str("\\\""),
            '\\' => o.push_str("\\\\"),
            '\n' => o.push_str("\\n"),
            '\r' => o.push_str("\\r"),
            '\t' => o.push_str("\\t"),
            c if (c as u32) < 0x20 => { let _ = write!(o, "\\u{:04x}", c as u32); }
            c => o.push(c),
        }
    }
    o.push('"');
    o
}

struct Cx<'tcx> { tcx: TyCtxt<'tcx>, cur: Option<DefId> }

impl<'tcx> Cx<'tcx> {
    fn span(&self, sp: Span) -> String {
        let sm = self.tcx.sess.source_map();
        let lo = sm.lookup_char_pos(sp.lo());
        let hi = sm.lookup_char_pos(sp.hi());
        format!("{{\"file\":{},\"lo\":{},\"hi\":{},\"col\":{},\"exp\":{}}}",
            esc(&format!("{}", lo.file.name.prefer_local_unconditionally())), lo.line, hi.line, lo.col.0 + 1, sp.from_expansion())
    }
    fn ty(&self, t: Ty<'tcx>) -> String { esc(&format!("{:?}", t)) }
    fn place(&self, p: &Place<'tcx>) -> String {
        let mut s = format!("{{\"local\":{},\"proj\":[", p.local.as_usize());
        for (i, e) in p.projection.iter().enumerate() {
            if i > 0 { s.push(','); }
            match e {
                ProjectionElem::Deref => s.push_str("{\"k\":\"deref\"}"),
                ProjectionElem::Field(f, t) => { let _ = write!(s, "{{\"k\":\"field\",\"i\":{},\"ty\":{}}}", f.as_usize(), self.ty(t)); }
                ProjectionElem::Index(l) => { let _ = write!(s, "{{\"k\":\"index\",\"local\":{}}}", l.as_usize()); }
                ProjectionElem::Downcast(n, v) => { let _ = write!(s, "{{\"k\":\"downcast\",\"variant\":{},\"name\":{}}}", v.as_usize(), esc(&n.map(|x| x.to_string()).unwrap_or_default())); }
                other => { let _ = write!(s, "{{\"k\":\"other\",\"dbg\":{}}}", esc(&format!("{:?}", other))); }
            }
        }
        s.push_str("]}");
        s
    }
    fn fn_def(&self, t: Ty<'tcx>) -> Option<String> {
        if let ty::FnDef(d, args) = t.kind() {
            let mut s = format!("{{\"path\":{},\"krate\":{},\"args\":[", esc(&self.tcx.def_path_str(*d)), esc(self.tcx.crate_name(d.krate).as_str()));
            for (i, a) in args.iter().enumerate() { if i > 0 { s.push(','); } s.push_str(&esc(&format!("{:?}", a))); }
            s.push_str("]");
            // trait method info
            if let Some(assoc) = self.tcx.opt_associated_item(*d) {
                if let Some(tr) = assoc.trait_container(self.tcx) {
                    let _ = write!(s, ",\"trait\":{}", esc(&self.tcx.def_path_str(tr)));
                    if let Some(st) = args.types().next() {
                        let _ = write!(s, ",\"self_ty\":{},\"self_is_param\":{}", self.ty(st), matches!(st.kind(), ty::Param(_) | ty::Alias(..)));
                    }
                } else if let Some(im) = assoc.impl_container(self.tcx) {
                    let st = self.tcx.type_of(im).instantiate_identity().skip_norm_wip();
                    let _ = write!(s, ",\"impl_self\":{}", self.ty(st));
                }
            }
            let _ = write!(s, ",\"name\":{}", esc(self.tcx.item_name(*d).as_str()));
            if let Some(owner) = self.cur {
                let env = ty::TypingEnv::post_analysis(self.tcx, owner);
                if let Ok(Some(inst)) = ty::Instance::try_resolve(self.tcx, env, *d, args) {
                    let rd = inst.def_id();
                    if rd != *d {
                        let _ = write!(s, ",\"resolved\":{},\"resolved_krate\":{}", esc(&self.tcx.def_path_str(rd)), esc(self.tcx.crate_name(rd.krate).as_str()));
                    }
                }
            }
            s.push('}');
            Some(s)
        } else { None }
    }
    fn operand(&self, o: &Operand<'tcx>) -> String {
        match o {
            Operand::Copy(p) => format!("{{\"k\":\"copy\",\"p\":{}}}", self.place(p)),
            Operand::Move(p) => format!("{{\"k\":\"move\",\"p\":{}}}", self.place(p)),
            Operand::Constant(c) => {
                let t = c.const_.ty();
                let f = self.fn_def(t);
                let mut s = format!("{{\"k\":\"const\",\"ty\":{},\"val\":{}", self.ty(t), esc(&format!("{}", c.const_)));
                if let Some(f) = f { let _ = write!(s, ",\"fn\":{}", f); }
                s.push('}');
                s
            }
            #[allow(unreachable_patterns)]
            other => format!("{{\"k\":\"other\",\"dbg\":{}}}", esc(&format!("{:?}", other))),
        }
    }
    fn rvalue(&self, r: &Rvalue<'tcx>) -> String {
        match r {
            Rvalue::Use(o, ..) => format!("{{\"k\":\"use\",\"o\":{}}}", self.operand(o)),
            Rvalue::Ref(_, bk, p) => format!("{{\"k\":\"ref\",\"mut\":{},\"p\":{}}}", matches!(bk, BorrowKind::Mut { .. }), self.place(p)),
            Rvalue::RawPtr(k, p) => format!("{{\"k\":\"rawptr\",\"kind\":{},\"p\":{}}}", esc(&format!("{:?}", k)), self.place(p)),
            Rvalue::BinaryOp(op, b) => format!("{{\"k\":\"binop\",\"op\":{},\"l\":{},\"r\":{}}}", esc(&format!("{:?}", op)), self.operand(&b.0), self.operand(&b.1)),
            Rvalue::UnaryOp(op, o) => format!("{{\"k\":\"unop\",\"op\":{},\"o\":{}}}", esc(&format!("{:?}", op)), self.operand(o)),
            Rvalue::Cast(k, o, t) => format!("{{\"k\":\"cast\",\"kind\":{},\"o\":{},\"ty\":{}}}", esc(&format!("{:?}", k)), self.operand(o), self.ty(*t)),
            Rvalue::Discriminant(p) => format!("{{\"k\":\"discr\",\"p\":{}}}", self.place(p)),
            Rvalue::Aggregate(k, fields) => {
                let mut s = String::from("{\"k\":\"agg\",");
                match &**k {
                    AggregateKind::Tuple => s.push_str("\"agg\":\"tuple\""),
                    AggregateKind::Array(_) => s.push_str("\"agg\":\"array\""),
                    AggregateKind::Adt(d, v, _, _, _) => {
                        let adt = self.tcx.adt_def(*d);
                        let var = adt.variant(*v);
                        let _ = write!(s, "\"agg\":\"adt\",\"adt\":{},\"variant\":{},\"fields_names\":[", esc(&self.tcx.def_path_str(*d)), esc(var.name.as_str()));
                        for (i, f) in var.fields.iter().enumerate() { if i > 0 { s.push(','); } s.push_str(&esc(f.name.as_str())); }
                        s.push(']');
                    }
                    AggregateKind::Closure(d, _) => { let _ = write!(s, "\"agg\":\"closure\",\"def\":{}", esc(&self.tcx.def_path_str(*d))); }
                    other => { let _ = write!(s, "\"agg\":\"other\",\"dbg\":{}", esc(&format!("{:?}", other))); }
                }
                s.push_str(",\"fields\":[");
                for (i, f) in fields.iter().enumerate() { if i > 0 { s.push(','); } s.push_str(&self.operand(f)); }
                s.push_str("]}");
                s
            }
            other => format!("{{\"k\":\"other\",\"dbg\":{}}}", esc(&format!("{:?}", other))),
        }
    }
    fn unwind(&self, u: &UnwindAction) -> String {
        match u {
            UnwindAction::Continue => "\"continue\"".into(),
            UnwindAction::Unreachable => "\"unreachable\"".into(),
            UnwindAction::Terminate(_) => "\"terminate\"".into(),
            UnwindAction::Cleanup(b) => format!("{}", b.as_usize()),
        }
    }
    fn term(&self, body: &Body<'tcx>, t: &Terminator<'tcx>) -> String {
        let sp = self.span(t.source_info.span);
        match &t.kind {
            TerminatorKind::Goto { target } => format!("{{\"k\":\"goto\",\"target\":{}}}", target.as_usize()),
            TerminatorKind::SwitchInt { discr, targets } => {
                let mut s = format!("{{\"k\":\"switch\",\"discr\":{},\"targets\":[", self.operand(discr));
                for (i, (v, b)) in targets.iter().enumerate() { if i > 0 { s.push(','); } let _ = write!(s, "[{},{}]", esc(&v.to_string()), b.as_usize()); }
                let _ = write!(s, "],\"otherwise\":{},\"span\":{}}}", targets.otherwise().as_usize(), sp);
                s
            }
            TerminatorKind::Return => "{\"k\":\"return\"}".into(),
            TerminatorKind::Unreachable => "{\"k\":\"unreachable\"}".into(),
            TerminatorKind::UnwindResume => "{\"k\":\"resume\"}".into(),
            TerminatorKind::UnwindTerminate(_) => "{\"k\":\"terminate\"}".into(),
            TerminatorKind::Drop { place, target, unwind, .. } => {
                let ty = place.ty(&body.local_decls, self.tcx).ty;
                format!("{{\"k\":\"drop\",\"p\":{},\"ty\":{},\"target\":{},\"unwind\":{},\"span\":{}}}", self.place(place), self.ty(ty), target.as_usize(), self.unwind(unwind), sp)
            }
            TerminatorKind::Call { func, args, destination, target, unwind, .. } => {
                let mut s = format!("{{\"k\":\"call\",\"func\":{},\"args\":[", self.operand(func));
                for (i, a) in args.iter().enumerate() { if i > 0 { s.push(','); } s.push_str(&self.operand(&a.node)); }
                let _ = write!(s, "],\"dest\":{},\"target\":{},\"unwind\":{},\"span\":{}}}", self.place(destination),
                    target.map(|b| b.as_usize().to_string()).unwrap_or("null".into()), self.unwind(unwind), sp);
                s
            }
            TerminatorKind::Assert { cond, expected, msg, target, unwind } => {
                let kind = match &**msg {
                    AssertKind::Overflow(op, ..) => format!("Overflow({:?})", op),
                    AssertKind::BoundsCheck { .. } => "BoundsCheck".into(),
                    AssertKind::DivisionByZero(_) => "DivisionByZero".into(),
                    AssertKind::RemainderByZero(_) => "RemainderByZero".into(),
                    AssertKind::OverflowNeg(_) => "OverflowNeg".into(),
                    _ => "Other".into(),
                };
                format!("{{\"k\":\"assert\",\"cond\":{},\"expected\":{},\"kind\":{},\"target\":{},\"unwind\":{},\"span\":{}}}", self.operand(cond), expected, esc(&kind), target.as_usize(), self.unwind(unwind), sp)
            }
            other => format!("{{\"k\":\"other\",\"dbg\":{}}}", esc(&format!("{:?}", other))),
        }
    }
    fn mir_body(&self, body: &Body<'tcx>, s: &mut String) {
        let _ = write!(s, ",\"arg_count\":{},\"locals\":[", body.arg_count);
        for (i, d) in body.local_decls.iter().enumerate() { if i > 0 { s.push(','); } s.push_str(&self.ty(d.ty)); }
        s.push_str("],\"debug\":[");
        for (i, v) in body.var_debug_info.iter().enumerate() {
            if i > 0 { s.push(','); }
            let val = match &v.value { VarDebugInfoContents::Place(p) => self.place(p), VarDebugInfoContents::Const(c) => format!("{{\"const\":{}}}", esc(&format!("{}", c.const_))) };
            let _ = write!(s, "{{\"name\":{},\"v\":{},\"arg\":{}}}", esc(v.name.as_str()), val, v.argument_index.map(|x| x as i64).unwrap_or(-1));
        }
        s.push_str("],\"blocks\":[");
        for (bi, (_bb, data)) in body.basic_blocks.iter_enumerated().enumerate() {
            if bi > 0 { s.push(','); }
            let _ = write!(s, "{{\"cleanup\":{},\"stmts\":[", data.is_cleanup);
            let mut first = true;
            for st in &data.statements {
                let js = match &st.kind {
                    StatementKind::Assign(b) => Some(format!("{{\"k\":\"assign\",\"p\":{},\"rv\":{},\"span\":{}}}", self.place(&b.0), self.rvalue(&b.1), self.span(st.source_info.span))),
                    StatementKind::SetDiscriminant { place, variant_index } => Some(format!("{{\"k\":\"setdiscr\",\"p\":{},\"variant\":{}}}", self.place(place), variant_index.as_usize())),
                    StatementKind::StorageLive(_) | StatementKind::StorageDead(_) | StatementKind::Nop | StatementKind::FakeRead(..) | StatementKind::AscribeUserType(..) | StatementKind::Coverage(..) | StatementKind::PlaceMention(..) | StatementKind::ConstEvalCounter | StatementKind::BackwardIncompatibleDropHint { .. } => None,
                    other => Some(format!("{{\"k\":\"other\",\"dbg\":{}}}", esc(&format!("{:?}", other)))),
                };
                if let Some(js) = js { if !first { s.push(','); } first = false; s.push_str(&js); }
            }
            let _ = write!(s, "],\"term\":{}}}", data.terminator.as_ref().map(|t| self.term(body, t)).unwrap_or("null".into()));
        }
        s.push(']');
    }
    fn body(&mut self, did: DefId) -> String {
        let tcx = self.tcx;
        self.cur = Some(did);
        let kind = tcx.def_kind(did);
        let is_fn = matches!(kind, DefKind::Fn | DefKind::AssocFn | DefKind::Closure);
        let body: &Body<'tcx> = if is_fn { tcx.optimized_mir(did) } else { tcx.mir_for_ctfe(did) };
        let mut s = String::new();
        let _ = write!(s, "{{\"id\":{},\"kind\":{},\"span\":{}", esc(&tcx.def_path_str(did)), esc(&format!("{:?}", kind)), self.span(body.span));
        let _ = write!(s, ",\"parent\":{}", esc(&tcx.def_path_str(tcx.parent(did))));
        let _ = write!(s, ",\"root\":{}", esc(&tcx.def_path_str(tcx.typeck_root_def_id(did))));
        // lint level of unsafe_code at this item
        if let Some(ldid) = did.as_local() {
            let hid = tcx.local_def_id_to_hir_id(ldid);
            let store = rustc_lint::unerased_lint_store(tcx.sess);
            if let Some(ids) = store.find_lints("unsafe_code") {
                if let Some(id) = ids.first() {
                    let lvl = tcx.lint_level_at_node(id.lint, hid);
                    let _ = write!(s, ",\"unsafe_code_lint\":{}", esc(&format!("{:?}", lvl.level)));
                }
            }
        }
        // container info
        if let Some(assoc) = tcx.opt_associated_item(did) {
            let _ = write!(s, ",\"name\":{}", esc(assoc.name().as_str()));
            if let Some(im) = assoc.impl_container(tcx) {
                let st = tcx.type_of(im).instantiate_identity().skip_norm_wip();
                let _ = write!(s, ",\"impl_self\":{}", self.ty(st));
                if let Some(tr) = tcx.impl_opt_trait_ref(im) {
                    let _ = write!(s, ",\"impl_trait\":{}", esc(&format!("{:?}", tr.instantiate_identity().skip_norm_wip())));
                }
                let _ = write!(s, ",\"derived\":{}", tcx.is_automatically_derived(im));
            }
            if let Some(tr) = assoc.trait_container(tcx) {
                let _ = write!(s, ",\"trait_provided\":{}", esc(&tcx.def_path_str(tr)));
            }
        } else if matches!(kind, DefKind::Fn | DefKind::Const { .. } | DefKind::Static { .. }) {
            let _ = write!(s, ",\"name\":{}", esc(tcx.item_name(did).as_str()));
        }
        if matches!(kind, DefKind::Fn | DefKind::AssocFn) {
            let _ = write!(s, ",\"vis\":{}", esc(&format!("{:?}", tcx.visibility(did))));
            let sig = tcx.fn_sig(did).instantiate_identity().skip_norm_wip();
            let _ = write!(s, ",\"sig\":{},\"unsafe\":{}", esc(&format!("{:?}", sig)), !sig.safety().is_safe());
            let preds = tcx.predicates_of(did).instantiate_identity(tcx);
            s.push_str(",\"preds\":[");
            for (i, (p, _)) in preds.into_iter().enumerate() { if i > 0 { s.push(','); } s.push_str(&esc(&format!("{:?}", p.skip_norm_wip()))); }
            s.push(']');
        }
        self.mir_body(body, &mut s);
        {
            s.push_str(",\"promoted\":[");
            for (i, pb) in tcx.promoted_mir(did).iter().enumerate() {
                if i > 0 { s.push(','); }
                s.push_str("{\"x\":0");
                self.mir_body(pb, &mut s);
                s.push('}');
            }
            s.push(']');
        }
        s.push('}');
        self.cur = None;
        s
    }
    fn tables(&self) -> String {
        let tcx = self.tcx;
        let mut s = String::new();
        // ADTs
        s.push_str("\"adts\":[");
        let mut first = true;
        let items = tcx.hir_crate_items(());
        for ldid in items.definitions() {
            let did = ldid.to_def_id();
            if !matches!(tcx.def_kind(did), DefKind::Struct | DefKind::Enum | DefKind::Union) { continue; }
            if !first { s.push(','); } first = false;
            let adt = tcx.adt_def(did);
            let _ = write!(s, "{{\"id\":{},\"vis\":{},\"span\":{},\"has_drop\":{},\"fields\":[", esc(&tcx.def_path_str(did)), esc(&format!("{:?}", tcx.visibility(did))), self.span(tcx.def_span(did)), adt.destructor(tcx).is_some());
            for (i, f) in adt.all_fields().enumerate() {
                if i > 0 { s.push(','); }
                let fty = tcx.type_of(f.did).instantiate_identity().skip_norm_wip();
                let _ = write!(s, "{{\"name\":{},\"vis\":{},\"ty\":{}}}", esc(f.name.as_str()), esc(&format!("{:?}", f.vis)), self.ty(fty));
            }
            s.push_str("],\"variants\":[");
            for (i, v) in adt.variants().iter().enumerate() {
                if i > 0 { s.push(','); }
                s.push_str(&esc(v.name.as_str()));
            }
            s.push_str("]}");
        }
        s.push_str("],\"impls\":[");
        first = true;
        for ldid in items.definitions() {
            let did = ldid.to_def_id();
            if !matches!(tcx.def_kind(did), DefKind::Impl { .. }) { continue; }
            if !first { s.push(','); } first = false;
            let st = tcx.type_of(did).instantiate_identity().skip_norm_wip();
            let _ = write!(s, "{{\"self\":{},\"span\":{},\"derived\":{}", self.ty(st), self.span(tcx.def_span(did)), tcx.is_automatically_derived(did));
            if let Some(tr) = tcx.impl_opt_trait_ref(did) {
                let tr = tr.instantiate_identity().skip_norm_wip();
                let _ = write!(s, ",\"trait\":{},\"trait_path\":{}", esc(&format!("{:?}", tr)), esc(&tcx.def_path_str(tr.def_id)));
            }
            let preds = tcx.predicates_of(did).instantiate_identity(tcx);
            s.push_str(",\"preds\":[");
            for (i, (p, _)) in preds.into_iter().enumerate() { if i > 0 { s.push(','); } s.push_str(&esc(&format!("{:?}", p.skip_norm_wip()))); }
            s.push_str("],\"items\":[");
            for (i, it) in tcx.associated_item_def_ids(did).iter().enumerate() {
                if i > 0 { s.push(','); }
                let _ = write!(s, "{{\"name\":{},\"kind\":{}}}", esc(tcx.item_name(*it).as_str()), esc(&format!("{:?}", tcx.def_kind(*it))));
            }
            s.push_str("]}");
        }
        // all fn-like items incl. trait required methods: signatures for the API scan
        s.push_str("],\"items\":[");
        first = true;
        for ldid in items.definitions() {
            let did = ldid.to_def_id();
            let kind = tcx.def_kind(did);
            if !matches!(kind, DefKind::Fn | DefKind::AssocFn) { continue; }
            if !first { s.push(','); } first = false;
            let sig = tcx.fn_sig(did).instantiate_identity().skip_norm_wip();
            let _ = write!(s, "{{\"id\":{},\"kind\":{},\"vis\":{},\"sig\":{},\"unsafe\":{},\"span\":{},\"has_body\":{}", esc(&tcx.def_path_str(did)), esc(&format!("{:?}", kind)), esc(&format!("{:?}", tcx.visibility(did))), esc(&format!("{:?}", sig)), !sig.safety().is_safe(), self.span(tcx.def_span(did)), tcx.is_mir_available(did));
            if let Some(assoc) = tcx.opt_associated_item(did) {
                if let Some(tr) = assoc.trait_container(tcx) { let _ = write!(s, ",\"trait\":{}", esc(&tcx.def_path_str(tr))); }
                if let Some(im) = assoc.impl_container(tcx) {
                    let st = tcx.type_of(im).instantiate_identity().skip_norm_wip();
                    let _ = write!(s, ",\"impl_self\":{}", self.ty(st));
                    if let Some(tr) = tcx.impl_opt_trait_ref(im) { let _ = write!(s, ",\"impl_trait\":{}", esc(&format!("{:?}", tr.instantiate_identity().skip_norm_wip()))); }
                }
            }
            let _ = write!(s, ",\"name\":{}}}", esc(tcx.item_name(did).as_str()));
        }
        // type aliases and re-exports are not needed; exported names: effective visibilities
        s.push_str("],\"reachable\":[");
        first = true;
        let ev = tcx.effective_visibilities(());
        for ldid in items.definitions() {
            if ev.is_reachable(ldid) {
                if !first { s.push(','); } first = false;
                s.push_str(&esc(&tcx.def_path_str(ldid.to_def_id())));
            }
        }
        s.push(']');
        s
    }
}

struct Cb;
impl rustc_driver::Callbacks for Cb {
    fn after_analysis<'tcx>(&mut self, _c: &Compiler, tcx: TyCtxt<'tcx>) -> Compilation {
        if std::env::var("CARGO_PRIMARY_PACKAGE").is_err() { return Compilation::Continue; }
        let mut cx = Cx { tcx, cur: None };
        let mut out = String::from("{\"bodies\":[");
        let mut first = true;
        for ldid in tcx.mir_keys(()) {
            let did = ldid.to_def_id();
            if !matches!(tcx.def_kind(did), DefKind::Fn | DefKind::AssocFn | DefKind::Closure | DefKind::Const { .. } | DefKind::Static { .. }) { continue; }
            if !first { out.push(','); } first = false;
            out.push_str(&cx.body(did));
            out.push('\n');
        }
        out.push_str("],");
        out.push_str(&cx.tables());
        let _ = write!(out, ",\"crate\":{},\"rustc\":{}", esc(tcx.crate_name(rustc_hir::def_id::LOCAL_CRATE).as_str()), esc(option_env!("CFG_VERSION").unwrap_or("nightly")));
        out.push('}');
        let p = std::env::var("FACTS_OUT").expect("FACTS_OUT not set");
        std::fs::write(p, out).unwrap();
        Compilation::Continue
    }
}
fn main() {
    let mut args: Vec<String> = std::env::args().collect();
    args.remove(1);
    rustc_driver::run_compiler(&args, &mut Cb);
}
