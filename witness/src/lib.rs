//! Compile-fail witnesses (E3, DESIGN 3.1 R-ENCAPS): programs that would break the shape invariant from
//! outside the crate must not type-check.  Each witness carries the expected error code and is paired with
//! a compiling twin (`no_run`: compiled, never executed) that differs only in the offending line, so that a
//! witness whose path is merely wrong does not pass vacuously.  Run with `cargo +nightly test --doc`.

/// W1: no mutable access to the backing `Vec` through `AsMut`.
/// ```compile_fail,E0277
/// use toodee::TooDee;
/// fn need<X: AsMut<Vec<u32>>>(x: &mut X) { x.as_mut().push(1); }
/// let mut t: TooDee<u32> = TooDee::init(2, 2, 0);
/// need(&mut t);
/// ```
/// ```no_run
/// use toodee::TooDee;
/// fn need<X: AsMut<[u32]>>(x: &mut X) { x.as_mut()[0] = 1; }
/// let mut t: TooDee<u32> = TooDee::init(2, 2, 0);
/// need(&mut t);
/// ```
pub struct W1;

/// W2: the dimension fields cannot be assigned from outside.
/// ```compile_fail,E0616
/// use toodee::TooDee;
/// let mut t: TooDee<u32> = TooDee::init(2, 2, 0);
/// t.num_rows = 7;
/// ```
/// ```no_run
/// use toodee::{TooDee, TooDeeOps};
/// let t: TooDee<u32> = TooDee::init(2, 2, 0);
/// let _ = t.num_rows();
/// ```
pub struct W2;

/// W3: the owned array cannot be built from its parts outside the crate.
/// ```compile_fail,E0451
/// use toodee::TooDee;
/// let _t: TooDee<u32> = TooDee { data: vec![1, 2, 3], num_rows: 7, num_cols: 7 };
/// ```
/// ```no_run
/// use toodee::TooDee;
/// let _t: TooDee<u32> = TooDee::from_vec(3, 1, vec![1, 2, 3]);
/// ```
pub struct W3;

/// W4: the strided cursors cannot be built from their parts outside the crate.
/// ```compile_fail,E0451
/// let data = [1u32, 2, 3];
/// let _r = toodee::Rows { v: &data[..], cols: 2, skip_cols: 5 };
/// ```
/// ```no_run
/// use toodee::{TooDee, TooDeeOps};
/// let t: TooDee<u32> = TooDee::init(2, 2, 0);
/// let _r: toodee::Rows<'_, u32> = t.rows();
/// ```
pub struct W4;

/// W5: a mutable view cannot be cloned (no second writer to the same cells).
/// ```compile_fail,E0599
/// use toodee::{TooDee, TooDeeOpsMut};
/// let mut t: TooDee<u32> = TooDee::init(2, 2, 0);
/// let v = t.view_mut((0, 0), (1, 1));
/// let _w = v.clone();
/// ```
/// ```no_run
/// use toodee::{TooDee, TooDeeOps};
/// let t: TooDee<u32> = TooDee::init(2, 2, 0);
/// let v = t.view((0, 0), (1, 1));
/// let _w = v.clone();
/// ```
pub struct W5;

/// W6: the array cannot be observed while a column drain borrowed from it is alive (the transient
/// inconsistency inside a live drain is unobservable; assumed by R-LEAK).
/// ```compile_fail,E0502
/// use toodee::{TooDee, TooDeeOps};
/// let mut t: TooDee<u32> = TooDee::init(2, 2, 0);
/// let d = t.remove_col(0);
/// let _ = t.num_cols();
/// drop(d);
/// ```
/// ```no_run
/// use toodee::{TooDee, TooDeeOps};
/// let mut t: TooDee<u32> = TooDee::init(2, 2, 0);
/// let d = t.remove_col(0);
/// drop(d);
/// let _ = t.num_cols();
/// ```
pub struct W6;

/// W7: the same for a row drain.
/// ```compile_fail,E0502
/// use toodee::{TooDee, TooDeeOps};
/// let mut t: TooDee<u32> = TooDee::init(2, 2, 0);
/// let d = t.remove_row(0);
/// let _ = t.num_rows();
/// drop(d);
/// ```
/// ```no_run
/// use toodee::{TooDee, TooDeeOps};
/// let mut t: TooDee<u32> = TooDee::init(2, 2, 0);
/// let d = t.remove_row(0);
/// drop(d);
/// let _ = t.num_rows();
/// ```
pub struct W7;

/// W8: two live mutable views of one parent do not compile.
/// ```compile_fail,E0499
/// use toodee::{TooDee, TooDeeOpsMut};
/// let mut t: TooDee<u32> = TooDee::init(4, 4, 0);
/// let mut a = t.view_mut((0, 0), (2, 2));
/// let mut b = t.view_mut((1, 1), (3, 3));
/// a[(0, 0)] = 1;
/// b[(0, 0)] = 2;
/// ```
/// ```no_run
/// use toodee::{TooDee, TooDeeOpsMut};
/// let mut t: TooDee<u32> = TooDee::init(4, 4, 0);
/// let mut a = t.view_mut((0, 0), (2, 2));
/// a[(0, 0)] = 1;
/// let mut b = t.view_mut((1, 1), (3, 3));
/// b[(0, 0)] = 2;
/// ```
pub struct W8;

/// W9: the array cannot be read while a mutable row cursor over it is alive.
/// ```compile_fail,E0502
/// use toodee::{TooDee, TooDeeOps, TooDeeOpsMut};
/// let mut t: TooDee<u32> = TooDee::init(2, 2, 0);
/// let mut r = t.rows_mut();
/// let _ = t.data();
/// let _ = r.next();
/// ```
/// ```no_run
/// use toodee::{TooDee, TooDeeOps, TooDeeOpsMut};
/// let mut t: TooDee<u32> = TooDee::init(2, 2, 0);
/// let mut r = t.rows_mut();
/// let _ = r.next();
/// let _ = t.data();
/// ```
pub struct W9;

/// W10: the fields of a view cannot be assigned from outside (stride / dimensions).
/// ```compile_fail,E0616
/// use toodee::{TooDee, TooDeeOpsMut};
/// let mut t: TooDee<u32> = TooDee::init(4, 4, 0);
/// let mut v = t.view_mut((0, 0), (2, 2));
/// v.stride = 1;
/// ```
/// ```no_run
/// use toodee::{TooDee, TooDeeOps, TooDeeOpsMut};
/// let mut t: TooDee<u32> = TooDee::init(4, 4, 0);
/// let v = t.view_mut((0, 0), (2, 2));
/// let _ = v.num_cols();
/// ```
pub struct W10;
